#!/bin/bash
# usage: tools/try_seed.sh <seed-id> <check...>  : apply the seeded patch to /repo, run the checks, undo it straight afterwards
ID=$1; shift
git -C /repo apply /verif/seeded/$ID/patch.diff || { echo "patch does not apply"; exit 9; }
rm -rf /tmp/evidence_keep && cp -r /verif/evidence /tmp/evidence_keep   # evidence written against a mutated tree must never be committed
for c in "$@"; do
  out=$(cd /verif && bin/check $c 2>&1); code=$?
  echo "== $ID vs $c: exit=$code"; echo "$out" | grep -E "VIOLATION|obligation:|ENGINE-ERROR|UNDECIDED|KNOWN" | cut -c1-330 | head -8
done
git -C /repo checkout -- . ; rm -rf /verif/evidence && mv /tmp/evidence_keep /verif/evidence ; git -C /repo status --short | head -3
