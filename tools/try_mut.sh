#!/bin/bash
# usage: tools/try_mut.sh <check> <file-under-/repo> <sed-expression>
# one-line source mutation of /repo, run one check against it, undo it straight afterwards; evidence is saved and restored
C=$1; F=$2; E=$3
rm -rf /tmp/evidence_keep_mut && cp -r /verif/evidence /tmp/evidence_keep_mut
sed -i "$E" /repo/$F
if git -C /repo diff --quiet; then echo "mutation did not change anything"; else
  git -C /repo diff --stat | tail -1
  (cd /verif && bin/check $C 2>&1 | grep -E "VIOLATION|exit=|obligation:|ENGINE" | cut -c1-230 | head -${4:-5})
fi
git -C /repo checkout -- . ; rm -rf /verif/evidence && mv /tmp/evidence_keep_mut /verif/evidence; git -C /repo status --short | head -3
