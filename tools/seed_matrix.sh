#!/bin/bash
# run every kept seeded change against the check of the property it breaks (plus extra checks given in seeded/<id>/also); writes seeded/MATRIX.tsv
cd "$(dirname "$0")/.."
OUT=seeded/MATRIX.tsv
echo -e "seed\tcheck\texit\tfirst violated obligation" > $OUT
for d in seeded/*/; do
  id=$(basename $d); prop=${id%%-*}
  [ -f $d/patch.diff ] || continue
  checks="$prop"; [ -f $d/also ] && checks="$checks $(cat $d/also)"
  git -C /repo apply /verif/$d/patch.diff || { echo -e "$id\t-\tpatch-does-not-apply\t" >> $OUT; continue; }
  rm -rf /tmp/evidence_keep && cp -r evidence /tmp/evidence_keep
  for c in $checks; do
    out=$(bin/check $c 2>&1); code=$?
    first=$(echo "$out" | grep -A1 "^VIOLATION" | grep "obligation:" | head -1 | sed 's/^ *obligation: //' | cut -c1-160)
    [ -z "$first" ] && first=$(echo "$out" | grep -E "ENGINE-ERROR|UNDECIDED" | head -1 | cut -c1-160)
    echo -e "$id\t$c\t$code\t$first" >> $OUT
    echo "$id vs $c: exit=$code"
  done
  git -C /repo checkout -- . ; rm -rf evidence && mv /tmp/evidence_keep evidence
done
git -C /repo status --short | head -3
