#!/bin/bash
# Parallel variant of seed_matrix.sh: N scratch worktrees of /repo (outside /repo and /verif, removed at the end); every kept seeded change is applied in a
# worktree and the check of its property (plus seeded/<id>/also) is run against THAT tree (PHYCLONE_REPO / PYTHONPATH), with evidence and replay files
# redirected to a scratch directory, so /repo and /verif/evidence are never touched. Writes seeded/MATRIX.tsv. usage: tools/seed_matrix_par.sh [N] [seed ids...]
cd "$(dirname "$0")/.."
# MODE=refactors runs the negative controls (seeded/refactors/<id>, checks listed in <id>/checks or all twenty) and writes seeded/REFACTORS.tsv instead.
N=${1:-4}; shift
BASE=seeded; OUTFILE=seeded/MATRIX.tsv; HEADER="seed\tcheck\texit\tfirst violated obligation"
if [ "$MODE" = "refactors" ]; then BASE=seeded/refactors; OUTFILE=seeded/REFACTORS.tsv; HEADER="refactor\tcheck\texit\tfirst message"; fi
if [ $# -gt 0 ]; then IDS="$@"; else IDS=$(for d in $BASE/*/; do id=$(basename $d); [ -f $d/patch.diff ] && echo $id; done); fi
SCR=/tmp/mx-$$; mkdir -p $SCR
worker() {
  i=$1; shift
  WT=/tmp/wt-mx-$i
  [ -d $WT ] || return 2
  mkdir -p $SCR/ev$i $SCR/rp$i
  for id in "$@"; do
    prop=${id%%-*}; d=$BASE/$id
    if [ "$MODE" = "refactors" ]; then checks=$(cat $d/checks 2>/dev/null || echo C01 C02 C03 C04 C05 C06 C07 C08 C09 C10 C11 C12 C13 C14 C15 C16 C17 C18 C19 C20)
    else checks="$prop"; [ -f $d/also ] && checks="$checks $(cat $d/also)"; fi
    # CHECKS_ONLY="C02 C05": run only these of the selected checks (a rerun after changing a few contracts)
    if [ -n "$CHECKS_ONLY" ]; then keep=""; for c in $checks; do case " $CHECKS_ONLY " in *" $c "*) keep="$keep $c";; esac; done; checks="$keep"; fi
    git -C $WT apply /verif/$d/patch.diff || { echo -e "$id\t-\tpatch-does-not-apply\t" >> $SCR/rows$i.tsv; continue; }
    for c in $checks; do
      out=$(PHYCLONE_REPO=$WT PYTHONPATH=$WT VERIF_EVIDENCE_DIR=$SCR/ev$i VERIF_REPLAY_DIR=$SCR/rp$i bin/check $c 2>&1); code=$?
      first=$(echo "$out" | grep -A1 "^VIOLATION" | grep "obligation:" | head -1 | sed 's/^ *obligation: //' | cut -c1-160)
      [ -z "$first" ] && first=$(echo "$out" | grep -E "ENGINE-ERROR|UNDECIDED" | head -1 | cut -c1-160)
      [ "$MODE" = "refactors" ] && [ $code -eq 0 ] && first=""
      [ -n "$SAVE_OUT" ] && { mkdir -p $SAVE_OUT; echo "$out" | grep -E "^VIOLATION|obligation:|ENGINE-ERROR|UNDECIDED|tier=" | cut -c1-400 > $SAVE_OUT/$id.$c.txt; }
      echo -e "$id\t$c\t$code\t$first" >> $SCR/rows$i.tsv
      echo "$id vs $c: exit=$code"
    done
    git -C $WT checkout -- .
  done
  git -C /repo worktree remove --force $WT
}
k=0; declare -a BUCKET
for id in $IDS; do BUCKET[$((k % N))]="${BUCKET[$((k % N))]} $id"; k=$((k + 1)); done
# the worktrees are created one after the other (concurrent `git worktree add` calls race on .git/worktrees), then the workers start
git -C /repo worktree prune
for i in $(seq 0 $((N - 1))); do git -C /repo worktree add -q --detach /tmp/wt-mx-$i HEAD || { echo "cannot create worktree $i"; exit 2; }; done
for i in $(seq 0 $((N - 1))); do worker $i ${BUCKET[$i]} & done
wait
if [ -z "$KEEP_OLD_ROWS" ]; then echo -e "$HEADER" > $OUTFILE; cat $SCR/rows*.tsv | sort >> $OUTFILE
else cat $SCR/rows*.tsv | sort; fi
rm -rf $SCR; git -C /repo worktree prune; git -C /repo worktree list
