#!/usr/bin/env python
"""Mechanical mutation test of the contracts: how many small changes of the functions under contract does the check of their property report?

For every function whose real body is executed under contract (taken from /verif/evidence/<id>.json: file + line span) a handful of mutants is generated from its
AST - comparison operators shifted (< to <=, == to !=, ...), + and - exchanged, integer constants 0 / 1 exchanged, an `if` test negated, a call statement or an
augmented assignment deleted, True / False exchanged. Each mutant is written into a scratch worktree of /repo (never /repo itself), the cheapest check that has the
function under contract is run against that worktree (evidence and replay files redirected to a scratch directory), and the verdict is recorded:

  deductive   exit 1 and the first violated obligation is a deductive one
  bounded     exit 1, reported by a bounded stand-in only
  undecided   exit 2 / 3 without a violation: the engine could not process the mutant (loss of coverage, not silence)
  survived    exit 0: equivalent mutant or a gap - to be read by a person

Writes seeded/MUTATION_SCORE.tsv. usage: tools/mutation_score.py [--workers N] [--per-function M] [--only Cxx[,Cyy]] [--functions substring]
Survivors are not failures of a check; the table is a measure of how tight the contracts are (DESIGN II.6c)."""
import argparse
import ast
import copy
import glob
import json
import multiprocessing
import os
import subprocess
import sys
import time

ROOT = os.path.dirname(os.path.dirname(os.path.abspath(__file__)))
SWAP_CMP = {ast.Lt: ast.LtE, ast.LtE: ast.Lt, ast.Gt: ast.GtE, ast.GtE: ast.Gt, ast.Eq: ast.NotEq, ast.NotEq: ast.Eq}


def functions_under_contract(only=None):
    out = {}
    wall = {}
    for f in sorted(glob.glob(os.path.join(ROOT, "evidence", "C*.json"))):
        e = json.load(open(f))
        p = e["property_id"]
        if only and p not in only:
            continue
        wall[p] = e.get("wall_s", 60)
        for q, info in e["coverage"].get("functions_under_contract", {}).items():
            out.setdefault(q, {"file": info["file"], "lines": info["lines"], "props": []})["props"].append(p)
    return out, wall


def find_function(tree, lines):
    for n in ast.walk(tree):
        if isinstance(n, (ast.FunctionDef,)) and n.lineno == lines[0] and n.end_lineno == lines[1]:
            return n
    return None


def sites(fn):
    """(category, description, mutator) in source order; mutator(copy of fn, index path) applies the change on a deep copy"""
    found = []
    nodes = list(ast.walk(fn))
    for i, n in enumerate(nodes):
        if isinstance(n, ast.Compare) and len(n.ops) == 1 and type(n.ops[0]) in SWAP_CMP:
            found.append(("compare", "L%d %s -> %s" % (n.lineno, type(n.ops[0]).__name__, SWAP_CMP[type(n.ops[0])].__name__), i))
        elif isinstance(n, ast.BinOp) and isinstance(n.op, (ast.Add, ast.Sub)) and not isinstance(n.left, ast.Constant) or (isinstance(n, ast.BinOp) and isinstance(n.op, (ast.Add, ast.Sub)) and isinstance(n.left, ast.Constant) and not isinstance(n.left.value, str)):
            if not (isinstance(n.right, ast.Constant) and isinstance(n.right.value, str)):
                found.append(("arith", "L%d %s -> %s" % (n.lineno, type(n.op).__name__, "Sub" if isinstance(n.op, ast.Add) else "Add"), i))
        elif isinstance(n, ast.Constant) and type(n.value) is int and n.value in (0, 1):
            found.append(("constant", "L%d %d -> %d" % (n.lineno, n.value, 1 - n.value), i))
        elif isinstance(n, ast.Constant) and type(n.value) is bool:
            found.append(("boolean", "L%d %s -> %s" % (n.lineno, n.value, not n.value), i))
        elif isinstance(n, ast.If):
            found.append(("negate-if", "L%d if-test negated" % n.lineno, i))
        elif isinstance(n, ast.Expr) and isinstance(n.value, ast.Call) and not (isinstance(n.value.func, ast.Name) and n.value.func.id == "print"):
            found.append(("delete-call", "L%d call statement deleted: %s" % (n.lineno, ast.unparse(n)[:50]), i))
        elif isinstance(n, ast.AugAssign):
            found.append(("delete-augassign", "L%d augmented assignment deleted: %s" % (n.lineno, ast.unparse(n)[:50]), i))
    return found


def apply(fn, index, category):
    m = copy.deepcopy(fn)
    nodes = list(ast.walk(m))
    n = nodes[index]
    if category == "compare":
        n.ops = [SWAP_CMP[type(n.ops[0])]()]
    elif category == "arith":
        n.op = ast.Sub() if isinstance(n.op, ast.Add) else ast.Add()
    elif category == "constant":
        n.value = 1 - n.value
    elif category == "boolean":
        n.value = not n.value
    elif category == "negate-if":
        n.test = ast.UnaryOp(op=ast.Not(), operand=n.test)
    elif category in ("delete-call", "delete-augassign"):
        # replace the statement by `pass` in its parent body
        for p in ast.walk(m):
            for field in ("body", "orelse", "finalbody"):
                b = getattr(p, field, None)
                if isinstance(b, list) and n in b:
                    b[b.index(n)] = ast.Pass()
    ast.fix_missing_locations(m)
    return m


def choose(found, per_function):
    """spread the mutants over the categories, deterministic"""
    by_cat = {}
    for s in found:
        by_cat.setdefault(s[0], []).append(s)
    picked = []
    cats = sorted(by_cat)
    k = 0
    while len(picked) < per_function and any(by_cat.values()):
        c = cats[k % len(cats)]
        k += 1
        if by_cat[c]:
            lst = by_cat[c]
            picked.append(lst.pop(len(lst) // 2))  # middle of the function first
    return picked


def mutated_source(src, fn, mutant):
    lines = src.split("\n")
    start = min([fn.lineno] + [d.lineno for d in fn.decorator_list]) - 1
    indent = " " * fn.col_offset
    text = ast.unparse(mutant)
    new = [indent + ln if ln else ln for ln in text.split("\n")]
    return "\n".join(lines[:start] + new + lines[fn.end_lineno:])


def plan(only, per_function, substring):
    funcs, wall = functions_under_contract(only)
    jobs = []
    for q, info in sorted(funcs.items()):
        if substring and substring not in q:
            continue
        path = info["file"]
        if not os.path.exists(path):
            continue
        src = open(path).read()
        fn = find_function(ast.parse(src), info["lines"])
        if fn is None:
            continue
        prop = min(info["props"], key=lambda p: wall.get(p, 60))
        for cat, desc, idx in choose(sites(fn), per_function):
            try:
                new_src = mutated_source(src, fn, apply(fn, idx, cat))
                compile(new_src, path, "exec")
            except Exception:  # noqa
                continue
            if new_src == src:
                continue
            jobs.append({"function": q, "file": os.path.relpath(path, "/repo"), "property": prop, "category": cat, "mutation": desc, "source": new_src})
    return jobs


def worker(args):
    wid, jobs = args
    wt = "/tmp/wt-ms-%d" % wid
    scr = "/tmp/ms-%d" % os.getpid()
    os.makedirs(scr, exist_ok=True)
    subprocess.run(["git", "-C", "/repo", "worktree", "add", "-q", "--detach", wt, "HEAD"], check=True)
    rows = []
    try:
        for j in jobs:
            target = os.path.join(wt, j["file"])
            with open(target, "w") as fh:
                fh.write(j["source"])
            env = dict(os.environ, PHYCLONE_REPO=wt, PYTHONPATH=wt, VERIF_EVIDENCE_DIR=os.path.join(scr, "ev"), VERIF_REPLAY_DIR=os.path.join(scr, "rp"))
            t0 = time.time()
            proc = subprocess.Popen([os.path.join(ROOT, "bin", "check"), j["property"]], env=env, stdout=subprocess.PIPE, stderr=subprocess.STDOUT, text=True, start_new_session=True)
            try:
                out, _ = proc.communicate(timeout=j.get("timeout", 900))
                code = proc.returncode
            except subprocess.TimeoutExpired:
                import signal

                os.killpg(proc.pid, signal.SIGKILL)  # the check, its forked child and the pool workers of its stand-ins
                proc.communicate()
                out, code = "ENGINE-ERROR the check did not finish within the time limit (a mutant that makes a stand-in loop)", 124
            first = ""
            for ln in out.split("\n"):
                if ln.strip().startswith("obligation:"):
                    first = ln.strip()[len("obligation:"):].strip()[:150]
                    break
            if not first:
                for ln in out.split("\n"):
                    if ln.startswith("ENGINE-ERROR") or ln.startswith("UNDECIDED"):
                        first = ln[:150]
                        break
            if code == 1:
                verdict = "bounded" if any(t in first for t in (".bounded", "exact-kernel", ".stat.", ".smoke", "bounded[", "native-exception")) else "deductive"
            elif code == 0:
                verdict = "survived"
            else:
                verdict = "undecided"
            rows.append((j["property"], j["function"], j["category"], j["mutation"], str(code), verdict, first, "%.0f" % (time.time() - t0)))
            subprocess.run(["git", "-C", wt, "checkout", "--", "."], check=True)
            print("%s %s %s -> %s" % (j["property"], j["function"].split(".")[-1], j["mutation"][:40], verdict), flush=True)
    finally:
        subprocess.run(["git", "-C", "/repo", "worktree", "remove", "--force", wt])
        subprocess.run(["rm", "-rf", scr])
    return rows


def main():
    ap = argparse.ArgumentParser()
    ap.add_argument("--workers", type=int, default=6)
    ap.add_argument("--per-function", type=int, default=4)
    ap.add_argument("--only", default="")
    ap.add_argument("--functions", default="")
    ap.add_argument("--out", default=os.path.join(ROOT, "seeded", "MUTATION_SCORE.tsv"))
    ap.add_argument("--survivors-from", default="", help="an earlier table: rerun its survived / undecided mutants against the other properties that have the function under contract")
    a = ap.parse_args()
    jobs = plan(set(a.only.split(",")) if a.only else None, a.per_function, a.functions)
    earlier = {}
    if a.survivors_from:
        funcs, wall = functions_under_contract(None)
        keep = []
        for ln in open(a.survivors_from).read().split("\n")[1:]:
            c = ln.split("\t")
            if len(c) >= 6:
                earlier[(c[1], c[3])] = c
        for j in jobs:
            e = earlier.get((j["function"], j["mutation"]))
            if e is None or e[5] not in ("survived", "undecided"):
                continue
            for p in funcs[j["function"]]["props"]:
                if p != e[0]:
                    keep.append(dict(j, property=p))
        jobs = keep
    print("%d mutants of %d functions" % (len(jobs), len({j["function"] for j in jobs})), flush=True)
    # long checks first inside every bucket; buckets balanced round-robin
    buckets = [[] for _ in range(a.workers)]
    for k, j in enumerate(jobs):
        buckets[k % a.workers].append(j)
    with multiprocessing.Pool(a.workers) as pool:
        res = pool.map(worker, list(enumerate(buckets)))
    rows = sorted(r for rs in res for r in rs)
    with open(a.out, "w") as fh:
        fh.write("property\tfunction\tcategory\tmutation\texit\tverdict\tfirst message\tseconds\n")
        for r in rows:
            fh.write("\t".join(r) + "\n")
    import collections

    c = collections.Counter(r[5] for r in rows)
    print(dict(c))
    subprocess.run(["git", "-C", "/repo", "worktree", "prune"])


if __name__ == "__main__":
    main()
