#!/usr/bin/env python3
import json, sys, glob, os
import jsonschema
ROOT = os.path.dirname(os.path.dirname(os.path.abspath(__file__)))
schema = json.load(open("/root/.vp/EVIDENCE.schema.json"))
man = {c["property_id"]: c for c in json.load(open(os.path.join(ROOT, "MANIFEST.json")))["checks"]}
bad = 0
for pid, c in sorted(man.items()):
    p = os.path.join(ROOT, "evidence", pid + ".json")
    if not os.path.exists(p):
        print(pid, "MISSING evidence"); bad += 1; continue
    e = json.load(open(p))
    try:
        jsonschema.validate(e, schema)
    except Exception as ex:
        print(pid, "INVALID", str(ex)[:200]); bad += 1; continue
    cov = e["coverage"]
    msg = []
    if e["level"] != c["level_claimed"]["category"]:
        msg.append("level %s != manifest %s" % (e["level"], c["level_claimed"]["category"]))
    if e["level"] == "proof" and cov.get("obligations") != cov.get("discharged"):
        msg.append("discharged %s != obligations %s" % (cov.get("discharged"), cov.get("obligations")))
    if e.get("violations"):
        msg.append("violations=%s" % e["violations"])
    print(pid, e["level"], "obl=%s dis=%s bounded=%d wall=%ss %s" % (cov.get("obligations"), cov.get("discharged"), len(cov.get("bounded_standins", [])), e["wall_s"], "; ".join(msg) or "ok"))
    bad += bool(msg)
sys.exit(1 if bad else 0)
