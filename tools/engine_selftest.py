#!/usr/bin/env python
"""Differential test of the pyvc interpreter against CPython (the engine is the largest item of the trusted base).

Every function of pyvc/selftest/phyclone_st/snippets.py is executed
  (a) natively by CPython,
  (b) by the pyvc interpreter on the same concrete arguments,
  (c) by the pyvc interpreter on SYMBOLIC integer arguments restricted to the box; for every concrete point of the box exactly one explored
      path must contain it, and the result term evaluated at that point must equal the native result; where CPython raises, no completed
      path may contain the point and the engine must have recorded a refuted safety obligation (or a `raise`) for it.
A disagreement is an engine defect: exit 3 (checks report it as an engine error - nothing the engine says is believed), never a violation.
Usage: engine_selftest.py [--box LO HI] [--mode concrete|symbolic|both] [--json FILE]"""
import argparse
import importlib
import json
import os
import sys
import time
from fractions import Fraction

ROOT = os.path.dirname(os.path.dirname(os.path.abspath(__file__)))
sys.path.insert(0, ROOT)
CORPUS = os.path.join(ROOT, "pyvc", "selftest")


def native_module():
    sys.path.insert(0, CORPUS)
    try:
        return importlib.import_module("phyclone_st.snippets")
    finally:
        sys.path.pop(0)


def canon(v, ev=None):
    """canonical comparable form; ev evaluates symbolic numbers / booleans under a model"""
    from pyvc.alg import Num
    from pyvc.interp import SBool

    if isinstance(v, bool):
        return Fraction(int(v))
    if isinstance(v, int):
        return Fraction(v)
    if isinstance(v, float):
        if v != v or v in (float("inf"), float("-inf")):
            return ("float", repr(v))
        return Fraction(v)
    if isinstance(v, Fraction):
        return v
    if v is None or isinstance(v, str):
        return v
    if isinstance(v, Num):
        if v.is_const():
            return Fraction(v.const_value())
        if ev is None:
            raise ValueError("symbolic number without a model")
        return ev(v)
    if isinstance(v, SBool):
        if ev is None:
            raise ValueError("symbolic boolean without a model")
        return ev(v)
    if isinstance(v, tuple):
        return ("tuple", [canon(x, ev) for x in v])
    if isinstance(v, list):
        return ("list", [canon(x, ev) for x in v])
    if isinstance(v, dict):
        return ("dict", [(canon(k, ev), canon(x, ev)) for k, x in v.items()])
    if isinstance(v, (set, frozenset)):
        return ("set", sorted((canon(x, ev) for x in v), key=repr))
    if type(v).__name__ == "SetVal":
        return ("set", sorted((canon(x, ev) for x in v.items), key=repr))
    if type(v).__name__ == "defaultdict":
        return ("dict", [(canon(k, ev), canon(x, ev)) for k, x in v.items()])
    raise ValueError("value of type %s" % type(v).__name__)


class Undetermined:
    """a result that contains uninterpreted applications (big sums of a summarised loop, logarithms, ...): the model does not determine its value, so
    the one-sided test is made: together with the path condition and the concrete inputs the value CPython computed must be possible"""

    def __init__(self, path, zterm, pins):
        self.path, self.zterm, self.pins = path, zterm, pins

    def consistent_with(self, value):
        import z3

        if not isinstance(value, Fraction):
            return False
        s = self.path.solver
        s.push()
        s.add(*self.pins)
        s.add(self.zterm == (z3.IntVal(int(value)) if value.denominator == 1 and z3.is_int(self.zterm) else z3.RealVal(str(value))))
        r = s.check()
        s.pop()
        return r == z3.sat

    def __repr__(self):
        return "<undetermined %s>" % self.zterm


def _has_uf(e, seen=None):
    import z3

    seen = set() if seen is None else seen
    if e.get_id() in seen:
        return False
    seen.add(e.get_id())
    if z3.is_app(e) and e.decl().kind() == z3.Z3_OP_UNINTERPRETED and (e.num_args() > 0 or str(e) not in ("st_x", "st_y")):
        return True  # an uninterpreted application, or a symbol other than the two inputs (big-sum atoms, fresh values)
    return any(_has_uf(c, seen) for c in e.children())


def close(a, b):
    if isinstance(a, Undetermined):
        return a.consistent_with(b)
    if isinstance(a, Fraction) and isinstance(b, Fraction):
        return a == b or abs(a - b) <= Fraction(1, 10 ** 12) * max(1, abs(a), abs(b))  # native floats vs exact rationals
    if isinstance(a, tuple) and isinstance(b, tuple) and len(a) == 2 and len(b) == 2 and a[0] == b[0] and isinstance(a[1], list) and isinstance(b[1], list):
        return len(a[1]) == len(b[1]) and all(close(x, y) for x, y in zip(a[1], b[1]))
    if isinstance(a, tuple) and isinstance(b, tuple):
        return len(a) == len(b) and all(close(x, y) for x, y in zip(a, b))
    return a == b


def run_native(f, args):
    try:
        return ("value", canon(f(*args)))
    except Exception as e:  # noqa
        return ("raise", type(e).__name__)


def engine_paths(repo, fname, make_args):
    """explore the function with the arguments built by make_args(P); yields finished paths (outcome = ("ok", result) etc.)"""
    from pyvc import dsl
    from pyvc.interp import explore

    fi = repo.lookup("phyclone_st.snippets." + fname)
    reg = dsl.Registry()

    def harness(P):
        I = dsl._mk(repo, P, reg)
        return I.call_function(fi, make_args(P), {}, force_inline=True)

    return explore(harness, max_paths=2000, timeout_ms=10000)


def concrete_mode(repo, mod, names, points, report):
    from pyvc.source import Unsupported

    for name in names:
        f = getattr(mod, name)
        for pt in points:
            nat = run_native(f, pt)
            try:
                paths = list(engine_paths(repo, name, lambda P: list(pt)))
            except Unsupported as e:
                report["unsupported"].setdefault(name, str(e)[:160])
                break
            except Exception as e:  # noqa
                report["disagreements"].append({"function": name, "mode": "concrete", "args": pt, "native": repr(nat), "engine": "crash %r" % (e,)})
                break
            report["concrete_runs"] += 1
            oks = [p for p in paths if p.outcome[0] == "ok"]
            refuted = [vc.name for p in paths for vc in p.vcs if vc.status == "refuted"]
            if nat[0] == "raise":
                if oks and not refuted:
                    report["disagreements"].append({"function": name, "mode": "concrete", "args": pt, "native": "raises " + nat[1], "engine": "completes without a failed safety obligation"})
                continue
            if len(oks) != 1 or refuted:
                report["disagreements"].append({"function": name, "mode": "concrete", "args": pt, "native": repr(nat[1])[:200], "engine": "%d completed paths, refuted: %s, outcomes %s" % (len(oks), refuted[:3], [p.outcome[0] for p in paths][:5])})
                continue
            try:
                got = canon(oks[0].outcome[1])
            except ValueError as e:
                report["unsupported"].setdefault(name, "result: %s" % e)
                break
            if not close(got, nat[1]):
                report["disagreements"].append({"function": name, "mode": "concrete", "args": pt, "native": repr(nat[1])[:300], "engine": repr(got)[:300]})


def symbolic_mode(repo, mod, names, lo, hi, report):
    import z3

    from pyvc import alg
    from pyvc.interp import SBool
    from pyvc.source import Unsupported

    pts = [(a, b) for a in range(lo, hi + 1) for b in range(lo, hi + 1)]
    for name in names:
        f = getattr(mod, name)
        x, y = alg.sym("st_x", "Int"), alg.sym("st_y", "Int")

        def make(P):
            P.assume(z3.And(P.z(x) >= lo, P.z(x) <= hi, P.z(y) >= lo, P.z(y) <= hi))
            return [x, y]

        try:
            paths = list(engine_paths(repo, name, make))
        except Unsupported as e:
            report["unsupported_symbolic"].setdefault(name, str(e)[:160])
            continue
        except Exception as e:  # noqa
            report["disagreements"].append({"function": name, "mode": "symbolic", "engine": "crash %r" % (e,)})
            continue
        report["symbolic_functions"] += 1
        report["symbolic_paths"] += len(paths)
        bad = None
        for pt in pts:
            nat = run_native(f, pt)
            cover = []
            flagged = False
            for p in paths:
                zx, zy = p.z(x), p.z(y)
                p.solver.push()
                p.solver.add(zx == pt[0], zy == pt[1])
                sat = p.solver.check() == z3.sat
                m = p.solver.model() if sat else None
                p.solver.pop()
                if p.outcome[0] == "raise":
                    if sat:
                        flagged = True
                    continue
                if p.outcome[0] != "ok":
                    continue
                if sat:
                    cover.append((p, m))
            # points excluded from every path by a refuted safety obligation (the engine assumes the obligation after recording it)
            if not cover and not flagged:
                flagged = any(vc.status == "refuted" for p in paths for vc in p.vcs)
            report["symbolic_points"] += 1
            if nat[0] == "raise":
                if cover and not flagged and not any(vc.status == "refuted" for p, _ in cover for vc in p.vcs):
                    bad = {"function": name, "mode": "symbolic", "args": pt, "native": "raises " + nat[1], "engine": "a completed path contains the point and no safety obligation failed"}
                    break
                continue
            if len(cover) != 1:
                bad = {"function": name, "mode": "symbolic", "args": pt, "native": repr(nat[1])[:200], "engine": "%d completed paths contain the point (flagged=%s)" % (len(cover), flagged)}
                break
            p, m = cover[0]

            pins = [p.z(x) == pt[0], p.z(y) == pt[1]]

            def ev(v, p=p, m=m, pins=pins):
                if isinstance(v, SBool):
                    if _has_uf(v.e):
                        report["undetermined_values"] += 1
                        return Undetermined(p, z3.If(v.e, z3.IntVal(1), z3.IntVal(0)), pins)
                    r = m.eval(v.e, model_completion=True)
                    return Fraction(1 if z3.is_true(r) else 0)
                zt = p.z(v)
                if _has_uf(zt):
                    report["undetermined_values"] += 1
                    return Undetermined(p, zt, pins)
                r = m.eval(zt, model_completion=True)
                if z3.is_int_value(r):
                    return Fraction(r.as_long())
                if z3.is_rational_value(r):
                    return Fraction(r.numerator_as_long(), r.denominator_as_long())
                raise ValueError("model value %s" % r)

            try:
                got = canon(p.outcome[1], ev)
            except ValueError as e:
                report["unsupported_symbolic"].setdefault(name, "result: %s" % e)
                break
            if not close(got, nat[1]):
                bad = {"function": name, "mode": "symbolic", "args": pt, "native": repr(nat[1])[:300], "engine": repr(got)[:300]}
                break
        if bad:
            report["disagreements"].append(bad)


def run(lo=-2, hi=3, mode="both"):
    from pyvc.source import Repo

    t0 = time.time()
    mod = native_module()
    repo = Repo(root=CORPUS)
    names = [f.__name__ for f in mod.FUNCS]
    report = {"functions": len(names), "box": [lo, hi], "concrete_runs": 0, "symbolic_functions": 0, "symbolic_paths": 0, "symbolic_points": 0, "undetermined_values": 0,
              "unsupported": {}, "unsupported_symbolic": {}, "disagreements": []}
    pts = [(a, b) for a in range(lo, hi + 1) for b in range(lo, hi + 1)]
    if mode in ("concrete", "both"):
        concrete_mode(repo, mod, names, pts if mode == "concrete" else pts[::3], report)
    if mode in ("symbolic", "both"):
        symbolic_mode(repo, mod, names, lo, hi, report)
    report["wall_s"] = round(time.time() - t0, 2)
    return report


def main():
    ap = argparse.ArgumentParser()
    ap.add_argument("--box", nargs=2, type=int, default=[-2, 3])
    ap.add_argument("--mode", default="both")
    ap.add_argument("--json")
    a = ap.parse_args()
    rep = run(a.box[0], a.box[1], a.mode)
    if a.json:
        with open(a.json, "w") as fh:
            json.dump(rep, fh, indent=1, default=str)
    print(json.dumps({k: v for k, v in rep.items() if k != "disagreements"}, indent=1, default=str))
    seen = set()
    for d in rep["disagreements"]:
        if (d["function"], d["mode"]) in seen:
            continue  # one witness per function and mode is enough on the console; the JSON report has them all
        seen.add((d["function"], d["mode"]))
        print("DISAGREEMENT", json.dumps(d, default=str)[:900])
    sys.exit(3 if rep["disagreements"] else 0)


if __name__ == "__main__":
    main()
