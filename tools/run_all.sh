#!/bin/bash
# run every registered check (quick tier by default) on the current tree, 4 at a time; print one line per property
cd "$(dirname "$0")/.."
TIER=${1:-quick}
run() { out=$(bin/check $1 --tier $TIER 2>&1); code=$?; echo "$(echo "$out" | tail -1) [exit $code]"; echo "$out" | grep -E "VIOLATION|UNDECIDED|ENGINE-ERROR" | head -5; }
export -f run; export TIER
ls checks | grep -E '^C[0-9]+\.py$' | sed 's/\.py//' | xargs -P 4 -I{} bash -c 'run {}'
