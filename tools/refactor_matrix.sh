#!/bin/bash
# negative controls: apply each behaviour-preserving refactoring (seeded/refactors/<id>/patch.diff) to /repo, run ALL checks, undo it.
# Any exit code other than 0 is a false alarm (1) or a loss of coverage (2/3) caused by a harmless edit. Writes seeded/REFACTORS.tsv
cd "$(dirname "$0")/.."
OUT=seeded/REFACTORS.tsv
[ -n "$1" ] || echo -e "refactor\tcheck\texit\tfirst message" > $OUT
for d in seeded/refactors/*/; do
  id=$(basename $d)
  [ -n "$1" ] && [ "$1" != "$id" ] && continue
  git -C /repo apply /verif/$d/patch.diff || { echo -e "$id\t-\tpatch-does-not-apply\t" >> $OUT; continue; }
  rm -rf /tmp/evidence_keep_rf && cp -r evidence /tmp/evidence_keep_rf
  for c in $(cat $d/checks 2>/dev/null || echo C01 C02 C03 C04 C05 C06 C07 C08 C09 C10 C11 C12 C13 C14 C15 C16 C17 C18 C19 C20); do
    out=$(bin/check $c 2>&1); code=$?
    first=""
    [ $code -ne 0 ] && first=$(echo "$out" | grep -E "obligation:|ENGINE-ERROR|UNDECIDED" | head -1 | sed 's/^ *//' | cut -c1-220)
    echo -e "$id\t$c\t$code\t$first" >> $OUT
    [ $code -ne 0 ] && echo "$id vs $c: exit=$code $first"
  done
  git -C /repo checkout -- . ; rm -rf evidence && mv /tmp/evidence_keep_rf evidence
  echo "$id done"
done
git -C /repo status --short | head -3
