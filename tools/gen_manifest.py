#!/usr/bin/env python3
"""Regenerate /verif/MANIFEST.json from tools/manifest_table.py and validate it."""
import json, os, sys
ROOT = os.path.dirname(os.path.dirname(os.path.abspath(__file__)))
sys.path.insert(0, os.path.join(ROOT, "tools"))
import manifest_table as M

checks = []
for pid, c in sorted(M.CHECKS.items()):
    checks.append({
        "property_id": pid,
        "quick_cmd": "bin/check %s --tier quick" % pid,
        "thorough_cmd": "bin/check %s --tier thorough" % pid,
        "evidence_file": "/verif/evidence/%s.json" % pid,
        "replay_cmd_template": "bin/check %s --replay {path}" % pid,
        "engine": c.get("engine", "pyvc"),
        "level_claimed": {"category": c["category"], "text": c["text"], "design_ref": c.get("design_ref", "DESIGN.md section 5 / %s" % pid)},
        "level_note": c["note"],
        "technique": c["technique"],
    })
man = {
    "version": 1,
    "setup_cmd": "bin/setup",
    "hooks": {
        "guard": "PHYCLONE_VERIF",
        "enable": "no source hooks: contracts are sidecar files under /verif/contracts and the checks read /repo's working tree at run time; bin/check exports PHYCLONE_VERIF=1 for uniformity only",
        "baseline_off_cmd": "cd /repo && /venv/bin/python -m pytest -ra -q -p no:cacheprovider --timeout=900 --continue-on-collection-errors",
        "source_commits": [],
        "add_only": True,
    },
    "engines": M.ENGINES,
    "checks": checks,
    "notes": M.NOTES,
    "not_applicable": [{"property_id": p, "reason": r} for p, r in sorted(M.NOT_APPLICABLE.items())],
}
with open(os.path.join(ROOT, "MANIFEST.json"), "w") as fh:
    json.dump(man, fh, indent=1)
import jsonschema
jsonschema.validate(man, json.load(open("/root/.vp/MANIFEST.schema.json")))
ids = {json.loads(l)["id"] for l in open(os.path.join(ROOT, "properties.jsonl"))}
claimed = set(M.CHECKS) | set(M.NOT_APPLICABLE)
assert claimed == ids, (ids - claimed, claimed - ids)
print("MANIFEST ok: %d checks, %d not_applicable" % (len(checks), len(M.NOT_APPLICABLE)))
