#!/bin/bash
# usage: tools/validate_seed.sh <seed-id> <dir with patch.diff demo.py notes.md> <property>
# Confirms in a scratch worktree: patch applies; demo fails with it and passes without; the pinned test suite still gives 85 passed.
set -u
ID=$1; SRC=$2; PROP=$3
WT=/tmp/seedval_$ID
OUT=/verif/seeded/$ID
rm -rf $WT; git -C /repo worktree prune
git -C /repo worktree add -q --detach $WT HEAD || exit 2
mkdir -p $OUT
cp $SRC/patch.diff $OUT/patch.diff; cp $SRC/demo.py $OUT/demo.py; cp $SRC/notes.md $OUT/notes.md 2>/dev/null
cd $WT
PYTHONPATH=$WT timeout 600 /venv/bin/python $OUT/demo.py > $OUT/demo_clean.log 2>&1; D0=$?
git apply $OUT/patch.diff; AP=$?
PYTHONPATH=$WT timeout 600 /venv/bin/python $OUT/demo.py > $OUT/demo_patched.log 2>&1; D1=$?
PYTHONPATH=$WT /venv/bin/python -m pytest -q -p no:cacheprovider --timeout=900 --continue-on-collection-errors phyclone/tests > $OUT/suite_patched.log 2>&1
SUITE=$(tail -1 $OUT/suite_patched.log)
FILES=$(git diff --name-only | tr '\n' ' ')
cd /; git -C /repo worktree remove --force $WT
python3 - <<PY
import json
json.dump({"id":"$ID","property":"$PROP","patch_applies":$AP==0,"demo_exit_clean":$D0,"demo_exit_patched":$D1,"suite_with_patch":"""$SUITE""".strip(),
 "files":"$FILES".split(),"validated_cmds":["git apply patch.diff (scratch worktree of /repo HEAD)","PYTHONPATH=<wt> /venv/bin/python demo.py","PYTHONPATH=<wt> /venv/bin/python -m pytest -q -p no:cacheprovider --timeout=900 --continue-on-collection-errors phyclone/tests"],
 "base_commit":"$(git -C /repo rev-parse --short HEAD)"}, open("$OUT/meta.json","w"), indent=1)
PY
tail -c 300 $OUT/demo_patched.log > $OUT/demo_patched.tail; rm -f $OUT/demo_clean.log
echo "$ID apply=$AP demo_clean=$D0 demo_patched=$D1 suite: $SUITE"
