ENGINES = [
    {"name": "pyvc", "path": "/verif/pyvc", "serves_properties": [],
     "kind_free_text": "verification-condition generator: symbolic execution of the real Python AST read from /repo at check time against sidecar contracts; obligations discharged by z3 (cvc5 on unknown)"},
    {"name": "exact-kernel oracle", "path": "/verif/replay", "serves_properties": [],
     "kind_free_text": "enumerating numpy Generator stand-in driving the real samplers: bounded stand-in and replay oracle (never counted as proved)"},
]
NOTES = "Work in progress: properties move from not_applicable to checks as their contracts come online."
PROOF_NOTE = ("Trusted base: the library/collaborator models listed in coverage.trusted_base (assumed contracts on numpy Generator, Tree methods at Layer 2, "
              "meta-theorems), A-REAL (floats as reals), the pyvc engine itself (cross-checked against CPython and by seeded source mutations in the thorough tier). "
              "Bounded stand-ins are labelled bounded and never counted in 'discharged'.")

CHECKS = {
    "C01": {"category": "proof", "technique": "contract-based deductive verification (pyvc: AST symbolic execution of the real source + z3) of the local particle-Gibbs conditions L1,L3-L8; exact-kernel oracle as bounded stand-in",
            "text": "Every obligation generated from the current source of create_particle (+real Particle/TreeHolder), _get_log_w, ParticleSwarm, ConditionalSMCSampler._init/_update/_resample_swarm, AbstractSMCSampler.sample, ParticleGibbsTreeSampler.sample_swarm/_sample_tree_from_swarm, run.setup_kernel/setup_samplers and the three proposals' sample/log_p is discharged by z3 for all N, T, thresholds and parent states; the step from these local conditions to invariance is the trusted theorem M-PG, cross-checked by exact transition matrices on n<=3 points (bounded).",
            "note": PROOF_NOTE},
    "C03": {"category": "proof", "technique": "contract-based deductive verification of the real FSCRPDistribution / TreeJointDistribution code against the FS-CRP formulas (pyvc + z3; loops as big sums and inductive loop contracts); independent reference implementation as bounded stand-in",
            "text": "For every number of clones, top-level clones, samples, grid points and outliers the two prior forms, the outlier prior, both joint forms and their fused computation are proved equal to the model written from the statement (including harmlessness of the Python-truthiness guards). That the observers these functions read are label- and history-invariant functions of the tree, the equality/hash clause and the per-outlier marginal are covered by the bounded stand-in (independent reference on all trees over <= 3/4 points, five construction histories).",
            "note": PROOF_NOTE},
    "C04": {"category": "proof", "technique": "contract-based deductive verification of the block-Gibbs obligations G1-G3 on the real DataPointSampler / PruneRegraphSampler code (pyvc + z3); M-GIBBS core in Lean; exact-kernel oracle as bounded stand-in",
            "text": "For any number of clones, with and without the outlier option, the real data-point move selects each candidate with probability exp(log_p_one)/sum, skips only points alone in their clone, and from every candidate it produces re-runs with the same family and probabilities (block closure, checked by executing the real move twice); prune-regraft picks the subtree root uniformly over K clones and the attachment with Gibbs probabilities. The subtree particle-Gibbs move admits no such contract and is a recorded known finding (K01), watched by the exact-kernel oracle (bounded).",
            "note": PROOF_NOTE},
    "C09": {"category": "proof", "technique": "contract-based deductive verification of RootPermutationDistribution.log_count / log_pdf against the closed form for the number of compatible orders (pyvc + z3); brute force + exact enumeration of sample() as bounded stand-in",
            "text": "log_count equals log N! - sum_r log size(r)! + sum_r log_count(r) at the top level and the multinomial/factorial recursion below, for any numbers of top-level clones, children and outliers, and log_pdf is its negative. That the closed form counts the linear extensions (M-LINEXT) and that sample() is uniform over them is not a function postcondition within the engine's reach: exact enumeration on every tree with <= 4 (5) data points (bounded) and a 6.5-sigma statistical smoke check at 16-30 items.",
            "note": PROOF_NOTE},
    "C08": {"category": "proof", "technique": "contract-based deductive verification: relational obligation log rho(sample path) == log_p(result) on the real proposal code with a ghost density accumulator; z3",
            "text": "Faithful sampling of the three proposals (for every parent state, any number of top-level clones, any outlier proposal probability), the incremental weight formula with and without a permutation distribution, the final-step correction and log_normalize are proved on the real source; completeness of the candidate sets of the adapted proposals and the class invariant established by _init_dist are covered by exact enumeration on small parents (bounded).",
            "note": PROOF_NOTE},
    "C13": {"category": "proof", "technique": "contract-based deductive verification with a ghost draw trace over scipy's rvs calls (pyvc + z3, NRA for the mixture weight); spying Generator as bounded stand-in",
            "text": "For all a, b, alpha > 0 and 1 <= K <= n the real sample() draws eta ~ Beta(alpha+1, n), then picks the Gamma(a+K, .) component with exactly the weight of x^(a+K-1) in x^(a+K-2)(x+n)exp(-x(b-log eta)), then draws Gamma(shape, scale 1/(b - log eta)) and clamps at 1e-10, all from the sampler's own generator; run.py passes K and n with the outlier list excluded for any tree, stores the result through the setter that refreshes log_alpha, and one TreeJointDistribution object is shared by kernel, samplers and trace writer. That the step leaves the conditional posterior invariant is the cited theorem (trusted).",
            "note": PROOF_NOTE},
}
NOT_APPLICABLE = {("C%02d" % i): "check not built yet (in progress; see DESIGN.md section 5)" for i in range(1, 21) if ("C%02d" % i) not in CHECKS}
