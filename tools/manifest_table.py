ENGINES = [
    {"name": "pyvc", "path": "/verif/pyvc", "serves_properties": [],
     "kind_free_text": "verification-condition generator: symbolic execution of the real Python AST read from /repo at check time against sidecar contracts; obligations discharged by z3 (cvc5 on unknown)"},
    {"name": "exact-kernel oracle", "path": "/verif/replay", "serves_properties": [],
     "kind_free_text": "enumerating numpy Generator stand-in driving the real samplers: bounded stand-in and replay oracle (never counted as proved)"},
]
NOTES = "Work in progress: properties move from not_applicable to checks as their contracts come online."
CHECKS = {}
NOT_APPLICABLE = {("C%02d" % i): "check not built yet (in progress; see DESIGN.md section 5)" for i in range(1, 21)}
