"""Bounded stand-in for C02 (never counted as proved): the real root likelihood vector against literal enumeration of all index
assignments on every forest over <= 4 clones; the floating-point clauses (underflow floor, never-below-exact on the direct
path, finiteness, FFT accuracy at 1000 grid points) that the real-arithmetic model cannot express."""
import itertools
import math

import numpy as np

from bounded import reference as REF
from replay import trees as T


def datasets(seed):
    """(name, data) - includes identical data points (bit-identical sibling vectors), rows on very different scales and a
    wide dynamic range inside a row"""
    from phyclone.data.base import DataPoint

    rng = np.random.default_rng(seed + 77)
    out = []
    for dims, grid in ((1, 3), (2, 4), (1, 5)):
        vals = [rng.normal(0, 2.0, size=(dims, grid)) for _ in range(4)]
        out.append(("random D=%d G=%d" % (dims, grid), [DataPoint(i, v) for i, v in enumerate(vals)]))
    v = rng.normal(0, 1.0, size=(2, 4))
    out.append(("identical points", [DataPoint(i, v.copy()) for i in range(4)]))
    vals = []
    for i in range(4):
        a = rng.normal(0, 1.0, size=(2, 4))
        a[1] -= 900.0 + 40 * i  # second sample hundreds of nats below the first
        vals.append(a)
    out.append(("rows on different scales", [DataPoint(i, v) for i, v in enumerate(vals)]))
    vals = []
    for i in range(4):
        a = rng.normal(0, 1.0, size=(1, 5))
        a[0, rng.integers(5)] -= 60.0  # wide range inside a row, still inside the 1e-100 window after products
        vals.append(a)
    out.append(("wide dynamic range", [DataPoint(i, v) for i, v in enumerate(vals)]))
    return out


def forests_for(data, max_clones):
    n = len(data)
    seen = set()
    for k in range(1, min(n, max_clones) + 1):
        for blocks in T.set_partitions(range(n)):
            if len(blocks) != k:
                continue
            for parent in T.forests(k):
                t = T.build_tree(data, blocks, parent)
                key = T.tree_key(t)
                if key in seen:
                    continue
                seen.add(key)
                yield t, blocks, parent


def check_tree(tree, name, tol=1e-8):
    problems = []
    got = np.array(tree.data_log_likelihood, dtype=float)
    ref = REF.brute_force_root_vector(tree)
    if not np.all(np.isfinite(got)):
        problems.append("%s %s: non-finite reported likelihood" % (name, T.describe(tree)))
        return problems
    D, G = got.shape
    for d in range(D):
        for k in range(G):
            if np.isfinite(ref[d, k]) and abs(got[d, k] - ref[d, k]) > tol * max(1.0, abs(ref[d, k])):
                problems.append("%s %s: entry [%d,%d] reported %.12g, exact %.12g" % (name, T.describe(tree), d, k, got[d, k], ref[d, k]))
                return problems
            if np.isfinite(ref[d, k]) and got[d, k] < ref[d, k] - 1e-9 * max(1.0, abs(ref[d, k])):
                problems.append("%s %s: entry [%d,%d] reported below exact" % (name, T.describe(tree), d, k))
                return problems
    return problems


def fft_clause(seed):
    from phyclone.tree.utils import _np_conv_dims
    from phyclone.utils.math import fft_convolve_two_children

    rng = np.random.default_rng(seed + 5)
    problems = []
    for rep in range(3):
        G = 1000
        a = np.cumsum(rng.normal(0, 0.05, size=(2, G)), axis=1) + rng.normal(0, 3, size=(2, 1))
        b = np.cumsum(rng.normal(0, 0.05, size=(2, G)), axis=1) + rng.normal(0, 3, size=(2, 1))
        b[1] -= 700.0
        f = fft_convolve_two_children(a.copy(), b.copy())
        d = _np_conv_dims(a.copy(), b.copy())
        if not np.all(np.isfinite(f)):
            problems.append("fft path returned non-finite values")
            continue
        peak = d.max(axis=1, keepdims=True)
        err = np.abs(np.exp(f - peak) - np.exp(d - peak)).max()
        if err > 1e-6:
            problems.append("fft path differs from the direct path by %.3g of the row peak (allowed 1e-6)" % err)
    # the switch: a tree whose nodes have 1000 grid points goes through the fft path and agrees with the direct recursion
    from phyclone.data.base import DataPoint
    from phyclone.tree.utils import _convolve_two_children

    x = rng.normal(0, 1, size=(1, 1000))
    y = rng.normal(0, 1, size=(1, 1000))
    r1 = _convolve_two_children(x, y)
    r2 = _np_conv_dims(x, y)
    peak = r2.max()
    if np.abs(np.exp(r1 - peak) - np.exp(r2 - peak)).max() > 1e-6:
        problems.append("_convolve_two_children at 1000 grid points differs from the direct convolution")
    return problems


def run(tier="quick", seed=0):
    problems = []
    n_trees = 0
    for name, data in datasets(seed):
        G = data[0].value.shape[1]
        max_clones = 4 if (G <= 4 or tier == "thorough") else 3
        for tree, blocks, parent in forests_for(data, max_clones):
            n_trees += 1
            problems += check_tree(tree, name)
            # rebuilt with siblings in the other order, and after a full update(): same vector
            t2 = tree.copy()
            t2.update()
            if not np.allclose(t2.data_log_likelihood, tree.data_log_likelihood, rtol=1e-12, atol=1e-12):
                problems.append("%s %s: update() changes the root vector" % (name, T.describe(tree)))
            if len(problems) > 8:
                return {"trees": n_trees, "problems": problems}
    problems += fft_clause(seed)
    return {"trees": n_trees, "problems": problems}


# ------------------------------------------------------------------------------------------ trees on which the sum constraint bites, at the switch

FFT_SCENARIOS = {
    # (ref, alt) per clone at copy number 1+1, one sample; shape: nested dict of clone indices
    "siblings-sum-above-one": ([(165, 135), (170, 130)], {0: {}, 1: {}}),
    "children-exceed-parent": ([(1275, 225), (1275, 225), (1350, 150)], {2: {0: {}, 1: {}}}),
}


def _exact_conv(a, b):
    from scipy.special import logsumexp

    S, G = a.shape
    out = np.empty((S, G))
    for s in range(S):
        out[s] = [logsumexp(a[s, : k + 1] + b[s, k::-1]) for k in range(G)]
    return out


def _exact_root(shape, values, G):
    S = next(iter(values.values())).shape[0]
    log_prior = -np.log(G)

    def log_r(own, children):
        res = np.full((S, G), log_prior) if own is None else values[own] + log_prior
        rs = [log_r(c, gc) for c, gc in children.items()]
        if rs:
            d = rs[0]
            for r in rs[1:]:
                d = _exact_conv(d, r)
            res = res + np.logaddexp.accumulate(d, axis=1)
        return res

    return log_r(None, shape)


def constraint_at_switch(grids=(999, 1000)):
    """Root vector of trees that violate the CCF sum constraint (so that the retained part of the children's convolution is far below its cut-off
    peak), one grid point below the switch to the FFT path and at it, against a log-space evaluation of the defining sums.
    One record per (scenario, density, grid): the largest |reported - exact| over the entries within 1e-6 of the exact row peak."""
    from phyclone.data.base import DataPoint as BaseDataPoint
    from phyclone.data.pyclone import DataPoint, SampleDataPoint, get_major_cn_prior
    from phyclone.tree import Tree

    out = []
    for scen, (counts, shape) in FFT_SCENARIOS.items():
        for density, prec in (("binomial", 1.0), ("beta-binomial", 400.0)):
            for G in grids:
                cn, mu, log_pi = get_major_cn_prior(1, 1, 2, error_rate=0.001)
                data = []
                for i, (ref, alt) in enumerate(counts):
                    g = DataPoint(["S"], [SampleDataPoint(ref, alt, cn, mu, log_pi, 1.0)]).to_likelihood_grid(density, G, precision=prec)
                    data.append(BaseDataPoint(i, g, name="m%d" % i))
                tree = Tree(data[0].grid_size)

                def build(sh):
                    return [tree.create_root_node(children=build(ch), data=[data[i]]) for i, ch in sh.items()]

                build(shape)
                reported = np.array(tree.data_log_likelihood)
                exact = _exact_root(shape, {d.idx: d.value for d in data}, G)
                window = exact >= exact.max(axis=1, keepdims=True) + np.log(1e-6)
                err = float(np.abs(reported - exact)[window].max())
                k = int(exact[0].argmax())
                out.append({"scenario": scen, "density": density, "grid": G, "defect": err, "finite": bool(np.all(np.isfinite(reported))),
                            "peak_index": k, "exact_peak": float(exact[0, k]), "reported_at_peak": float(reported[0, k])})
    return out
