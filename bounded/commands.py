"""Bounded stand-ins for C11 / C12 / C16 / C20 (never counted as proved): the real summary commands are run on synthetic
traces built from real Tree objects; their output files are parsed back and compared with independent expectations."""
import gzip
import io
import itertools
import os
import re
import pickle
import shutil
import tarfile
import tempfile

import numpy as np

from replay import exact_kernel as EK
from replay import trees as T


# ----------------------------------------------------------------------------------------------------------- helpers


def parse_newick(s):
    """'((1)0,2)root;' -> parent map {child: parent} over node name strings"""
    s = s.strip()
    assert s.endswith(";"), s
    s = s[:-1]
    parent = {}
    pos = 0

    def node():
        nonlocal pos
        kids = []
        if pos < len(s) and s[pos] == "(":
            pos += 1
            while True:
                kids.append(node())
                if s[pos] == ",":
                    pos += 1
                    continue
                if s[pos] == ")":
                    pos += 1
                    break
        start = pos
        while pos < len(s) and s[pos] not in ",()":
            pos += 1
        name = s[start:pos]
        for k in kids:
            parent[k] = name
        return name

    root = node()
    return root, parent


def read_table(path):
    with open(path) as fh:
        header = fh.readline().rstrip("\n").split("\t")
        rows = [dict(zip(header, line.rstrip("\n").split("\t"))) for line in fh if line.strip()]
    return header, rows


def clades_from_outputs(table_rows, newick, name_to_idx):
    """clades (sets of data idx) and outliers implied by a results table + newick tree"""
    root, parent = parse_newick(newick)
    nodes = set(parent.keys()) | set(parent.values())
    nodes.discard(root)
    own = {n: set() for n in nodes}
    outliers = set()
    problems = []
    for r in table_rows:
        cid = r["clone_id"]
        idx = name_to_idx.get(r["mutation_id"])
        if idx is None:
            # a mutation of a cluster that has no data point (the loader discarded the whole cluster): it can only be reported as an outlier
            if cid != "-1":
                problems.append("mutation %s belongs to a cluster without a data point but is reported in clone %s" % (r["mutation_id"], cid))
            continue
        if cid == "-1":
            outliers.add(idx)
        elif cid in own:
            own[cid].add(idx)
        else:
            problems.append("clone id %s in the table is not a node of the tree %s" % (cid, newick.strip()))
    children = {n: [c for c, p in parent.items() if p == n] for n in nodes | {root}}

    def clade(n):
        s = set(own.get(n, ()))
        for c in children.get(n, []):
            s |= clade(c)
        return s

    return frozenset(frozenset(clade(n)) for n in nodes), frozenset(outliers), problems, children, own


def make_results(chains, data, samples, clusters=None):
    """chains: {chain_num: [(tree, log_p_one)]} in the given (dict insertion) order"""
    res = {}
    for c, entries in chains.items():
        res[c] = {"data": data, "samples": list(samples), "chain_num": c,
                  "trace": [{"iter": i, "time": 0.0, "alpha": 1.0, "log_p_one": float(lp), "tree": t.to_dict()} for i, (t, lp) in enumerate(entries)]}
        if clusters is not None:
            res[c]["clusters"] = clusters
    return res


def write_trace(res, path):
    with gzip.GzipFile(path, mode="wb") as fh:
        pickle.dump(res, fh)


def entry_key(entry_tree_dict):
    from phyclone.tree import Tree

    return T.tree_key(Tree.from_dict(entry_tree_dict))


def quiet(fn, *a, **k):
    import contextlib

    with contextlib.redirect_stdout(io.StringIO()):
        return fn(*a, **k)


# ----------------------------------------------------------------------------------------------------------- C12 table checks


def check_table(rows, header, newick, data, samples, tree_key_expected=None, clusters=None, label=""):
    """C12: each mutation once per sample, clone ids are tree nodes or -1, ccf/prev in [0,1] or -1, prevalence = ccf - children"""
    problems = []
    names = [str(dp.name) for dp in data] if clusters is None else [str(m) for m in clusters["mutation_id"]]
    name_to_idx = {str(dp.name): dp.idx for dp in data}
    if clusters is not None:
        cl_of = {str(m): str(c) for m, c in zip(clusters["mutation_id"], clusters["cluster_id"])}
        name_to_idx = {str(m): name_to_idx[cl_of[str(m)]] for m in cl_of if cl_of[str(m)] in name_to_idx}
    seen = {}
    for r in rows:
        seen[(r["mutation_id"], r["sample_id"])] = seen.get((r["mutation_id"], r["sample_id"]), 0) + 1
    for m in names:
        for s in samples:
            if seen.get((m, s), 0) != 1:
                problems.append("%s: mutation %s sample %s listed %d times" % (label, m, s, seen.get((m, s), 0)))
    if len(seen) != len(names) * len(samples):
        problems.append("%s: table has %d (mutation, sample) pairs, expected %d" % (label, len(seen), len(names) * len(samples)))
    clades, outs, ps, children, own = clades_from_outputs(rows, newick, name_to_idx)
    problems += ["%s: %s" % (label, p) for p in ps]
    if tree_key_expected is not None and (clades, outs) != tree_key_expected:
        problems.append("%s: table+tree describe clades %s outliers %s, expected %s" % (label, sorted(map(sorted, clades)), sorted(outs), T.key_str(tree_key_expected)))
    ccf, prev = {}, {}
    for r in rows:
        c, s = r["clone_id"], r["sample_id"]
        v, p = float(r["ccf"]), float(r["clonal_prev"])
        if c == "-1":
            if v != -1 or p != -1:
                problems.append("%s: outlier row with ccf %s prev %s" % (label, v, p))
            continue
        if not (-1e-12 <= v <= 1 + 1e-12) or not (-1e-12 <= p <= 1 + 1e-12):
            problems.append("%s: clone %s sample %s ccf %s prevalence %s outside [0,1]" % (label, c, s, v, p))
        if (c, s) in ccf and (abs(ccf[(c, s)] - v) > 1e-12 or abs(prev[(c, s)] - p) > 1e-12):
            problems.append("%s: clone %s sample %s has inconsistent values across its mutations" % (label, c, s))
        ccf[(c, s)], prev[(c, s)] = v, p
    for (c, s), v in ccf.items():
        kids = [k for k in children.get(c, []) if (k, s) in ccf]
        if abs(prev[(c, s)] - (v - sum(ccf[(k, s)] for k in kids))) > 1e-9:
            problems.append("%s: clone %s sample %s prevalence %s != ccf %s - children %s" % (label, c, s, prev[(c, s)], v, [ccf[(k, s)] for k in kids]))
    if clusters is not None:
        by_cluster = {}
        for r in rows:
            by_cluster.setdefault(cl_of[r["mutation_id"]], set()).add(r["clone_id"])
        for c, ids in by_cluster.items():
            if len(ids) != 1:
                problems.append("%s: mutations of cluster %s are spread over clones %s" % (label, c, sorted(ids)))
    return problems


def check_values_against_tree(rows, tree, data, samples, clusters, label):
    """C12, 'CCF and clonal prevalence are those of that clone': the values of a table written for a KNOWN tree are compared with an independent
    brute-force maximisation over all feasible grid assignments on that tree (ties allowed: the reported assignment must attain the maximum)."""
    from bounded.mapccf import brute_force_map

    problems = []
    if not list(tree.nodes):
        return problems
    name_to_idx = {str(dp.name): dp.idx for dp in data}
    if clusters is not None:
        cl_of = {str(m): str(c) for m, c in zip(clusters["mutation_id"], clusters["cluster_id"])}
        name_to_idx = {m: name_to_idx[c] for m, c in cl_of.items() if c in name_to_idx}
    labels = tree.labels
    D, G = tree.grid_size
    node_val = {}
    for r in rows:
        if r["clone_id"] == "-1" or r["mutation_id"] not in name_to_idx:
            continue
        node = labels.get(name_to_idx[r["mutation_id"]])
        if node is None:
            continue
        d = samples.index(r["sample_id"])
        node_val[(node, d)] = float(r["ccf"])
    if set(n for n, _ in node_val) != set(tree.nodes):
        return problems  # reported elsewhere (clades of table + tree differ from the recorded tree)
    best, logp, children, roots = brute_force_map(tree)
    for d in range(D):
        ks = {}
        for v in tree.nodes:
            k = node_val[(v, d)] * (G - 1)
            if abs(k - round(k)) > 1e-9:
                problems.append("%s: clone of data point(s) %s sample %s: ccf %s is not a grid value" % (label, v, samples[d], node_val[(v, d)]))
                return problems
            ks[v] = int(round(k))
        if any(sum(ks[c] for c in children[v]) > ks[v] for v in tree.nodes) or sum(ks[r] for r in roots) > G - 1:
            problems.append("%s: sample %s: table values are not feasible on the tree (a clone below the sum of its children, or top-level clones above one)" % (label, samples[d]))
            continue
        val = sum(logp[v][d, ks[v]] for v in tree.nodes)
        if val < best[d] - 1e-9 * max(1.0, abs(best[d])):
            problems.append("%s: sample %s: the table's CCFs have summed log-likelihood %.10g, the feasible maximum on this tree is %.10g (values are not those of the clones)" % (label, samples[d], val, best[d]))
    return problems


# ----------------------------------------------------------------------------------------------------------- scenarios


def renumbered(tree, data):
    """the same tree built with its clones created in the reverse order (different names and sibling order)"""
    nodes = list(tree.nodes)[::-1]
    blocks = [[dp.idx for dp in tree.node_data.get(v, [])] for v in nodes]
    pos = {v: i for i, v in enumerate(nodes)}
    parent = tuple(-1 if tree.get_parent(v) == "root" else pos[tree.get_parent(v)] for v in nodes)
    return T.build_tree(data, blocks, parent, outliers=tuple(dp.idx for dp in tree.outliers))


def scenario_trees(n, seed, outl=True, dims=2):
    data = T.make_data(n, dims=dims, grid=5, seed=seed + 31, outlier_p=0.2 if outl else 0.0)
    trees = T.all_trees(data, outliers_allowed=outl)
    return data, trees


def run_c11_c12(tier="quick", seed=0):
    """MAP (both modes), topology report + archive on multi-chain traces in several chain orders, with ties and relabelled copies"""
    from phyclone.process_trace import write_map_results, write_topology_report

    problems = []
    cases = 0
    rng = np.random.default_rng(seed + 3)
    data, trees = scenario_trees(3, seed)
    td = EK.make_tree_dist(1.0)
    samples = ["s1", "s2"]
    name_to_idx = {str(dp.name): dp.idx for dp in data}
    tmp = tempfile.mkdtemp(prefix="verif_cmd_")
    try:
        n_scen = 14 if tier == "quick" else 48
        crafted = []
        multi = [t for t in trees if len(t.nodes) >= 2]
        for t in multi[:6]:
            r_ = renumbered(t, data)
            base = float(td.log_p_one(t))
            # the same tree recorded twice, the later recording numbered differently and scoring strictly higher
            crafted.append({0: [(t.copy(), base), (r_, base + 1.5), (multi[-1].copy(), base - 3.0)]})
            crafted.append({1: [(r_, base)], 0: [(t.copy(), base + 0.25), (t.copy(), base - 1.0)]})
        # chains stored in completion order (not chain-number order), the best entry in a chain whose position differs from its number
        d3 = [t for t in trees][:3]
        crafted.append({2: [(d3[0].copy(), 5.0), (d3[1].copy(), 0.5)], 0: [(d3[1].copy(), 1.0)], 1: [(d3[2].copy(), 3.0), (d3[2].copy(), 2.0)]})
        crafted.append({1: [(d3[1].copy(), 0.0), (d3[0].copy(), 7.0)], 0: [(d3[2].copy(), 6.0), (d3[1].copy(), 6.5)]})
        crafted.append({1: [(d3[1].copy(), -2.0)], 2: [(d3[0].copy(), -1.0), (d3[2].copy(), -1.5)], 0: [(d3[1].copy(), -9.0), (d3[1].copy(), -8.0), (d3[2].copy(), -7.0)]})
        for scen in range(-len(crafted), n_scen):
            if scen < 0:
                chains = crafted[scen]
                pool = trees
            else:
                k = int(rng.integers(2, 6))
                pool = [trees[i] for i in rng.choice(len(trees), size=k, replace=False)]
                n_chains = int(rng.integers(1, 4))
                chains = {}
                order = list(rng.permutation(n_chains))  # completion order != chain numbers
                all_entries = []
                for c in order:
                    m = int(rng.integers(1, 5))
                    ent = []
                    for _ in range(m):
                        t = pool[int(rng.integers(len(pool)))]
                        u = rng.random()
                        t2 = t.copy()
                        if u < 0.3:
                            t2.relabel_nodes()
                        elif u < 0.6:
                            t2 = renumbered(t, data)  # same tree, clones numbered and ordered differently
                        lp = float(td.log_p_one(t2))
                        if scen % 4 == 0:
                            lp = round(lp)  # ties between different trees
                        elif scen % 4 == 1:
                            lp = 1.0  # every entry ties (adjacent distinct trees with equal scores)
                        elif scen % 4 == 2:
                            lp = lp + float(rng.normal(0, 0.7))  # the same tree recorded with different scores (alpha changes between entries)
                        ent.append((t2, lp))
                    chains[int(c)] = ent
            if 0 not in chains:
                chains[0] = [(pool[0].copy(), float(td.log_p_one(pool[0])))]
            res = make_results(chains, data, samples)
            f = os.path.join(tmp, "t%d.pkl.gz" % scen)
            write_trace(res, f)
            entries = [(c, i, e) for c, r in res.items() for i, e in enumerate(r["trace"])]
            keys = {(c, i): entry_key(e["tree"]) for c, i, e in entries}
            best = max(e["log_p_one"] for _, _, e in entries)
            # ---- MAP, joint-likelihood
            cases += 1
            tab, nwk = os.path.join(tmp, "m.tsv"), os.path.join(tmp, "m.nwk")
            try:
                quiet(write_map_results, f, tab, nwk)
                header, rows = read_table(tab)
                newick = open(nwk).read()
                cl, ou, ps, _, _ = clades_from_outputs(rows, newick, name_to_idx)
                winners = {keys[(c, i)] for c, i, e in entries if e["log_p_one"] == best}
                if (cl, ou) not in winners:
                    problems.append("scenario %d MAP: returned tree %s is not an entry attaining the maximum log_p_one %.6g (chains stored in order %s)" % (
                        scen, T.key_str((cl, ou)), best, list(res.keys())))
                problems += check_table(rows, header, newick, data, samples, label="scenario %d MAP table" % scen)
            except Exception as e:  # noqa
                problems.append("scenario %d MAP raised %r" % (scen, e))
            # ---- counts per topology (independent)
            count = {}
            maxlp = {}
            for c, i, e in entries:
                kk = keys[(c, i)]
                count[kk] = count.get(kk, 0) + 1
                maxlp[kk] = max(maxlp.get(kk, -np.inf), e["log_p_one"])
            # ---- MAP, frequency
            cases += 1
            try:
                quiet(write_map_results, f, tab, nwk, map_type="frequency")
                header, rows = read_table(tab)
                cl, ou, ps, _, _ = clades_from_outputs(rows, open(nwk).read(), name_to_idx)
                if count.get((cl, ou), 0) != max(count.values()):
                    problems.append("scenario %d frequency MAP: returned topology has count %d, maximal count is %d" % (scen, count.get((cl, ou), 0), max(count.values())))
            except Exception as e:  # noqa
                problems.append("scenario %d frequency MAP raised %r" % (scen, e))
            # ---- topology report + archive
            cases += 1
            top_k = int(rng.integers(1, len(count) + 2))
            rep, arch = os.path.join(tmp, "top.tsv"), os.path.join(tmp, "arch.tar.gz")
            try:
                quiet(write_topology_report, f, rep, topologies_archive=arch, top_trees=top_k)
                header, rows = read_table(rep)
                if len(rows) != len(count):
                    problems.append("scenario %d report: %d rows, %d distinct trees in the trace" % (scen, len(rows), len(count)))
                if sum(int(r["count"]) for r in rows) != len(entries):
                    problems.append("scenario %d report: counts sum to %d, trace has %d entries" % (scen, sum(int(r["count"]) for r in rows), len(entries)))
                scores = [float(r["log_p_joint_max"]) for r in rows]
                if any(scores[i] < scores[i + 1] for i in range(len(scores) - 1)):
                    problems.append("scenario %d report: rows not ranked by score %s" % (scen, scores))
                if [r["topology_id"] for r in rows] != ["t_%d" % i for i in range(len(rows))]:
                    problems.append("scenario %d report: topology ids %s" % (scen, [r["topology_id"] for r in rows]))
                seen_keys = set()
                for r in rows:
                    c, i = int(r["chain_num"]), int(r["iter"])
                    if (c, i) not in keys:
                        problems.append("scenario %d report: pointer (%d,%d) is not an entry" % (scen, c, i))
                        continue
                    kk = keys[(c, i)]
                    seen_keys.add(kk)
                    e = res[c]["trace"][i]
                    if int(r["count"]) != count[kk]:
                        problems.append("scenario %d report: count %s for %s, expected %d" % (scen, r["count"], T.key_str(kk), count[kk]))
                    if abs(float(r["log_p_joint_max"]) - maxlp[kk]) > 1e-9 or abs(e["log_p_one"] - maxlp[kk]) > 1e-9:
                        problems.append("scenario %d report: score %s / pointed entry %s for %s, maximum is %s" % (scen, r["log_p_joint_max"], e["log_p_one"], T.key_str(kk), maxlp[kk]))
                if len(seen_keys) != len(rows):
                    problems.append("scenario %d report: two rows point at the same tree" % scen)
                with tarfile.open(arch) as tf:
                    members = sorted(tf.getnames())
                    want = sorted(x for i in range(min(top_k, len(rows))) for x in ("t_%d/t_%d.nwk" % (i, i), "t_%d/t_%d_results_table.tsv" % (i, i)))
                    if members != want:
                        problems.append("scenario %d archive (top %d of %d): members %s, expected %s" % (scen, top_k, len(rows), members, want))
                    for i in range(min(top_k, len(rows))):
                        if "t_%d/t_%d.nwk" % (i, i) not in members:
                            continue
                        nw = tf.extractfile("t_%d/t_%d.nwk" % (i, i)).read().decode()
                        tb = tf.extractfile("t_%d/t_%d_results_table.tsv" % (i, i)).read().decode()
                        p2 = os.path.join(tmp, "a.tsv")
                        open(p2, "w").write(tb)
                        h2, r2 = read_table(p2)
                        r = rows[i]
                        kk = keys.get((int(r["chain_num"]), int(r["iter"])))
                        problems += check_table(r2, h2, nw, data, samples, tree_key_expected=kk, label="scenario %d archive t_%d" % (scen, i))
            except Exception as e:  # noqa
                problems.append("scenario %d topology report raised %r" % (scen, e))
            if len(problems) > 10:
                break
    finally:
        shutil.rmtree(tmp, ignore_errors=True)
    return {"cases": cases, "problems": problems}


def run_c12_all_trees(tier="quick", seed=0):
    """the three commands on traces holding every tree over <= 3 data points (incl. all-outlier), clustered and unclustered"""
    import pandas as pd

    from phyclone.process_trace import write_consensus_results, write_map_results, write_topology_report

    problems = []
    cases = 0
    tmp = tempfile.mkdtemp(prefix="verif_c12_")
    try:
        for n, dims in ((1, 1), (2, 2), (3, 1)):
            for clustered in (False, True, "gaps"):
                data, trees = scenario_trees(n, seed + n, dims=dims)
                samples = ["S%d" % d for d in range(dims)]
                clusters = None
                if clustered:
                    # data point i is cluster id 10+i holding (i+1) mutations
                    from phyclone.data.base import DataPoint

                    data = [DataPoint(dp.idx, dp.value, name="%d" % (10 + dp.idx), outlier_prob=dp.outlier_prob, outlier_prob_not=dp.outlier_prob_not) for dp in data]
                    trees = T.all_trees(data, outliers_allowed=True)
                    clusters = pd.DataFrame([{"mutation_id": "m%d_%d" % (dp.idx, j), "cluster_id": 10 + dp.idx} for dp in data for j in range(dp.idx + 1)])
                    if clustered == "gaps":
                        # clusters of the cluster file that the loader discarded entirely (no data point): one sorting before, one between, one after the kept ones
                        extra = [{"mutation_id": "lost_a", "cluster_id": 3}, {"mutation_id": "lost_b", "cluster_id": 3}, {"mutation_id": "lost_c", "cluster_id": 99}]
                        clusters = pd.concat([pd.DataFrame(extra[:2]), clusters, pd.DataFrame(extra[2:])], ignore_index=True)
                td = EK.make_tree_dist(1.0)
                for ti, tree in enumerate(trees):
                    cases += 1
                    res = make_results({0: [(tree, float(td.log_p_one(tree)))]}, data, samples, clusters)
                    f = os.path.join(tmp, "x.pkl.gz")
                    write_trace(res, f)
                    key = T.tree_key(tree)
                    for cmd in ("map", "topology", "consensus"):
                        tab, nwk, arch = os.path.join(tmp, "o.tsv"), os.path.join(tmp, "o.nwk"), os.path.join(tmp, "o.tar.gz")
                        label = "%s on %s (%s)" % (cmd, T.key_str(key), ("clustered with discarded clusters" if clustered == "gaps" else "clustered") if clustered else "unclustered")
                        try:
                            if cmd == "map":
                                quiet(write_map_results, f, tab, nwk)
                            elif cmd == "consensus":
                                quiet(write_consensus_results, f, tab, nwk, consensus_threshold=0.5, weight_type="counts")
                            else:
                                quiet(write_topology_report, f, os.path.join(tmp, "rep.tsv"), topologies_archive=arch)
                                with tarfile.open(arch) as tf:
                                    open(nwk, "w").write(tf.extractfile("t_0/t_0.nwk").read().decode())
                                    open(tab, "w").write(tf.extractfile("t_0/t_0_results_table.tsv").read().decode())
                            header, rows = read_table(tab)
                            problems += check_table(rows, header, open(nwk).read(), data, samples, tree_key_expected=key, clusters=clusters, label=label)
                            if cmd in ("map", "topology"):
                                problems += check_values_against_tree(rows, tree, data, samples, clusters, label)
                        except Exception as e:  # noqa
                            problems.append("%s raised %r" % (label, e))
                    if len(problems) > 10:
                        return {"cases": cases, "problems": problems}
    finally:
        shutil.rmtree(tmp, ignore_errors=True)
    return {"cases": cases, "problems": problems}


def run_c16(tier="quick", seed=0):
    """consensus on families of trees: result clades == clades with support > threshold (both weightings)"""
    from phyclone.process_trace import write_consensus_results
    from phyclone.tree.utils import get_clades

    problems = []
    cases = 0
    rng = np.random.default_rng(seed + 9)
    tmp = tempfile.mkdtemp(prefix="verif_c16_")
    try:
        fam_specs = []
        for n in (3, 4):
            data, trees = scenario_trees(n, seed + n, dims=1)
            if tier == "quick":
                fams = [tuple(rng.choice(len(trees), size=int(rng.integers(1, 5)), replace=True)) for _ in range(25 if n == 3 else 30)]
                if n == 3:
                    fams += list(itertools.combinations_with_replacement(range(min(len(trees), 8)), 2))
            else:
                fams = [tuple(rng.choice(len(trees), size=int(rng.integers(1, 6)), replace=True)) for _ in range(200)]
            fam_specs.append((data, trees, fams))
        # the six-point example with two clades that are exactly the union of their children (finding F10)
        data6 = T.make_data(6, dims=1, grid=4, seed=seed, outlier_p=0.0)
        tA = T.build_tree(data6, [[1, 2], [0], [4, 5], [3]], (-1, 0, -1, 2))
        tB = T.build_tree(data6, [[0], [1, 2], [3], [4, 5]], (-1, 0, -1, 2))
        tC = T.build_tree(data6, [[0], [1, 2], [3], [4, 5]], (-1, -1, -1, -1))
        fam_specs.append((data6, [tA, tB, tC], [(0, 1, 2), (0, 1), (0, 2, 2)]))
        for data, trees, fams in fam_specs:
            td = EK.make_tree_dist(1.0)
            name_to_idx = {str(dp.name): dp.idx for dp in data}
            for fam in fams:
                fam_trees = [trees[i] for i in fam]
                n_chains = 2 if len(fam_trees) > 1 else 1
                chains = {c: [] for c in range(n_chains)}
                for j, t in enumerate(fam_trees):
                    chains[j % n_chains].append((t, float(td.log_p_one(t))))
                res = make_results(chains, data, ["s"])
                f = os.path.join(tmp, "c.pkl.gz")
                write_trace(res, f)
                for mode in ("counts", "joint-likelihood"):
                    # independent support
                    if mode == "counts":
                        w = [1.0 / len(fam_trees)] * len(fam_trees)
                        items = fam_trees
                    else:
                        groups = {}
                        for t in fam_trees:
                            g = groups.setdefault(T.tree_key(t), [t, 0, -np.inf])
                            g[1] += 1
                            g[2] = max(g[2], float(td.log_p_one(t)))
                        items = [g[0] for g in groups.values()]
                        lw = np.array([g[2] + np.log(g[1]) for g in groups.values()])
                        w = np.exp(lw - lw.max())
                        w = list(w / w.sum())
                    support = {}
                    for t, wi in zip(items, w):
                        for cl in get_clades(t):
                            support[cl] = support.get(cl, 0.0) + wi
                    for thr in (0.5, 0.6, 0.75, 1.0):
                        if any(abs(s - thr) < 1e-9 for s in support.values()):
                            # support within rounding of the threshold: which side it falls is excluded by the property, but the command must still complete
                            cases += 1
                            try:
                                quiet(write_consensus_results, f, os.path.join(tmp, "e.tsv"), os.path.join(tmp, "e.nwk"), consensus_threshold=thr, weight_type=mode)
                            except Exception as e:  # noqa
                                problems.append("consensus(%s, thr=%s) of %s raised %r" % (mode, thr, [T.describe(t) for t in fam_trees], e))
                            continue
                        cases += 1
                        want = frozenset(cl for cl, s in support.items() if s > thr)
                        tab, nwk = os.path.join(tmp, "c.tsv"), os.path.join(tmp, "c.nwk")
                        label = "consensus(%s, thr=%s) of %s" % (mode, thr, [T.describe(t) for t in fam_trees])
                        try:
                            quiet(write_consensus_results, f, tab, nwk, consensus_threshold=thr, weight_type=mode)
                            header, rows = read_table(tab)
                            cl, ou, ps, _, _ = clades_from_outputs(rows, open(nwk).read(), name_to_idx)
                            if cl != want:
                                problems.append("%s: clades %s, expected %s" % (label, sorted(map(sorted, cl)), sorted(map(sorted, want))))
                            covered = set().union(*want) if want else set()
                            if ou != frozenset(set(name_to_idx.values()) - covered):
                                problems.append("%s: points reported with clone id -1: %s, expected %s" % (label, sorted(ou), sorted(set(name_to_idx.values()) - covered)))
                            problems += check_table(rows, header, open(nwk).read(), data, ["s"], label=label)
                        except Exception as e:  # noqa
                            problems.append("%s raised %r" % (label, e))
                        if len(problems) > 8:
                            return {"cases": cases, "problems": problems}
    finally:
        shutil.rmtree(tmp, ignore_errors=True)
    return {"cases": cases, "problems": problems}


def run_c20(tier="quick", seed=0):
    """every prefix of real trace files is fed to the three commands: error and no output, or byte-identical outputs"""
    from phyclone.process_trace import write_consensus_results, write_map_results, write_topology_report

    problems = []
    cases = 0
    tmp = tempfile.mkdtemp(prefix="verif_c20_")
    try:
        data, trees = scenario_trees(3, seed, dims=1)
        td = EK.make_tree_dist(1.0)
        sizes = [(1, 1), (2, 3)] if tier == "quick" else [(1, 1), (2, 3), (3, 8)]
        for n_chains, n_entries in sizes:
            chains = {c: [(trees[(3 * c + i) % len(trees)], float(td.log_p_one(trees[(3 * c + i) % len(trees)]))) for i in range(n_entries)] for c in range(n_chains)}
            res = make_results(chains, data, ["s"])
            full = os.path.join(tmp, "full.pkl.gz")
            write_trace(res, full)
            blob = open(full, "rb").read()

            def outputs(path, tag):
                outs = {}
                for cmd in ("map", "consensus", "topology"):
                    a, b = os.path.join(tmp, "%s_%s_a" % (tag, cmd)), os.path.join(tmp, "%s_%s_b" % (tag, cmd))
                    for p_ in (a, b):
                        if os.path.exists(p_):
                            os.remove(p_)
                    try:
                        if cmd == "map":
                            quiet(write_map_results, path, a, b)
                        elif cmd == "consensus":
                            quiet(write_consensus_results, path, a, b)
                        else:
                            quiet(write_topology_report, path, a)
                        outs[cmd] = ("ok", open(a, "rb").read(), open(b, "rb").read() if os.path.exists(b) else b"")
                    except Exception as e:  # noqa
                        outs[cmd] = ("error", os.path.exists(a), os.path.exists(b), type(e).__name__)
                return outs

            ref = outputs(full, "ref")
            if any(v[0] != "ok" for v in ref.values()):
                problems.append("commands fail on the complete trace: %s" % {k: v[0] for k, v in ref.items()})
                continue
            step = 1 if len(blob) < 2500 or tier == "thorough" else max(1, len(blob) // 1500)
            lengths = sorted(set(list(range(0, len(blob), step)) + list(range(max(0, len(blob) - 40), len(blob)))))
            for L in lengths:
                cases += 1
                part = os.path.join(tmp, "part.pkl.gz")
                open(part, "wb").write(blob[:L])
                got = outputs(part, "p")
                for cmd, v in got.items():
                    if v[0] == "error":
                        if v[1] or v[2]:
                            problems.append("prefix %d/%d: %s failed (%s) but left an output file behind" % (L, len(blob), cmd, v[3]))
                    elif v[1:] != ref[cmd][1:]:
                        problems.append("prefix %d/%d: %s produced results that differ from those of the complete trace" % (L, len(blob), cmd))
                if len(problems) > 6:
                    return {"cases": cases, "problems": problems}
    finally:
        shutil.rmtree(tmp, ignore_errors=True)
    return {"cases": cases, "problems": problems}


# ----------------------------------------------------------------------------------------------------------- C12: deep linear trees


def run_c12_deep_trees(tier="quick", seed=0, depths=(300, 1100)):
    """The three commands on a one-entry trace holding a linear tree (every clone the only child of the previous one).
    Returns one record per (depth, command): exception type name or None, and table problems when the command completed."""
    import tempfile

    from phyclone.data.base import DataPoint
    from phyclone.process_trace.process_trace import write_consensus_results, write_map_results, write_topology_report
    from phyclone.tree import Tree

    import sys

    out = []
    rng = np.random.default_rng(seed + 11)
    limit = sys.getrecursionlimit()
    sys.setrecursionlimit(1000)  # CPython's default: the scenario is stated for the interpreter as the commands are run
    try:
        _deep_trees(out, rng, depths)
    finally:
        sys.setrecursionlimit(limit)
    return out


def _deep_trees(out, rng, depths):
    import tempfile

    from phyclone.data.base import DataPoint
    from phyclone.process_trace.process_trace import write_consensus_results, write_map_results, write_topology_report
    from phyclone.tree import Tree

    for n in depths:
        data = [DataPoint(i, rng.normal(size=(1, 5)), name="m%04d" % i) for i in range(n)]
        tree = Tree(data[0].grid_size)
        prev = []
        for d in data:
            prev = [tree.create_root_node(children=prev, data=[d])]
        tree.relabel_nodes()
        with tempfile.TemporaryDirectory() as tmp:
            trace = os.path.join(tmp, "deep.pkl.gz")
            write_trace(make_results({0: [(tree, -1.0)]}, data, ["S"]), trace)
            tab, nwk, arch = os.path.join(tmp, "o.tsv"), os.path.join(tmp, "o.nwk"), os.path.join(tmp, "a.tar.gz")
            commands = [
                ("map", lambda: write_map_results(trace, tab, nwk)),
                ("consensus", lambda: write_consensus_results(trace, tab, nwk)),
                ("consensus-counts", lambda: write_consensus_results(trace, tab, nwk, weight_type="counts")),
                ("topology-report", lambda: write_topology_report(trace, os.path.join(tmp, "top.tsv"), topologies_archive=arch)),
            ]
            for name, cmd in commands:
                rec = {"clones": n, "command": name, "exception": None, "problems": []}
                for f in (tab, nwk):
                    if os.path.exists(f):
                        os.remove(f)
                try:
                    quiet(cmd)
                except BaseException as e:  # noqa - RecursionError is the recorded finding, anything else is reported as it is
                    rec["exception"] = type(e).__name__
                    rec["text"] = str(e)[:200]
                if rec["exception"] is None and name != "topology-report":
                    header, rows = read_table(tab)
                    newick = open(nwk).read().strip()
                    names = sorted(r["mutation_id"] for r in rows)
                    if names != sorted(d.name for d in data):
                        rec["problems"].append("mutations of the table differ from the input")
                    labels = re.findall(r"[^(),;\s]+", newick)  # no recursive parser here: the tree is as deep as it has clones
                    if any(r["clone_id"] not in set(labels) for r in rows):
                        rec["problems"].append("clone id that is not a node of the Newick tree")
                    if len(labels) != n + 1:
                        rec["problems"].append("Newick tree has %d nodes, expected %d" % (len(labels), n + 1))
                out.append(rec)
    return out
