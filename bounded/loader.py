"""Bounded stand-in for C05 / C17 (never counted as proved): the real loader on generated input tables, under row permutations,
tab/comma separation, optional columns present/absent, with and without cluster files (minimal and per-sample layout); the
loaded data are compared with an independent expectation computed from the raw rows (filter rule, order, defaults, and the
PyClone mixture grid via scipy)."""
import io
import itertools
import math
import os
import shutil
import tempfile
import contextlib

import numpy as np


# ----------------------------------------------------------------------------------------------------------- independent model


def genotypes(major, minor, normal, err):
    total = major + minor
    cn, mu = [], []
    for x in range(1, major + 1):
        cn.append((normal, normal, total))
        mu.append((err, err, min(1 - err, x / total)))
    after = (normal, total, total)
    if after not in cn:
        cn.append(after)
        mu.append((err, err, min(1 - err, 1 / total)))
    return cn, mu


def ref_grid_row(ref, alt, major, minor, normal, t, err, density, grid, precision):
    from scipy.special import betaln, gammaln, logsumexp

    cn, mu = genotypes(major, minor, normal, err)
    n, b = ref + alt, alt
    out = np.zeros(grid)
    for i in range(grid):
        f = i / (grid - 1)
        w = (1 - t, t * (1 - f), t * f)
        terms = []
        for c, m in zip(cn, mu):
            den = sum(wi * ci for wi, ci in zip(w, c))
            xi = sum(wi * ci * mi for wi, ci, mi in zip(w, c, m)) / den
            logc = gammaln(n + 1) - gammaln(b + 1) - gammaln(n - b + 1)
            if density == "binomial":
                lp = logc + b * math.log(xi) + (n - b) * math.log(1 - xi)
            else:
                al, be = xi * precision, precision - xi * precision
                lp = logc + betaln(al + b, be + (n - b)) - betaln(al, be)
            terms.append(-math.log(len(cn)) + lp)
        out[i] = logsumexp(terms)
    return out


def expected_loaded(rows, has_tc, has_err):
    """rows: list of dicts.  Returns (sorted kept mutation ids, sorted samples, row lookup) per the property statement."""
    usable = [r for r in rows if r["major_cn"] > 0]
    samples = sorted({str(r["sample_id"]) for r in usable})
    muts = sorted({r["mutation_id"] for r in rows})
    kept = []
    for m in muts:
        # the statement: kept exactly when EVERY sample has EXACTLY ONE row for it, with a positive major copy number
        # (a zero-copy-number row, a missing row or a second row in any sample drops the mutation entirely)
        per = {s: [r for r in rows if r["mutation_id"] == m and str(r["sample_id"]) == s] for s in samples}
        if all(len(v) == 1 and v[0]["major_cn"] > 0 for v in per.values()):
            kept.append(m)
    lookup = {(r["mutation_id"], str(r["sample_id"])): r for r in usable}
    return kept, samples, lookup


# ----------------------------------------------------------------------------------------------------------- table generation


def base_rows(rng, n_mut, samples, with_tc, with_err):
    rows = []
    for m in range(n_mut):
        for s in samples:
            major = int(rng.integers(1, 4))
            minor = int(rng.integers(0, major + 1))
            r = {"mutation_id": "m%02d" % m, "sample_id": s, "ref_counts": int(rng.integers(0, 60)), "alt_counts": int(rng.integers(0, 40)),
                 "major_cn": major, "minor_cn": minor, "normal_cn": int(rng.choice([1, 2]))}
            if with_tc:
                r["tumour_content"] = float(rng.choice([0.35, 0.8, 1.0]))
            if with_err:
                r["error_rate"] = float(rng.choice([0.001, 0.01, 0.2]))
            rows.append(r)
    return rows


def write_table(rows, path, sep, order):
    cols = list(rows[0].keys())
    with open(path, "w") as fh:
        fh.write(sep.join(cols) + "\n")
        for k in order:
            fh.write(sep.join(str(rows[k][c]) for c in cols) + "\n")


def quiet_load(*a, **k):
    from phyclone.data.pyclone import load_data

    with contextlib.redirect_stdout(io.StringIO()):
        return load_data(*a, **k)


def compare(data, samples, kept, exp_samples, lookup, density, grid, precision, has_tc, has_err, label, clusters=None, outlier_prob=0.0, check_grid=True):
    problems = []
    if list(samples) != exp_samples:
        problems.append("%s: samples %s, expected %s" % (label, list(samples), exp_samples))
        return problems
    if clusters is None:
        names = [str(dp.name) for dp in data]
        if names != kept:
            problems.append("%s: data points %s, expected kept mutations in sorted order %s" % (label, names, kept))
            return problems
        groups = [[m] for m in kept]
        sizes = [1] * len(kept)
        probs = [outlier_prob] * len(kept)
    else:
        cl = sorted({clusters[m][0] for m in kept})
        names = [str(dp.name) for dp in data]
        if names != [str(c) for c in cl]:
            problems.append("%s: cluster data points %s, expected %s" % (label, names, cl))
            return problems
        groups = [[m for m in kept if clusters[m][0] == c] for c in cl]
        # cluster size = number of distinct mutations the cluster file assigns to the cluster (whether or not the loader keeps them)
        sizes = [len({m for m in clusters if clusters[m][0] == c}) for c in cl]
        probs = [clusters[g[0]][1] if clusters[g[0]][1] is not None else outlier_prob for g in groups]
    for i, dp in enumerate(data):
        if dp.idx != i:
            problems.append("%s: data point %s has idx %s, expected %d" % (label, dp.name, dp.idx, i))
        if dp.value.shape != (len(exp_samples), grid):
            problems.append("%s: data point %s grid shape %s" % (label, dp.name, dp.value.shape))
            continue
        p = probs[i]
        want = (0.0, 0.0) if p == 0 else (sizes[i] * math.log(p), sizes[i] * math.log1p(-p))
        if abs(dp.outlier_prob - want[0]) > 1e-9 or abs(dp.outlier_prob_not - want[1]) > 1e-9:
            problems.append("%s: data point %s outlier terms (%.6g, %.6g), expected size*log p, size*log(1-p) = (%.6g, %.6g)" % (label, dp.name, dp.outlier_prob, dp.outlier_prob_not, want[0], want[1]))
        if not check_grid:
            continue
        for si, s in enumerate(exp_samples):
            ref = np.zeros(grid)
            for m in groups[i]:
                r = lookup[(m, s)]
                ref += ref_grid_row(r["ref_counts"], r["alt_counts"], r["major_cn"], r["minor_cn"], r["normal_cn"], r.get("tumour_content", 1.0) if has_tc else 1.0,
                                    r.get("error_rate", 0.001) if has_err else 0.001, density, grid, precision)
            if not np.allclose(dp.value[si], ref, rtol=1e-8, atol=1e-8):
                problems.append("%s: data point %s sample %s grid differs from the PyClone mixture by %.3g" % (label, dp.name, s, np.abs(dp.value[si] - ref).max()))
    return problems


def run(tier="quick", seed=0):
    problems = []
    cases = 0
    rng = np.random.default_rng(seed + 17)
    tmp = tempfile.mkdtemp(prefix="verif_load_")
    try:
        scenarios = []
        for with_tc, with_err in ((False, False), (True, True), (True, False)):
            for samples in (["S1"], ["3", "12", "101"], ["b", "a"]):
                scenarios.append((with_tc, with_err, samples))
        for sc, (with_tc, with_err, samples) in enumerate(scenarios):
            rows = base_rows(rng, 5, samples, with_tc, with_err)
            # defects of the table: m01 missing in the last sample, m02 duplicated in the first sample, m03 zero major copy number in one sample
            if len(samples) > 1:
                rows = [r for r in rows if not (r["mutation_id"] == "m01" and r["sample_id"] == samples[-1])]
            dup = dict([r for r in rows if r["mutation_id"] == "m02" and r["sample_id"] == samples[0]][0])
            dup["alt_counts"] += 7
            rows.append(dup)
            for r in rows:
                if r["mutation_id"] == "m03" and r["sample_id"] == samples[0]:
                    r["major_cn"], r["minor_cn"] = 0, 0
            kept, exp_samples, lookup = expected_loaded(rows, with_tc, with_err)
            n = len(rows)
            orders = [list(range(n)), list(range(n))[::-1]] + [list(rng.permutation(n)) for _ in range(2 if tier == "quick" else 6)]
            first = None
            for oi, order in enumerate(orders):
                for sep in ("\t", ","):
                    if sep == "," and oi > 1:
                        continue
                    for density in ("binomial", "beta-binomial"):
                        if density == "binomial" and oi not in (0, 2):
                            continue
                        cases += 1
                        path = os.path.join(tmp, "in.%s" % ("tsv" if sep == "\t" else "csv"))
                        write_table(rows, path, sep, order)
                        label = "scenario %d (%s samples=%s order %d sep=%r)" % (sc, density, samples, oi, sep)
                        grid = 11
                        try:
                            data, smp = quiet_load(path, np.random.default_rng(0), 0.0001, 0.4, False, cluster_file=None, density=density, grid_size=grid, outlier_prob=0.0 if sc % 2 else 0.02, precision=37.5)
                        except Exception as e:  # noqa
                            problems.append("%s: load_data raised %r" % (label, e))
                            continue
                        problems += compare(data, smp, kept, exp_samples, lookup, density, grid, 37.5, with_tc, with_err, label, outlier_prob=0.0 if sc % 2 else 0.02, check_grid=(oi in (0, 2)))
                        sig = [(str(dp.name), dp.idx, dp.value.tobytes(), dp.outlier_prob) for dp in data]
                        if density == "beta-binomial":
                            if first is None:
                                first = sig
                            elif sig != first:
                                problems.append("%s: loaded data differ from those of the first row order" % label)
            # cluster files: minimal layout and per-sample ("tidy") layout, with and without an outlier_prob column
            # cluster ids in ascending order of their first member in even scenarios, in descending order (first mutation in the largest id) in odd ones:
            # the numbering of the data points must follow the sorted ids, not the order in which the clusters are met
            cl_of = {m: ((1 + (i % 2) * 6) if sc % 2 == 0 else (9 - (i % 3) * 4), None) for i, m in enumerate(sorted({r["mutation_id"] for r in rows}))}
            for layout in ("minimal", "per-sample", "with-prob"):
                cases += 1
                cpath = os.path.join(tmp, "clusters.tsv")
                with open(cpath, "w") as fh:
                    if layout == "minimal":
                        fh.write("mutation_id\tcluster_id\n")
                        for m, (c, _) in cl_of.items():
                            fh.write("%s\t%d\n" % (m, c))
                        cl = cl_of
                    elif layout == "per-sample":
                        fh.write("mutation_id\tsample_id\tcluster_id\tcellular_prevalence\n")
                        for m, (c, _) in cl_of.items():
                            for k, s in enumerate(samples):
                                fh.write("%s\t%s\t%d\t%.3f\n" % (m, s, c, 0.1 * (k + 1)))
                        cl = cl_of
                    else:
                        fh.write("mutation_id\tcluster_id\toutlier_prob\n")
                        cl = {m: (c, 0.05 if c == 1 else 0.3) for m, (c, _) in cl_of.items()}
                        for m, (c, p) in cl.items():
                            fh.write("%s\t%d\t%s\n" % (m, c, p))
                path = os.path.join(tmp, "in.tsv")
                write_table(rows, path, "\t", orders[2])
                label = "scenario %d clustered (%s cluster file)" % (sc, layout)
                try:
                    data, smp = quiet_load(path, np.random.default_rng(0), 0.0001, 0.4, False, cluster_file=cpath, density="beta-binomial", grid_size=11, outlier_prob=0.02, precision=37.5)
                    problems += compare(data, smp, kept, exp_samples, lookup, "beta-binomial", 11, 37.5, with_tc, with_err, label, clusters=cl, outlier_prob=0.02)
                except Exception as e:  # noqa
                    problems.append("%s: load_data raised %r" % (label, e))
            if len(problems) > 8:
                break
        # corners: identifiers that look like numbers or like missing values are names ("01" is not "1", "NA" is an id, sample "010" sorts before "002"
        # only as a string); a mutation with a zero-copy-number row AND another row in the same sample is dropped entirely
        for tag, muts_ids, samples in (("numeric-looking ids", ["1", "01", "NA", "7", "x"], ["010", "002"]), ("zero copy number plus a second row", ["a", "b", "c"], ["S1", "S2"])):
            cases += 1
            rows = []
            for k, m in enumerate(muts_ids):
                for s_ in samples:
                    rows.append({"mutation_id": m, "sample_id": s_, "ref_counts": 20 + k, "alt_counts": 5 + 2 * k, "major_cn": 2, "minor_cn": 1, "normal_cn": 2})
            if tag.startswith("zero"):
                extra = dict(rows[0])
                extra["major_cn"], extra["minor_cn"] = 0, 0
                rows.append(extra)  # mutation "a" now has two rows in S1, one of them with major copy number zero
            kept, exp_samples, lookup = expected_loaded(rows, False, False)
            lookup = {(r["mutation_id"], str(r["sample_id"])): r for r in rows if r["major_cn"] > 0}
            for oi, order in enumerate((list(range(len(rows))), list(range(len(rows)))[::-1])):
                path = os.path.join(tmp, "corner.tsv")
                write_table(rows, path, "\t", order)
                label = "corner '%s' (order %d)" % (tag, oi)
                try:
                    data, smp = quiet_load(path, np.random.default_rng(0), 0.0001, 0.4, False, cluster_file=None, density="binomial", grid_size=11, outlier_prob=0.0, precision=37.5)
                    problems += compare(data, smp, kept, exp_samples, lookup, "binomial", 11, 37.5, False, False, label)
                except Exception as e:  # noqa
                    problems.append("%s: load_data raised %r" % (label, e))
        # major < minor is rejected with an error
        cases += 1
        rows = base_rows(rng, 2, ["s"], False, False)
        rows[0]["major_cn"], rows[0]["minor_cn"] = 1, 2
        path = os.path.join(tmp, "bad.tsv")
        write_table(rows, path, "\t", range(len(rows)))
        try:
            quiet_load(path, np.random.default_rng(0), 0.0001, 0.4, False, density="binomial", grid_size=11, outlier_prob=0.0, precision=1.0)
            problems.append("major copy number below minor copy number was accepted")
        except Exception as e:  # noqa
            if type(e).__name__ != "MajorCopyNumberError":
                problems.append("major < minor raised %r instead of MajorCopyNumberError" % (e,))
    finally:
        shutil.rmtree(tmp, ignore_errors=True)
    return {"cases": cases, "problems": problems}


def run_pmf(tier="quick", seed=0):
    """C05: the grid sums to one over alternate counts; zero depth; extreme depth; both densities; many copy-number states"""
    from phyclone.data.pyclone import DataPoint, SampleDataPoint, get_major_cn_prior
    from scipy.special import logsumexp

    problems = []
    cases = 0
    rng = np.random.default_rng(seed + 5)
    combos = [(1, 0, 2), (1, 1, 2), (2, 1, 2), (3, 0, 1), (2, 2, 1), (4, 1, 2)]
    for major, minor, normal in combos:
        for t in (0.3, 1.0):
            for err in (0.001, 0.3):
                for density, prec in (("binomial", None), ("beta-binomial", 3.7), ("beta-binomial", 400.0)):
                    cn, mu, log_pi = get_major_cn_prior(major, minor, normal, error_rate=err)
                    if abs(np.exp(log_pi).sum() - 1) > 1e-12 or len(set(np.round(log_pi, 12))) != 1:
                        problems.append("genotype prior not uniform/normalised for major=%d minor=%d normal=%d" % (major, minor, normal))
                    for n in (0, 1, 7, 40 if tier == "quick" else 60):
                        cases += 1
                        grid = 5
                        tot = np.full(grid, -np.inf)
                        for b in range(n + 1):
                            sdp = SampleDataPoint(n - b, b, cn, mu, log_pi, t)
                            g = DataPoint(["s"], [sdp]).to_likelihood_grid(density, grid, precision=prec if prec is not None else 1.0)[0]
                            ref = ref_grid_row(n - b, b, major, minor, normal, t, err, density, grid, prec)
                            if not np.allclose(g, ref, rtol=1e-9, atol=1e-9):
                                problems.append("grid differs from the PyClone mixture: %s n=%d b=%d cn=(%d,%d,%d) t=%s e=%s by %.3g" % (density, n, b, major, minor, normal, t, err, np.abs(g - ref).max()))
                                break
                            tot = np.logaddexp(tot, g)
                        if np.abs(tot).max() > 1e-8:
                            problems.append("likelihood does not sum to one over alternate counts: %s n=%d cn=(%d,%d,%d) t=%s e=%s: log-sum %s" % (density, n, major, minor, normal, t, err, tot))
                    if len(problems) > 6:
                        return {"cases": cases, "problems": problems}
    # corner of the stated window: tiny precision * error rate with all reads variant (the second beta parameter must not be rounded away)
    for err, prec, n in ((1e-9, 1e-3, 100), (1e-9, 1.0, 100), (1e-7, 1.0, 2000)):
        cases += 1
        cn, mu, log_pi = get_major_cn_prior(1, 0, 2, error_rate=err)
        tot = np.full(3, -np.inf)
        for b in range(n + 1):
            g = DataPoint(["s"], [SampleDataPoint(n - b, b, cn, mu, log_pi, 1.0)]).to_likelihood_grid("beta-binomial", 3, precision=prec)[0]
            tot = np.logaddexp(tot, g)
            if b == n:
                ref = ref_grid_row(0, n, 1, 0, 2, 1.0, err, "beta-binomial", 3, prec)
                if not np.allclose(g, ref, rtol=1e-7, atol=1e-7):
                    problems.append("grid differs from the PyClone mixture: beta-binomial all %d reads variant, error rate %g, precision %g: by %.3g" % (n, err, prec, np.abs(g - ref).max()))
        if np.abs(tot).max() > 1e-6:
            problems.append("likelihood does not sum to one over alternate counts: beta-binomial n=%d error rate %g precision %g: log-sum %s" % (n, err, prec, tot))
    # extreme depth: finite and equal to the reference
    for n, b in ((100000, 30000), (2000000, 5), (50000, 0)):
        cases += 1
        cn, mu, log_pi = get_major_cn_prior(2, 1, 2, error_rate=0.001)
        for density, prec in (("binomial", None), ("beta-binomial", 400.0)):
            g = DataPoint(["s"], [SampleDataPoint(n - b, b, cn, mu, log_pi, 0.7)]).to_likelihood_grid(density, 11, precision=prec if prec is not None else 1.0)[0]
            ref = ref_grid_row(n - b, b, 2, 1, 2, 0.7, 0.001, density, 11, prec)
            if not (np.all(np.isfinite(g)) and np.allclose(g, ref, rtol=1e-7, atol=1e-6)):
                problems.append("extreme depth n=%d b=%d %s: max difference %.3g" % (n, b, density, np.abs(g - ref).max()))
    return {"cases": cases, "problems": problems}


def run_large_precision(precisions=(1e4, 1e6, 1e13)):
    """C05, 'any precision': the beta-binomial grid of one locus summed over all alternate counts, for growing precision.
    One record per precision: defect = max over the grid of |sum_b exp(grid[b]) - 1| (independent of any reference pmf)."""
    from phyclone.data.pyclone import DataPoint, SampleDataPoint, get_major_cn_prior

    out = []
    n = 50
    cn, mu, log_pi = get_major_cn_prior(2, 1, 2, error_rate=1e-3)
    for prec in precisions:
        g = np.array([DataPoint(["s"], [SampleDataPoint(n - b, b, cn, mu, log_pi, 0.8)]).to_likelihood_grid("beta-binomial", 3, precision=prec)[0] for b in range(n + 1)])
        tot = np.exp(g).sum(axis=0)
        out.append({"precision": prec, "depth": n, "defect": float(np.abs(tot - 1).max()), "sums": [float(x) for x in tot], "finite": bool(np.all(np.isfinite(g)))})
    return out
