"""Bounded stand-in for C06 / C07 / C15 (never counted as proved): breadth-first enumeration of the tree edit grammar the
samplers compose; after EVERY operation the executable form of the Layer-1 contracts is evaluated on the real tree:

  wf(tree)     rooted forest under one virtual root, names <-> graph positions consistent, every data point in exactly one place
  fresh(tree)  every node's cached log_p / log_r equals an independent from-scratch recomputation; both joint densities too
  roundtrip    to_dict/from_dict (and pickle) give an equal tree with the same arrays that accepts one more edit identically
"""
import itertools
import pickle

import numpy as np

from replay import exact_kernel as EK
from replay import trees as T

ATOL = 1e-8


# ----------------------------------------------------------------------------------------------------------- independent recomputation


def _logsumexp(a):
    m = np.max(a)
    if not np.isfinite(m):
        return m
    return m + np.log(np.sum(np.exp(a - m)))


def ref_node_arrays(tree):
    """independent log_p / log_r for every node name (incl. 'root'), through public observers + numpy only"""
    D, G = tree.grid_size
    log_prior = -np.log(G)
    nd = tree.node_data
    out = {}

    def rec(v):
        lp = np.full((D, G), log_prior)
        if v != "root":
            for dp in nd.get(v, []):
                lp = lp + dp.value
        kids = tree.get_children(v)
        if not kids:
            out[v] = (lp, lp.copy())
            return out[v]
        rs = [rec(c)[1] for c in kids]
        lr = np.empty((D, G))
        for d in range(D):
            cur = rs[0][d]
            for r in rs[1:]:
                nxt = np.full(G, -np.inf)
                for k in range(G):
                    nxt[k] = _logsumexp(np.array([cur[j] + r[d][k - j] for j in range(k + 1)]))
                cur = nxt
            s = np.array([_logsumexp(cur[: k + 1]) for k in range(G)])
            lr[d] = lp[d] + s
        out[v] = (lp, lr)
        return out[v]

    rec("root")
    return out


def check_wf(tree, expected_idx):
    """expected_idx: set of data idx the tree must hold.  Returns a list of problems."""
    p = []
    g = tree._graph
    ni, nir = tree._node_indices, tree._node_indices_rev
    if set(nir.keys()) != set(g.node_indices()):
        p.append("wf: index map keys %s != graph indices %s" % (sorted(nir), sorted(g.node_indices())))
        return p
    for name, idx in ni.items():
        if nir.get(idx) != name:
            p.append("wf: name %r -> %r -> %r" % (name, idx, nir.get(idx)))
        if g[idx].node_id != name:
            p.append("wf: payload at %r is named %r, expected %r" % (idx, g[idx].node_id, name))
    if len(ni) != len(nir):
        p.append("wf: name/index maps differ in size")
    if "root" not in ni:
        p.append("wf: no virtual root")
        return p
    root = ni["root"]
    for idx in g.node_indices():
        preds = g.predecessor_indices(idx)
        if idx == root:
            if len(preds) != 0:
                p.append("wf: virtual root has a parent")
        elif len(preds) != 1:
            p.append("wf: node %r has %d parents" % (nir[idx], len(preds)))
    # reachability from the root
    seen, stack = {root}, [root]
    while stack:
        for s in g.successor_indices(stack.pop()):
            if s not in seen:
                seen.add(s)
                stack.append(s)
    if seen != set(g.node_indices()):
        p.append("wf: nodes not reachable from the root: %s" % sorted(set(g.node_indices()) - seen))
    names = [n for n in ni if n != "root"]
    if len(set(names)) != len(names):
        p.append("wf: duplicate clone names")
    placed = []
    for name, lst in tree._data.items():
        if name not in ni and name != -1 and len(lst) > 0:
            p.append("wf: data stored under unknown name %r" % (name,))
        placed += [dp.idx for dp in lst]
    if sorted(placed) != sorted(expected_idx):
        p.append("wf: data points held %s, expected %s" % (sorted(placed), sorted(expected_idx)))
    for name in names:
        payload = g[ni[name]]
        if set(payload.data_points) != {dp.idx for dp in tree._data.get(name, [])}:
            p.append("wf: node %r payload points %s != data list %s" % (name, sorted(payload.data_points), sorted(dp.idx for dp in tree._data.get(name, []))))
    labels = tree.labels
    if sorted(labels) != sorted(expected_idx):
        p.append("wf: labels cover %s" % sorted(labels))
    return p


def check_fresh(tree, td=None):
    p = []
    ref = ref_node_arrays(tree)
    for name, idx in tree._node_indices.items():
        node = tree._graph[idx]
        lp, lr = ref[name]
        if not np.allclose(node.log_p, lp, rtol=1e-9, atol=ATOL):
            p.append("fresh: node %r log_p differs from rebuild by %.3g" % (name, np.abs(node.log_p - lp).max()))
        if not np.allclose(node.log_r, lr, rtol=1e-9, atol=ATOL):
            p.append("fresh: node %r log_r differs from rebuild by %.3g" % (name, np.abs(node.log_r - lr).max()))
    return p


def rebuilt(tree, data_by_idx):
    """a freshly built tree with the same shape and assignment"""
    nodes = tree.nodes
    blocks = [[dp.idx for dp in tree.node_data.get(v, [])] for v in nodes]
    pos = {v: i for i, v in enumerate(nodes)}
    parent = tuple(-1 if tree.get_parent(v) == "root" else pos[tree.get_parent(v)] for v in nodes)
    data = [data_by_idx[i] for i in sorted(data_by_idx)]
    t = T.build_tree(data, blocks, parent, outliers=tuple(dp.idx for dp in tree.outliers))
    return t


def check_densities(tree, data_by_idx, td):
    p = []
    if any(len(tree.node_data.get(v, [])) == 0 for v in tree.nodes):
        return p  # an empty clone has an infinite CRP term on both sides
    r = rebuilt(tree, data_by_idx)
    for f in ("log_p", "log_p_one"):
        a, b = getattr(td, f)(tree), getattr(td, f)(r)
        if not (abs(a - b) <= 1e-8 * max(1.0, abs(b))):
            p.append("fresh: %s = %.12g on the edited tree, %.12g on a freshly built one" % (f, a, b))
    return p


def check_roundtrip(tree, td):
    from phyclone.tree import Tree

    p = []
    d = tree.to_dict()
    for k, lst in d["node_data"].items():
        if lst is tree._data.get(k):
            p.append("roundtrip(dict): the dictionary shares the data list of %r with the live tree (later edits of the tree would change a recorded entry)" % (k,))
    if d["node_idx"] is tree._node_indices or d["node_idx_rev"] is tree._node_indices_rev:
        p.append("roundtrip(dict): the dictionary shares the name/index maps with the live tree")
    for how, back in (("dict", Tree.from_dict(tree.to_dict())), ("pickle", Tree.from_dict(pickle.loads(pickle.dumps(tree.to_dict()))))):
        if not (back == tree and hash(back) == hash(tree)):
            p.append("roundtrip(%s): clades/outliers differ" % how)
            continue
        if back.labels != tree.labels or back.node_last_added_to != tree.node_last_added_to:
            p.append("roundtrip(%s): labels or node_last_added_to differ" % how)
        for name, idx in tree._node_indices.items():
            if name not in back._node_indices:
                p.append("roundtrip(%s): node %r missing" % (how, name))
                continue
            a, b = tree._graph[idx], back._graph[back._node_indices[name]]
            if not (np.allclose(a.log_p, b.log_p, rtol=1e-10, atol=1e-10) and np.allclose(a.log_r, b.log_r, rtol=1e-10, atol=1e-10)):
                p.append("roundtrip(%s): node %r arrays differ" % (how, name))
            if a.log_p is b.log_p or a.log_r is b.log_r:
                p.append("roundtrip(%s): node %r shares arrays with the source" % (how, name))
        for k, lst in tree._data.items():
            if k in back._data and back._data[k] is lst:
                p.append("roundtrip(%s): data list %r shared with the source" % (how, k))
    return p


# ----------------------------------------------------------------------------------------------------------- edit grammar


def state_key(tree, unplaced):
    names = tuple(sorted(((str(n), tuple(sorted(dp.idx for dp in tree._data.get(n, [])))) for n in tree.nodes)))
    edges = tuple(sorted((str(tree.get_parent(n)), str(n)) for n in tree.nodes))
    idxs = tuple(sorted((str(n), i) for n, i in tree._node_indices.items()))
    return (names, edges, tuple(sorted(dp.idx for dp in tree.outliers)), tuple(sorted(unplaced)), idxs)


def operations(tree, unplaced, data_by_idx, outliers_ok):
    """yield (description, fn(tree_copy) -> (new_tree, new_unplaced))"""
    nodes = list(tree.nodes)
    roots = list(tree.roots)
    for i in sorted(unplaced):
        dp = data_by_idx[i]
        for v in nodes:
            yield "add dp%d to clone %s" % (i, v), (lambda t, dp=dp, v=v, i=i: (t.add_data_point_to_node(dp, v), (t, unplaced - {i}))[1])
        if outliers_ok:
            yield "add dp%d to outliers" % i, (lambda t, dp=dp, i=i: (t.add_data_point_to_outliers(dp), (t, unplaced - {i}))[1])
        for r in range(len(roots) + 1):
            for S in itertools.combinations(roots, r):
                yield "new clone above %s with dp%d" % (list(S), i), (lambda t, dp=dp, S=S, i=i: (t.create_root_node(children=list(S), data=[dp]), (t, unplaced - {i}))[1])
    labels = tree.labels
    for i, old in sorted(labels.items()):
        dp = data_by_idx[i]
        if old != -1 and len(tree.node_data[old]) <= 1:
            continue  # the samplers never empty a clone
        for v in nodes + ([-1] if outliers_ok else []):
            if v == old:
                continue

            def mv(t, dp=dp, old=old, v=v):
                t.remove_data_point_from_node(dp, old)
                if v == -1:
                    t.add_data_point_to_outliers(dp)
                else:
                    t.add_data_point_to_node(dp, v)
                return t, unplaced

            yield "move dp%d from %s to %s" % (i, old, v), mv
    for v in nodes:
        def prune_regraft_targets(t, v=v):
            sub = t.get_subtree(v)
            t.remove_subtree(sub)
            return sub

        remaining = [u for u in nodes if u != v and u not in tree.get_descendants(v)]
        for target in remaining + [None]:
            def prg(t, v=v, target=target):
                sub = t.get_subtree(v)
                t.remove_subtree(sub)
                t.add_subtree(sub, parent=target)
                return t, unplaced

            yield "prune subtree at %s, regraft under %s" % (v, target), prg

            def prg_u(t, v=v, target=target):
                sub = t.get_subtree(v)
                t.remove_subtree(sub)
                t.add_subtree(sub, parent=target)
                t.update()
                return t, unplaced

            yield "prune subtree at %s, regraft under %s, update()" % (v, target), prg_u
    for dp in list(tree.outliers):
        yield "take dp%d out of the outliers" % dp.idx, (lambda t, dp=dp: (t.remove_data_point_from_outliers(dp), (t, unplaced | {dp.idx}))[1])
    yield "relabel_nodes", (lambda t: (t.relabel_nodes(), (t, unplaced))[1])
    from phyclone.tree import Tree

    yield "dict round trip, continue on the restored tree", (lambda t: (Tree.from_dict(t.to_dict()), unplaced))
    yield "copy, continue on the copy", (lambda t: (t.copy(), unplaced))


def explore(n_points, depth, dims=1, grid=3, outliers_ok=True, seed=0, max_states=4000, stop_after=6):
    data = T.make_data(n_points, dims=dims, grid=grid, seed=seed + 11, outlier_p=0.2 if outliers_ok else 0.0)
    data_by_idx = {dp.idx: dp for dp in data}
    td = EK.make_tree_dist(1.4)
    from phyclone.tree import Tree

    start = Tree(data[0].grid_size)
    frontier = [(start, frozenset(range(n_points)), [])]
    seen = {state_key(start, frozenset(range(n_points)))}
    problems = []
    n_ops = 0
    for level in range(depth):
        nxt = []
        for tree, unplaced, hist in frontier:
            for desc, fn in operations(tree, unplaced, data_by_idx, outliers_ok):
                t = tree.copy()
                snap, snap_key = t.to_dict(), T.tree_key(t)
                try:
                    t2, un2 = fn(t)
                except Exception as e:  # noqa
                    problems.append({"history": hist + [desc], "problem": "operation raised %r" % (e,)})
                    continue
                n_ops += 1
                expected = set(range(n_points)) - set(un2)
                ps = []
                try:
                    from phyclone.tree import Tree as _Tree

                    if T.tree_key(_Tree.from_dict(snap)) != snap_key:
                        ps.append("roundtrip(dict): a dictionary taken before the operation no longer restores to the tree it was taken from")
                except Exception as e:  # noqa
                    ps.append("roundtrip(dict): a dictionary taken before the operation cannot be restored after it: %r" % (e,))
                ps += check_wf(t2, expected) + check_fresh(t2) + check_densities(t2, data_by_idx, td) + check_roundtrip(t2, td)
                if ps:
                    problems.append({"history": hist + [desc], "problem": "; ".join(ps[:3])})
                    if len(problems) >= stop_after:
                        return {"ops": n_ops, "states": len(seen), "problems": problems}
                    continue
                k = state_key(t2, un2)
                if k not in seen and len(seen) < max_states:
                    seen.add(k)
                    nxt.append((t2, un2, hist + [desc]))
        frontier = nxt
    return {"ops": n_ops, "states": len(seen), "problems": problems}
