"""Bounded stand-in for C03 (never counted as proved): the real joint log-densities against the independent reference on every
tree over n <= 3 (4) data points, under different construction histories / labellings / sibling orders; equality and hash."""
import itertools

import numpy as np

from bounded import reference as REF
from replay import exact_kernel as EK
from replay import trees as T

TOL = 1e-8


def variants(data, tree, blocks, parent, outs):
    """the same tree built / transformed in different ways"""
    out = [("built", tree)]
    t = tree.copy()
    t.relabel_nodes()
    out.append(("relabelled", t))
    out.append(("copied", tree.copy()))
    from phyclone.tree import Tree

    out.append(("dict-roundtrip", Tree.from_dict(tree.to_dict())))
    # blocks listed in reverse order: sibling order and node names differ
    k = len(blocks)
    perm = list(range(k))[::-1]
    inv = {old: new for new, old in enumerate(perm)}
    nb = [blocks[old] for old in perm]
    npar = tuple(-1 if parent[old] == -1 else inv[parent[old]] for old in perm)
    out.append(("reversed-build", T.build_tree(data, nb, npar, outs)))
    # reached by edits: an extra copy of the last data point is added to a clone and taken out again (the elementary Gibbs move)
    from phyclone.data.base import DataPoint

    if tree.nodes:
        t3 = tree.copy()
        extra = DataPoint(99, data[-1].value * 0.5 + 0.25, outlier_prob=data[-1].outlier_prob, outlier_prob_not=data[-1].outlier_prob_not)
        node = t3.nodes[-1]
        t3.add_data_point_to_node(extra, node)
        t3.remove_data_point_from_node(extra, node)
        out.append(("add-then-remove", t3))
    return out


def run(tier="quick", seed=0):
    res = {"cases": 0, "trees": 0, "problems": []}
    sizes = (1, 2, 3) if tier == "quick" else (1, 2, 3, 4)
    for n in sizes:
        for dims in (1, 2):
            for outl in (0.0, 0.3):
                if n == 4 and (dims == 2 and outl > 0):
                    continue
                data = T.make_data(n, dims=dims, grid=4, seed=seed + n, outlier_p=outl)
                keys = {}
                idx = list(range(n))
                out_sets = [()] if outl == 0 else [c for r in range(n + 1) for c in itertools.combinations(idx, r)]
                for outs in out_sets:
                    rest = [i for i in idx if i not in outs]
                    for blocks in T.set_partitions(rest):
                        for parent in T.forests(len(blocks)):
                            tree = T.build_tree(data, blocks, parent, outs)
                            key = T.tree_key(tree)
                            if key in keys:
                                # same clades/outliers reached by another labelling: must compare equal
                                other = keys[key]
                                if not (tree == other and hash(tree) == hash(other)):
                                    res["problems"].append("eq/hash: two builds of %s differ" % T.key_str(key))
                                continue
                            keys[key] = tree
                            res["trees"] += 1
                            for alpha in (0.6, 2.5):
                                td = EK.make_tree_dist(alpha)
                                ref = REF.reference_joint(tree, alpha)
                                for vname, v in variants(data, tree, blocks, parent, outs):
                                    res["cases"] += 1
                                    lp, lp1 = float(td.log_p(v)), float(td.log_p_one(v))
                                    both = td.compute_both_log_p_and_log_p_one(v)
                                    if abs(lp - ref[0]) > TOL or abs(lp1 - ref[1]) > TOL:
                                        res["problems"].append("%s alpha=%s %s: log_p %.10g (ref %.10g) log_p_one %.10g (ref %.10g)" % (
                                            vname, alpha, T.key_str(key), lp, ref[0], lp1, ref[1]))
                                    if abs(float(both[0]) - lp) > 1e-10 or abs(float(both[1]) - lp1) > 1e-10:
                                        res["problems"].append("%s alpha=%s %s: together (%.10g, %.10g) != separate (%.10g, %.10g)" % (
                                            vname, alpha, T.key_str(key), both[0], both[1], lp, lp1))
                                    if not (v == tree and hash(v) == hash(tree)):
                                        res["problems"].append("eq/hash: %s variant of %s not equal to the original" % (vname, T.key_str(key)))
                ks = list(keys.items())
                for (k1, t1), (k2, t2) in itertools.combinations(ks[:60], 2):
                    if t1 == t2:
                        res["problems"].append("eq: distinct trees compare equal: %s vs %s" % (T.key_str(k1), T.key_str(k2)))
    return res
