"""Independent reference implementations written from the property statements (not from the repository code):
the exact CCF-grid marginal by literal enumeration of index assignments (C02) and the FS-CRP joint log-density (C03)."""
import itertools
import math

import numpy as np


def tree_shape(tree):
    """(clones, children map, roots, data idx per clone, outlier idx list) read through the public observers only"""
    nodes = list(tree.nodes)
    children = {v: list(tree.get_children(v)) for v in nodes}
    roots = list(tree.roots)
    node_data = tree.node_data
    data = {v: list(node_data.get(v, [])) for v in nodes}
    outliers = list(tree.outliers)
    return nodes, children, roots, data, outliers


def brute_force_root_vector(tree):
    """value[d, k] = (1/G) * sum over index assignments (k_v >= sum of children's, top-level clones sum <= k) of
    prod_v (1/G) exp(sum of data values of v at k_v)     -- literal enumeration, in plain floating point (big floats via
    python's math.fsum on scaled values is not needed at these sizes)."""
    nodes, children, roots, data, _ = tree_shape(tree)
    D, G = tree.grid_size
    out = np.full((D, G), -np.inf)
    if not nodes:
        return np.full((D, G), -math.log(G))
    logp = {}
    for v in nodes:
        lp = np.full((D, G), -math.log(G))
        for dp in data[v]:
            lp = lp + dp.value
        logp[v] = lp
    order = list(nodes)
    for d in range(D):
        acc = np.zeros(G)  # acc[k] = sum over assignments with top-level sum <= k
        # enumerate all assignments
        terms = []
        for ks in itertools.product(range(G), repeat=len(order)):
            kv = dict(zip(order, ks))
            ok = True
            for v in order:
                if sum(kv[c] for c in children[v]) > kv[v]:
                    ok = False
                    break
            if not ok:
                continue
            top = sum(kv[r] for r in roots)
            if top > G - 1:
                continue
            lw = sum(logp[v][d, kv[v]] for v in order)
            terms.append((top, lw))
        if not terms:
            continue
        m = max(lw for _, lw in terms)
        per_top = np.zeros(G)
        for top, lw in terms:
            per_top[top] += math.exp(lw - m)
        csum = np.cumsum(per_top)
        with np.errstate(divide="ignore"):
            out[d, :] = np.log(csum) + m - math.log(G)
    return out


def log_factorial(n):
    return math.lgamma(n + 1)


def reference_joint(tree, alpha, c=1000.0):
    """(log_p, log_p_one) from the statement of C03."""
    nodes, children, roots, data, outliers = tree_shape(tree)
    K = len(nodes)
    D, G = tree.grid_size
    crp = K * math.log(alpha) + sum(log_factorial(len(data[v]) - 1) for v in nodes)
    all_children = [len(children[v]) for v in nodes] + [len(roots)]
    mult = sum(log_factorial(ch) for ch in all_children)
    prior = crp - (K - 1) * math.log(K + 1) - mult

    def subtree_size(v):
        return 1 + sum(subtree_size(ch) for ch in children[v])

    ways = sum((subtree_size(r) - 1) * math.log(subtree_size(r)) for r in roots)
    R = len(roots)
    pen = 0.0
    if R >= 1:
        pen = (R - 1) * math.log(c) + math.log((1 - c ** (-R)) / (1 - 1.0 / c))
    prior_one = crp - ways - pen - mult
    op = 0.0
    for v in nodes:
        for dp in data[v]:
            if dp.outlier_prob != 0:
                op += dp.outlier_prob_not
    for dp in outliers:
        if dp.outlier_prob != 0:
            op += dp.outlier_prob
    lp, lp1 = prior + op, prior_one + op
    if R >= 1:
        vec = brute_force_root_vector(tree)
        for d in range(D):
            row = vec[d]
            m = row.max()
            lp += m + math.log(np.exp(row - m).sum())
            lp1 += row[G - 1]
    for dp in outliers:
        lp += outlier_single_clone_marginal(dp)
        lp1 += outlier_single_clone_marginal(dp)
    return lp, lp1


def outlier_single_clone_marginal(dp):
    """marginal likelihood the point would have alone in a single-clone tree, root marginalised over the grid:
    sum_d log sum_k (1/G) sum_{j<=k} (1/G) exp value[d, j]"""
    D, G = dp.value.shape
    tot = 0.0
    for d in range(D):
        row = dp.value[d]
        m = row.max()
        inner = np.cumsum(np.exp(row - m)) / G
        tot += math.log(inner.sum() / G) + m
    return tot
