"""Bounded stand-in for C09 (never counted as proved): for every tree on <= n data points, brute-force the set of data orders
compatible with the tree, compare its size with exp(log_count) / exp(-log_pdf), and enumerate the real sample() exactly with
the enumerating generator: only compatible orders, every compatible order, each with probability 1/#orders."""
import itertools
import math

import numpy as np

from replay import trees as T
from replay.enumrng import explore


def compatible_orders(tree):
    data = [dp.idx for dp in tree.data]
    labels = tree.labels
    # ancestors of each clone
    anc = {}
    for node in tree.nodes:
        a = []
        p = tree.get_parent(node)
        while p != "root":
            a.append(p)
            p = tree.get_parent(p)
        anc[node] = set(a)
    out = []
    for perm in itertools.permutations(data):
        pos = {d: i for i, d in enumerate(perm)}
        ok = True
        for d in data:
            if labels[d] == -1:
                continue
            for e in data:
                if labels[e] != -1 and labels[d] in anc[labels[e]] and pos[d] < pos[e]:
                    # d sits in an ancestor clone of e's clone: d must come after e
                    ok = False
                    break
            if not ok:
                break
        if ok:
            out.append(perm)
    return out


def check_tree(tree):
    from phyclone.smc.utils import RootPermutationDistribution as RPD

    orders = set(compatible_orders(tree))
    problems = []
    lc = float(RPD.log_count(tree))
    if abs(lc - math.log(len(orders))) > 1e-9:
        problems.append("log_count = %.9g but log #orders = %.9g (#orders=%d)" % (lc, math.log(len(orders)), len(orders)))
    lp = float(RPD.log_pdf(tree))
    if abs(lp + math.log(len(orders))) > 1e-9:
        problems.append("log_pdf = %.9g but -log #orders = %.9g" % (lp, -math.log(len(orders))))
    probs = {}
    n_paths = 0
    try:
        for pr, sigma, _ in explore(lambda rng: tuple(dp.idx for dp in RPD.sample(tree.copy(), rng))):
            probs[sigma] = probs.get(sigma, 0.0) + pr
            n_paths += 1
    except (AssertionError, TypeError, AttributeError, NotImplementedError) as e:
        # the enumerating generator does not implement a numpy call the current source makes: this stand-in cannot decide (the statistical one still runs)
        return {"tree": T.describe(tree), "orders": len(orders), "paths": n_paths, "problems": problems, "undecided": "enumerating generator: %r" % (e,)}
    if set(probs) != orders:
        problems.append("sample() support differs from the compatible orders: extra %s missing %s" % (sorted(set(probs) - orders)[:2], sorted(orders - set(probs))[:2]))
    else:
        worst = max(abs(p - 1.0 / len(orders)) for p in probs.values())
        if worst > 1e-9:
            problems.append("sample() not uniform: max |p - 1/#orders| = %.3g" % worst)
    return {"tree": T.describe(tree), "orders": len(orders), "paths": n_paths, "problems": problems}


def run_all(tier="quick", seed=0):
    res = []
    sizes = (1, 2, 3, 4) if tier == "quick" else (1, 2, 3, 4, 5)
    for n in sizes:
        data = T.make_data(n, dims=1, grid=3, seed=seed, outlier_p=0.2)
        max_out = n if n <= 3 else (2 if n == 4 else 2)
        trees = T.all_trees(data, outliers_allowed=True, max_outliers=max_out)
        if n == 5:
            rng = np.random.default_rng(seed)
            idx = rng.choice(len(trees), size=min(150, len(trees)), replace=False)
            trees = [trees[i] for i in sorted(idx)]
        for t in trees:
            res.append(check_tree(t))
    return res


def replay_case(R, n_out, K=None):
    """a real tree with R top-level clones (a child under the first when K > R) and n_out outliers"""
    K = max(R, K or R)
    n = K + n_out
    data = T.make_data(max(n, 1), dims=1, grid=3, seed=1, outlier_p=0.2)
    blocks = [[i] for i in range(K)]
    parent = tuple([-1] * R + [0] * (K - R))
    tree = T.build_tree(data, blocks, parent, outliers=tuple(range(K, K + n_out)))
    return check_tree(tree)


def large_interleave_stat(seed=0, draws=20000, zmax=6.5):
    """Beyond the enumerable sizes: a *statistical* smoke check (labelled as such, threshold 6.5 sigma, i.e. a false-alarm
    probability below 1e-10 per statistic) that interleave_lists / sample() stay uniform for lists of 16+ items: the
    first and the last item of the merge come from list i with probability len_i / total."""
    from phyclone.smc.utils import RootPermutationDistribution as RPD
    from phyclone.smc.utils import interleave_lists

    rng = np.random.default_rng(12345 + seed)
    out = []
    for sizes in ((8, 8), (12, 4), (5, 5, 6), (1, 19), (10, 10, 10)):
        tot = sum(sizes)
        first = np.zeros(len(sizes))
        last = np.zeros(len(sizes))
        for _ in range(draws):
            lists = [[(i, j) for j in range(s)] for i, s in enumerate(sizes)]
            res = interleave_lists(lists, rng)
            if len(res) != tot or any(res.count(x) != 1 for x in (res[0], res[-1])):
                out.append({"case": "interleave%s" % (sizes,), "problem": "result is not a merge of the inputs"})
                break
            # order inside each list must be preserved
            first[res[0][0]] += 1
            last[res[-1][0]] += 1
        else:
            for name, cnt in (("first", first), ("last", last)):
                for i, s in enumerate(sizes):
                    p = s / tot
                    z = (cnt[i] - draws * p) / math.sqrt(draws * p * (1 - p))
                    if abs(z) > zmax:
                        out.append({"case": "interleave%s" % (sizes,), "problem": "%s item from list %d with frequency %.4f, expected %.4f (z=%.1f)" % (name, i, cnt[i] / draws, p, z)})
    # small trees with outliers, real generator: every compatible order equally often (one clone point + two outliers: 6 orders)
    for blocks, parent, outs in (([[0]], (-1,), (1, 2)), ([[0], [1]], (-1, 0), (2, 3)), ([[0, 1]], (-1,), (2, 3, 4))):
        n_pts = sum(len(b) for b in blocks) + len(outs)
        d_ = T.make_data(n_pts, dims=1, grid=3, seed=seed, outlier_p=0.2)
        tr = T.build_tree(d_, blocks, parent, outliers=outs)
        want = set(compatible_orders(tr))
        cnt = {}
        bad = False
        n_draw = draws // 2
        for _ in range(n_draw):
            sg = tuple(dp.idx for dp in RPD.sample(tr.copy(), rng))
            if sg not in want:
                out.append({"case": "sample(%s)" % T.describe(tr), "problem": "incompatible order %s drawn" % (sg,)})
                bad = True
                break
            cnt[sg] = cnt.get(sg, 0) + 1
        if not bad:
            p = 1.0 / len(want)
            for o in want:
                z = (cnt.get(o, 0) - n_draw * p) / math.sqrt(n_draw * p * (1 - p))
                if abs(z) > zmax:
                    out.append({"case": "sample(%s)" % T.describe(tr), "problem": "order %s drawn with frequency %.4f, expected %.4f (z=%.1f)" % (o, cnt.get(o, 0) / n_draw, p, z)})
                    break
    # through sample(): two sibling clones of 8 points under a one-point parent, plus 3 outliers
    data = T.make_data(20, dims=1, grid=3, seed=seed, outlier_p=0.2)
    tree = T.build_tree(data, [[0], list(range(1, 9)), list(range(9, 17))], (-1, 0, 0), outliers=(17, 18, 19))
    labels = tree.labels
    first = {}
    for _ in range(draws // 4):
        sigma = RPD.sample(tree.copy(), rng)
        non_out = [dp.idx for dp in sigma if labels[dp.idx] != -1]
        if non_out[-1] != 0:
            out.append({"case": "sample(two sibling clones of 8)", "problem": "parent's data point not after its descendants"})
            break
        first[labels[non_out[0]]] = first.get(labels[non_out[0]], 0) + 1
    else:
        n = draws // 4
        for node, c in first.items():
            z = (c - n * 0.5) / math.sqrt(n * 0.25)
            if abs(z) > zmax:
                out.append({"case": "sample(two sibling clones of 8)", "problem": "first clone point from clone %s with frequency %.4f, expected 0.5 (z=%.1f)" % (node, c / n, z)})
    return out
