"""Bounded stand-in for C10 (never counted as proved): the real MAP CCF computation against a brute-force maximum over all
feasible grid assignments on every forest over <= 4 clones; feasibility, grid membership, optimality, clonal prevalence."""
import itertools

import numpy as np

from bounded.likelihood import forests_for
from replay import trees as T


def brute_force_map(tree):
    """max over assignments (k_v >= sum children, top-level sum <= G-1), per sample, of sum_v log_p_v[d, k_v]"""
    nodes = list(tree.nodes)
    children = {v: list(tree.get_children(v)) for v in nodes}
    roots = list(tree.roots)
    D, G = tree.grid_size
    logp = {v: np.array(tree._graph[tree._node_indices[v]].log_p) for v in nodes}
    best = np.full(D, -np.inf)
    for d in range(D):
        for ks in itertools.product(range(G), repeat=len(nodes)):
            kv = dict(zip(nodes, ks))
            if any(sum(kv[c] for c in children[v]) > kv[v] for v in nodes):
                continue
            if sum(kv[r] for r in roots) > G - 1:
                continue
            val = sum(logp[v][d, kv[v]] for v in nodes)
            if val > best[d]:
                best[d] = val
    return best, logp, children, roots


def check_tree(tree, label):
    from phyclone.process_trace.map import get_map_node_ccfs_and_clonal_prev_dicts

    problems = []
    D, G = tree.grid_size
    try:
        ccf, prev = get_map_node_ccfs_and_clonal_prev_dicts(tree)
    except Exception as e:  # noqa
        return ["%s %s: MAP computation raised %r" % (label, T.describe(tree), e)]
    best, logp, children, roots = brute_force_map(tree)
    if set(ccf) != set(tree.nodes) or set(prev) != set(tree.nodes):
        problems.append("%s %s: values reported for %s, clones are %s" % (label, T.describe(tree), sorted(map(str, ccf)), sorted(map(str, tree.nodes))))
        return problems
    idx = {}
    for v in tree.nodes:
        k = np.array(ccf[v]) * (G - 1)
        if np.abs(k - np.round(k)).max() > 1e-9 or k.min() < -1e-9 or k.max() > G - 1 + 1e-9:
            problems.append("%s %s: clone %s CCF %s is not on the grid" % (label, T.describe(tree), v, ccf[v]))
            return problems
        idx[v] = np.round(k).astype(int)
    for d in range(D):
        for v in tree.nodes:
            if sum(idx[c][d] for c in children[v]) > idx[v][d]:
                problems.append("%s %s: sample %d clone %s fraction below the sum of its children" % (label, T.describe(tree), d, v))
        if sum(idx[r][d] for r in roots) > G - 1:
            problems.append("%s %s: sample %d top-level clones sum to more than one" % (label, T.describe(tree), d))
        val = sum(logp[v][d, idx[v][d]] for v in tree.nodes)
        if val < best[d] - 1e-9 * max(1.0, abs(best[d])):
            problems.append("%s %s: sample %d reported assignment has log-likelihood %.10g, the feasible maximum is %.10g" % (label, T.describe(tree), d, val, best[d]))
        for v in tree.nodes:
            p = ccf[v][d] - sum(ccf[c][d] for c in children[v])
            if abs(prev[v][d] - p) > 1e-12 or prev[v][d] < -1e-12:
                problems.append("%s %s: sample %d clone %s prevalence %.6g (ccf - children = %.6g)" % (label, T.describe(tree), d, v, prev[v][d], p))
    return problems


def run(tier="quick", seed=0):
    from bounded.commands import renumbered
    from phyclone.data.base import DataPoint

    problems = []
    n = 0
    rng = np.random.default_rng(seed + 21)
    sets = []
    for dims, grid in ((1, 4), (2, 3), (1, 5) if tier == "thorough" else (2, 4)):
        sets.append(("random D=%d G=%d" % (dims, grid), [DataPoint(i, rng.normal(0, 2.0, size=(dims, grid))) for i in range(4)]))
    # non-decreasing rows (competing siblings all want large fractions) and an all-outlier / star cases
    inc = [DataPoint(i, np.sort(rng.normal(0, 2.0, size=(2, 4)), axis=1)) for i in range(4)]
    sets.append(("monotone rows", inc))
    for name, data in sets:
        for tree, blocks, parent in forests_for(data, 4):
            n += 1
            problems += check_tree(tree, name)
            # the same tree with clones created in the other order, evaluated later in the same process
            problems += check_tree(renumbered(tree, data), name + " (renumbered)")
            if len(problems) > 8:
                return {"trees": n, "problems": problems}
    # star with 4 leaves under one parent and 5 top-level clones
    data5 = [DataPoint(i, np.sort(rng.normal(0, 2.0, size=(1, 4)), axis=1)) for i in range(5)]
    for blocks, parent in (([[0], [1], [2], [3], [4]], (-1, 0, 0, 0, 0)), ([[0], [1], [2], [3], [4]], (-1, -1, -1, -1, -1)), ([[0], [1], [2], [3], [4]], (-1, 0, 0, 0, -1))):
        n += 1
        problems += check_tree(T.build_tree(data5, blocks, parent), "star")
    # all data points outliers
    d2 = T.make_data(2, outlier_p=0.2)
    problems += check_tree(T.build_tree(d2, [], (), outliers=(0, 1)), "all-outlier")
    return {"trees": n, "problems": problems}
