"""Bounded stand-in for C14 (never counted as proved): shadow runs. Every memoised function is called through the real cache
and, at the same moment, through its undecorated original (`__wrapped__`) / an independent recomputation; the results must
agree for whole call histories: repeated and permuted children lists, duplicate children, growing children lists (cached
intermediate arrays must not be mutated), concentration changes between sweeps with and without cache clears."""
import contextlib
import io
import itertools

import numpy as np

from replay import exact_kernel as EK
from replay import trees as T

RTOL = 1e-9


def _ref_log_S(children):
    """independent: log prefix sums of the iterated truncated convolution, log space, O(G^2) loops"""
    def lse(a):
        m = np.max(a)
        return m + np.log(np.sum(np.exp(a - m))) if np.isfinite(m) else m

    D, G = children[0].shape
    out = np.empty((D, G))
    for d in range(D):
        cur = children[0][d]
        for c in children[1:]:
            cur = np.array([lse(np.array([cur[j] + c[d][k - j] for j in range(k + 1)])) for k in range(G)])
        out[d] = np.array([lse(cur[: k + 1]) for k in range(G)])
    return out


def convolution_histories(seed=0):
    from phyclone.tree.utils import _convolve_two_children, compute_log_S

    problems = []
    calls = 0
    rng = np.random.default_rng(seed + 3)
    for D, G in ((1, 5), (2, 7)):
        arrs = [rng.normal(0, 1.5, size=(D, G)) for _ in range(6)]
        arrs.append(arrs[0].copy())  # a bit-identical twin
        histories = [
            [[0, 1, 2], [0, 1, 2, 3], [0, 1, 2], [0, 1, 2, 3, 4], [0, 1, 2, 3]],      # growing lists sharing a convolution chain
            [[0], [0, 6], [0], [0, 6, 6], [6, 0]],                                      # duplicates: [A] vs [A, A] vs [A, A, A]
            [[0, 1], [1, 0], [0, 1, 2], [2, 1, 0], [1, 2, 0], [0, 2]],                  # permutations
            [[3, 4, 5], [5, 4, 3, 2], [3, 4, 5, 2, 1], [5, 4, 3], [3, 4, 5, 2]],
        ]
        for hist in histories:
            for step, idxs in enumerate(hist):
                calls += 1
                kids = [arrs[i] for i in idxs]
                keep = [a.copy() for a in kids]
                got = compute_log_S([a for a in kids])
                want = _ref_log_S(keep)
                if not np.allclose(got, want, rtol=1e-8, atol=1e-8):
                    problems.append("compute_log_S(children %s) after history %s: differs from the unmemoised recursion by %.3g" % (idxs, hist[:step], np.abs(np.asarray(got) - want).max()))
                if any(not np.array_equal(a, b) for a, b in zip(kids, keep)):
                    problems.append("compute_log_S(children %s) modified one of its inputs" % idxs)
        # pairwise cache: symmetric, and equal arrays are not confused with a different pair
        arrs.append(arrs[1].copy())  # a second pair of twins (7 = copy of 1): two different equal pairs must not share an entry
        for i, j in ((0, 1), (1, 0), (0, 6), (0, 0), (0, 2), (2, 0), (1, 7), (7, 7), (6, 6), (3, 4), (5, 2)):
            calls += 1
            got = _convolve_two_children(arrs[i], arrs[j])
            want = _convolve_two_children.__wrapped__(arrs[i].copy(), arrs[j].copy())
            if not np.allclose(got, want, rtol=1e-10, atol=1e-10):
                problems.append("_convolve_two_children(%d,%d): memoised result differs from the unmemoised one by %.3g" % (i, j, np.abs(got - want).max()))
    return calls, problems


class Shadow:
    """wrap a memoised function: every call is also computed through __wrapped__ and compared by `same`"""

    def __init__(self, module, name, same, problems, counter):
        self.module, self.name, self.same = module, name, same
        self.orig = getattr(module, name)
        self.problems, self.counter = problems, counter

    def __enter__(self):
        orig, same, problems, counter, name = self.orig, self.same, self.problems, self.counter, self.name

        def shadow(*a, **k):
            counter[0] += 1
            got = orig(*a, **k)
            if name == "_get_cached_semi_proposal_dist" or name == "_get_cached_full_proposal_dist":
                # parent_particle.built_tree is consumed (deque.pop) by the underlying constructor: give it the tree again
                pp = a[2]
                if pp is not None:
                    pp.built_tree = pp.tree
            want = orig.__wrapped__(*a, **k)
            msg = same(got, want, a)
            if msg and len(problems) < 8:
                problems.append("%s: %s" % (name, msg))
            return got

        shadow.cache_clear = orig.cache_clear
        shadow.cache_info = orig.cache_info
        shadow.__wrapped__ = orig.__wrapped__
        setattr(self.module, name, shadow)
        return self

    def __exit__(self, *a):
        setattr(self.module, self.name, self.orig)


def _same_holder(got, want, args):
    if abs(got.log_p - want.log_p) > RTOL * max(1, abs(want.log_p)) or abs(got.log_p_one - want.log_p_one) > RTOL * max(1, abs(want.log_p_one)):
        return "cached new-clone tree has log_p %.10g / log_p_one %.10g, unmemoised %.10g / %.10g (alpha now %s)" % (got.log_p, got.log_p_one, want.log_p, want.log_p_one, args[3].prior.alpha)
    if got != want:
        return "cached new-clone tree differs from the unmemoised one"
    return None


def _same_proposal(got, want, args):
    g = sorted(float(v) for v in got._log_p.values())
    w = sorted(float(v) for v in want._log_p.values())
    if len(g) != len(w) or not np.allclose(g, w, rtol=1e-9, atol=1e-9):
        return "cached proposal distribution differs from a freshly built one (alpha argument %s)" % (args[4],)
    return None


def sampler_histories(tier="quick", seed=0):
    """sweeps of the real samplers with the proposal caches shadowed; alpha changes in place between sweeps, with (CLI) and without (library use) cache clears"""
    import phyclone.smc.kernels.fully_adapted as FA
    import phyclone.smc.kernels.semi_adapted as SA
    from phyclone.mcmc.particle_gibbs import ParticleGibbsTreeSampler
    from phyclone.smc.kernels import FullyAdaptedKernel, SemiAdaptedKernel
    from phyclone.smc.samplers import UnconditionalSMCSampler
    from phyclone.smc.utils import RootPermutationDistribution
    from phyclone.tree import Tree

    problems = []
    counter = [0]
    data = T.make_data(5, dims=1, grid=7, seed=seed + 5, outlier_p=0.2)
    for kcls, mod, names in ((SemiAdaptedKernel, SA, ("get_cached_new_tree", "_get_cached_semi_proposal_dist")), (FullyAdaptedKernel, FA, ("_get_cached_full_proposal_dist",))):
        for clear in (False, True):
            EK.clear_caches()
            td = EK.make_tree_dist(1.0)
            rng = np.random.default_rng(seed + 11)
            kernel = kcls(td, rng, outlier_proposal_prob=0.1, perm_dist=RootPermutationDistribution())
            with contextlib.ExitStack() as st:
                for nm in names:
                    st.enter_context(Shadow(mod, nm, _same_holder if nm == "get_cached_new_tree" else _same_proposal, problems, counter))
                tree = Tree.get_single_node_tree(data)
                pg = ParticleGibbsTreeSampler(kernel, rng, num_particles=4, resample_threshold=0.5)
                smc = UnconditionalSMCSampler(kernel, num_particles=4, resample_threshold=0.5)
                for sweep, alpha in enumerate((1.0, 3.75, 1.0, 0.2) if tier == "quick" else (1.0, 3.75, 1.0, 0.2, 0.2, 5.0, 1.0)):
                    td.prior.alpha = alpha
                    if clear:
                        EK.clear_caches()
                    tree = smc.sample_tree(tree) if sweep == 0 else pg.sample_tree(tree)
                    # the same sweep again from the same generator state: maximises cache hits for identical (parent, data point, children) triples
                    st_ = rng.bit_generator.state
                    pg.sample_tree(tree)
                    rng.bit_generator.state = st_
                    tree2 = pg.sample_tree(tree)
    return counter[0], problems


def new_tree_after_alpha_change(seed=0):
    """the C14 corner in isolation: same (parent particle, data point, children) requested before and after an in-place alpha change, no clear in between"""
    import phyclone.smc.kernels.semi_adapted as SA
    from phyclone.smc.swarm import Particle

    problems = []
    EK.clear_caches()
    data = T.make_data(4, dims=1, grid=5, seed=seed + 8)
    td = EK.make_tree_dist(1.0)
    ptree = T.build_tree(data, [[0], [1], [2]], (-1, -1, 0))
    n = 0
    for alpha in (1.0, 4.0, 0.25, 4.0):
        td.prior.alpha = alpha
        pp = Particle(0, None, ptree.copy(), td, None)
        roots = list(ptree.roots)
        for kids in [()] + [(r,) for r in roots] + [tuple(roots)]:
            n += 1
            got = SA.get_cached_new_tree(pp, data[3], frozenset(kids), td, None)
            want = SA.get_cached_new_tree.__wrapped__(pp, data[3], frozenset(kids), td, None)
            if abs(got.log_p - want.log_p) > 1e-9 or abs(got.log_p_one - want.log_p_one) > 1e-9:
                problems.append("get_cached_new_tree(children=%s) at alpha=%s returns log_p %.8g, unmemoised %.8g (stale entry from another alpha)" % (list(kids), alpha, got.log_p, want.log_p))
    return n, problems
