"""Bounded stand-in for C19 / C15 (never counted as proved): the real run_phyclone_chain over the cross-product of boundary
option values on tiny data sets; every run must finish without an exception; every recorded entry must restore to a
well-formed tree over all data points with a finite log_p_one that equals the density recomputed under the recorded alpha;
the trace must hold the post-burn-in state followed by exactly the iterations that are multiples of the thinning interval."""
import contextlib
import io
import itertools
import math

import numpy as np

from bounded import edits as BE
from replay import trees as T


def option_grid(tier, seed):
    props = ("bootstrap", "semi-adapted", "fully-adapted")
    Ns = (1, 2, 5)
    thrs = (0.0, 0.5, 1.0)
    ops = (0.0, 0.1, 1.0)
    subs = (0.0, 0.5, 1.0)
    thins = (1, 3)
    burns = (1, 2)
    concs = (False, True)
    times = (float("inf"), 0.0)
    datasets = ((1, 1), (2, 2), (3, 1))
    full = list(itertools.product(props, Ns, thrs, ops, subs, thins, burns, concs, times, datasets))
    if tier == "thorough":
        return full
    rng = np.random.default_rng(seed + 404)
    idx = rng.choice(len(full), size=260, replace=False)
    picked = [full[i] for i in idx]
    # make sure every single option value and the known corner combinations are present
    picked += [("semi-adapted", 1, 1.0, 0.1, 1.0, 1, 1, True, float("inf"), (1, 1)), ("bootstrap", 2, 1.0, 1.0, 1.0, 3, 2, True, float("inf"), (1, 1)),
               ("fully-adapted", 5, 0.0, 0.1, 0.5, 1, 1, False, float("inf"), (3, 1)), ("semi-adapted", 2, 0.5, 1.0, 1.0, 1, 2, True, float("inf"), (2, 2)),
               ("bootstrap", 1, 1.0, 0.0, 1.0, 3, 1, True, 0.0, (2, 2))]
    return picked


def run_one(cfg):
    from phyclone.run import run_phyclone_chain
    from phyclone.tree import FSCRPDistribution, Tree, TreeJointDistribution

    proposal, N, thr, op, sub, thin, burnin, conc, max_time, (n, dims) = cfg
    name = "proposal=%s N=%d threshold=%s outlier_prob=%s subtree_prob=%s thin=%d burnin=%d conc_update=%s max_time=%s n=%d samples=%d" % (
        proposal, N, thr, op, sub, thin, burnin, conc, max_time, n, dims)
    # data points exactly as the loader builds them for this outlier probability (including the boundary value 1)
    import warnings

    from phyclone.data.base import DataPoint
    from phyclone.data.pyclone import compute_outlier_prob

    with warnings.catch_warnings():
        warnings.simplefilter("ignore")
        lo, lo_not = compute_outlier_prob(op, 1)
    base = T.make_data(n, dims=dims, grid=11, seed=n * 7 + dims)
    data = [DataPoint(dp.idx, dp.value, outlier_prob=lo, outlier_prob_not=lo_not) for dp in base]
    rng = np.random.default_rng(1234)
    num_iters = 4
    problems = []
    try:
        with contextlib.redirect_stdout(io.StringIO()):
            res = run_phyclone_chain(burnin, conc, 1.0, data, max_time, num_iters, N, 1, 1, op, 100, proposal, thr, rng, ["s%d" % d for d in range(dims)], thin, 0, sub)
    except Exception as e:  # noqa
        import traceback

        tb = traceback.extract_tb(e.__traceback__)
        where = "%s:%d" % (tb[-1].filename.split("/")[-1], tb[-1].lineno) if tb else "?"
        return {"cfg": name, "entries": 0, "problems": ["raised %r at %s" % (e, where)]}
    trace = res["trace"]
    iters = [e["iter"] for e in trace]
    if max_time == float("inf"):
        want = [0] + [i for i in range(num_iters) if i % thin == 0]
        if iters != want:
            problems.append("recorded iterations %s, expected %s" % (iters, want))
    else:
        want = [0] + [i for i in range(num_iters) if i % thin == 0]
        if iters != want[: len(iters)] or len(iters) < 1:
            problems.append("recorded iterations %s are not a prefix of %s" % (iters, want))
    for e in trace:
        tree = Tree.from_dict(e["tree"])
        ps = BE.check_wf(tree, set(range(n)))
        if ps:
            problems.append("entry iter %d: %s" % (e["iter"], "; ".join(ps[:2])))
        if not math.isfinite(e["log_p_one"]):
            problems.append("entry iter %d: log_p_one = %r" % (e["iter"], e["log_p_one"]))
        td = TreeJointDistribution(FSCRPDistribution(e["alpha"]))
        re = td.log_p_one(tree)
        if math.isfinite(e["log_p_one"]) and abs(re - e["log_p_one"]) > 1e-8 * max(1.0, abs(re)):
            problems.append("entry iter %d: recorded log_p_one %.10g, recomputed under the recorded alpha %.10g" % (e["iter"], e["log_p_one"], re))
        if not (e["alpha"] > 0 and math.isfinite(e["alpha"])):
            problems.append("entry iter %d: alpha = %r" % (e["iter"], e["alpha"]))
        if not conc and e["alpha"] != 1.0:
            problems.append("entry iter %d: alpha changed although the concentration update is off" % e["iter"])
    if res["chain_num"] != 0 or res["data"] is not data:
        problems.append("result does not carry the chain number / data it was given")
    return {"cfg": name, "entries": len(trace), "problems": problems}


def run_batch(cfgs):
    return [run_one(c) for c in cfgs]
