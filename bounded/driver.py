"""Bounded stand-in for C19 / C15 (never counted as proved): the real run_phyclone_chain over the cross-product of boundary
option values on tiny data sets; every run must finish without an exception; every recorded entry must restore to a
well-formed tree over all data points with a finite log_p_one that equals the density recomputed under the recorded alpha;
the trace must hold the post-burn-in state followed by exactly the iterations that are multiples of the thinning interval."""
import contextlib
import io
import itertools
import math

import numpy as np

from bounded import edits as BE
from replay import trees as T


def option_grid(tier, seed):
    props = ("bootstrap", "semi-adapted", "fully-adapted")
    Ns = (1, 2, 5)
    thrs = (0.0, 0.5, 1.0)
    ops = (0.0, 0.1, 1.0)
    subs = (0.0, 0.5, 1.0)
    thins = (1, 3)
    burns = (1, 2)
    concs = (False, True)
    times = (float("inf"), 0.0)
    datasets = ((1, 1), (2, 2), (3, 1))
    full = list(itertools.product(props, Ns, thrs, ops, subs, thins, burns, concs, times, datasets))
    if tier == "thorough":
        return full
    rng = np.random.default_rng(seed + 404)
    idx = rng.choice(len(full), size=260, replace=False)
    picked = [full[i] for i in idx]
    # make sure every single option value and the known corner combinations are present
    picked += [("semi-adapted", 1, 1.0, 0.1, 1.0, 1, 1, True, float("inf"), (1, 1)), ("bootstrap", 2, 1.0, 1.0, 1.0, 3, 2, True, float("inf"), (1, 1)),
               ("fully-adapted", 5, 0.0, 0.1, 0.5, 1, 1, False, float("inf"), (3, 1)), ("semi-adapted", 2, 0.5, 1.0, 1.0, 1, 2, True, float("inf"), (2, 2)),
               ("bootstrap", 1, 1.0, 0.0, 1.0, 3, 1, True, 0.0, (2, 2))]
    return picked


def run_one(cfg):
    from phyclone.run import run_phyclone_chain
    from phyclone.tree import FSCRPDistribution, Tree, TreeJointDistribution

    proposal, N, thr, op, sub, thin, burnin, conc, max_time, (n, dims) = cfg
    name = "proposal=%s N=%d threshold=%s outlier_prob=%s subtree_prob=%s thin=%d burnin=%d conc_update=%s max_time=%s n=%d samples=%d" % (
        proposal, N, thr, op, sub, thin, burnin, conc, max_time, n, dims)
    # data points exactly as the loader builds them for this outlier probability (including the boundary value 1)
    import warnings

    from phyclone.data.base import DataPoint
    from phyclone.data.pyclone import compute_outlier_prob

    with warnings.catch_warnings():
        warnings.simplefilter("ignore")
        lo, lo_not = compute_outlier_prob(op, 1)
    base = T.make_data(n, dims=dims, grid=11, seed=n * 7 + dims)
    data = [DataPoint(dp.idx, dp.value, outlier_prob=lo, outlier_prob_not=lo_not) for dp in base]
    rng = np.random.default_rng(1234)
    num_iters = 4
    problems = []
    try:
        with contextlib.redirect_stdout(io.StringIO()):
            res = run_phyclone_chain(burnin, conc, 1.0, data, max_time, num_iters, N, 1, 1, op, 100, proposal, thr, rng, ["s%d" % d for d in range(dims)], thin, 0, sub)
    except Exception as e:  # noqa
        import traceback

        tb = traceback.extract_tb(e.__traceback__)
        where = "%s:%d" % (tb[-1].filename.split("/")[-1], tb[-1].lineno) if tb else "?"
        return {"cfg": name, "entries": 0, "problems": ["raised %r at %s" % (e, where)]}
    trace = res["trace"]
    iters = [e["iter"] for e in trace]
    if max_time == float("inf"):
        want = [0] + [i for i in range(num_iters) if i % thin == 0]
        if iters != want:
            problems.append("recorded iterations %s, expected %s" % (iters, want))
    else:
        want = [0] + [i for i in range(num_iters) if i % thin == 0]
        if iters != want[: len(iters)] or len(iters) < 1:
            problems.append("recorded iterations %s are not a prefix of %s" % (iters, want))
    for e in trace:
        tree = Tree.from_dict(e["tree"])
        ps = BE.check_wf(tree, set(range(n)))
        if ps:
            problems.append("entry iter %d: %s" % (e["iter"], "; ".join(ps[:2])))
        if not math.isfinite(e["log_p_one"]):
            problems.append("entry iter %d: log_p_one = %r" % (e["iter"], e["log_p_one"]))
        td = TreeJointDistribution(FSCRPDistribution(e["alpha"]))
        re = td.log_p_one(tree)
        if math.isfinite(e["log_p_one"]) and abs(re - e["log_p_one"]) > 1e-8 * max(1.0, abs(re)):
            problems.append("entry iter %d: recorded log_p_one %.10g, recomputed under the recorded alpha %.10g" % (e["iter"], e["log_p_one"], re))
        if not (e["alpha"] > 0 and math.isfinite(e["alpha"])):
            problems.append("entry iter %d: alpha = %r" % (e["iter"], e["alpha"]))
        if not conc and e["alpha"] != 1.0:
            problems.append("entry iter %d: alpha changed although the concentration update is off" % e["iter"])
    if res["chain_num"] != 0 or res["data"] is not data:
        problems.append("result does not carry the chain number / data it was given")
    return {"cfg": name, "entries": len(trace), "problems": problems}


def run_batch(cfgs):
    return [run_one(c) for c in cfgs]


# ----------------------------------------------------------------------------------------------------------- whole command: file in, trace out


@contextlib.contextmanager
def _quiet_fd():
    """silence stdout at file-descriptor level: the chain worker processes print through the inherited descriptor"""
    import os
    import sys

    sys.stdout.flush()
    saved = os.dup(1)
    devnull = os.open(os.devnull, os.O_WRONLY)
    try:
        os.dup2(devnull, 1)
        with contextlib.redirect_stdout(io.StringIO()):
            yield
    finally:
        sys.stdout.flush()
        os.dup2(saved, 1)
        os.close(saved)
        os.close(devnull)


def file_runs(tier="quick", seed=0):
    """phyclone.run.run on input FILES (so the loader, the emission grids and the writer are on the path): small valid tables covering the copy-number
    corners (minor copy number 0 and > 0, major 1..3, normal 1..2), both densities, clustered and unclustered, one and two chains."""
    import gzip
    import os
    import pickle
    import shutil
    import tempfile

    from phyclone.run import run
    from phyclone.tree import Tree

    rows = [("m0", 20, 10, 2, 0, 2), ("m1", 30, 5, 1, 1, 2), ("m2", 10, 25, 3, 1, 2), ("m3", 40, 1, 2, 2, 2), ("m4", 15, 15, 1, 0, 1)]
    tmp = tempfile.mkdtemp(prefix="verif_c19_")
    out = []
    try:
        tsv = os.path.join(tmp, "in.tsv")
        with open(tsv, "w") as fh:
            fh.write("mutation_id\tsample_id\tref_counts\talt_counts\tmajor_cn\tminor_cn\tnormal_cn\n")
            for s_i, s in enumerate(("S1", "S2")):
                for (m, a, b, mj, mn, nc) in rows:
                    fh.write("%s\t%s\t%d\t%d\t%d\t%d\t%d\n" % (m, s, a + 3 * s_i, b + 2 * s_i, mj, mn, nc))
        clu = os.path.join(tmp, "clusters.tsv")
        with open(clu, "w") as fh:
            fh.write("mutation_id\tcluster_id\n")
            for m, c in (("m0", 0), ("m1", 0), ("m2", 1), ("m3", 2), ("m4", 2)):
                fh.write("%s\t%d\n" % (m, c))
        cfgs = [(d, c, ch, op) for d in ("beta-binomial", "binomial") for c in (None, clu) for ch in (1, 2) for op in (0.0, 0.05)]
        if tier == "quick":
            cfgs = [cfgs[i] for i in (0, 3, 5, 6, 9, 12)]
        for density, cluster_file, chains, op in cfgs:
            name = "run(file) density=%s clusters=%s chains=%d outlier_prob=%s" % (density, "yes" if cluster_file else "no", chains, op)
            of = os.path.join(tmp, "trace.pkl.gz")
            problems = []
            try:
                with _quiet_fd():
                    run(in_file=tsv, out_file=of, burnin=1, cluster_file=cluster_file, density=density, grid_size=21, num_iters=4, num_particles=4, outlier_prob=op, precision=400,
                        print_freq=1000, seed=seed + 3, num_chains=chains, subtree_update_prob=0.5)
                with gzip.GzipFile(of, "rb") as fh:
                    res = pickle.load(fh)
                n_expected = 3 if cluster_file else len(rows)
                for c, r in res.items():
                    for e in r["trace"]:
                        t = Tree.from_dict(e["tree"])
                        ps = BE.check_wf(t, set(range(n_expected)))
                        if ps:
                            problems.append("chain %s entry %d: %s" % (c, e["iter"], "; ".join(ps[:2])))
                        if not math.isfinite(e["log_p_one"]):
                            problems.append("chain %s entry %d: log_p_one = %r" % (c, e["iter"], e["log_p_one"]))
                    for dp in r["data"]:
                        if not np.all(np.isfinite(dp.value)):
                            problems.append("chain %s: the likelihood grid of data point %s is not finite" % (c, dp.name))
                if len(res) != chains:
                    problems.append("%d chains written, %d requested" % (len(res), chains))
            except Exception as e:  # noqa
                import traceback

                tb = traceback.extract_tb(e.__traceback__)
                where = "%s:%d" % (tb[-1].filename.split("/")[-1], tb[-1].lineno) if tb else "?"
                problems.append("raised %r at %s" % (e, where))
            out.append({"cfg": name, "entries": 0, "problems": problems[:4]})
    finally:
        shutil.rmtree(tmp, ignore_errors=True)
    return out
