"""Bounded stand-in for C07 at the sampler level (never counted as proved): every tree returned by every sampler - on every
outcome of its random draws (enumerating generator, n <= 3) and along seeded random sweeps (n = 6) - is a well-formed forest
holding exactly the data points it was given."""
import numpy as np

from bounded import edits as BE
from replay import exact_kernel as EK
from replay import trees as T
from replay.enumrng import explore


def samplers(td, rng, proposal, outl, N=2, thr=0.5):
    from phyclone.mcmc.gibbs_mh import DataPointSampler, PruneRegraphSampler
    from phyclone.mcmc.particle_gibbs import ParticleGibbsSubtreeSampler, ParticleGibbsTreeSampler
    from phyclone.smc.samplers import UnconditionalSMCSampler

    kernel = EK.make_kernel(proposal, td, rng, 0.1 if outl else 0.0, "run")
    return {
        "pg": ParticleGibbsTreeSampler(kernel, rng, num_particles=N, resample_threshold=thr),
        "subtree-pg": ParticleGibbsSubtreeSampler(kernel, rng, num_particles=N, resample_threshold=thr),
        "burnin-smc": UnconditionalSMCSampler(kernel, num_particles=N, resample_threshold=thr),
        "data-point": DataPointSampler(td, rng, outliers=outl),
        "prune-regraft": PruneRegraphSampler(td, rng),
    }


def enum_task(args):
    n, outl, proposal, which = args
    data = T.make_data(n, dims=1, grid=3, seed=n, outlier_p=0.2 if outl else 0.0)
    td = EK.make_tree_dist(1.1)
    problems = []
    n_paths = 0
    expected = set(range(n))
    for start in T.all_trees(data, outliers_allowed=outl):
        def run(rng, start=start):
            EK.clear_caches()
            return samplers(td, rng, proposal, outl)[which].sample_tree(start.copy())

        try:
            for prob, res, _ in explore(run):
                n_paths += 1
                ps = BE.check_wf(res, expected)
                if ps:
                    problems.append("%s/%s from %s -> %s: %s" % (which, proposal, T.describe(start), T.describe(res), "; ".join(ps[:2])))
                    if len(problems) > 3:
                        return {"case": "%s|%s|n=%d|outliers=%s" % (which, proposal, n, outl), "paths": n_paths, "problems": problems}
        except Exception as e:  # noqa
            problems.append("%s/%s from %s raised %r" % (which, proposal, T.describe(start), e))
            break
    return {"case": "%s|%s|n=%d|outliers=%s" % (which, proposal, n, outl), "paths": n_paths, "problems": problems}


def enum_configs(tier):
    cfgs = []
    for outl in (False, True):
        for which in ("data-point", "prune-regraft"):
            cfgs.append((3, outl, "semi-adapted", which))
        for proposal in ("bootstrap", "semi-adapted", "fully-adapted"):
            for which in ("pg", "subtree-pg", "burnin-smc"):
                cfgs.append((2, outl, proposal, which))
            if tier == "thorough":
                cfgs.append((3, outl, proposal, "subtree-pg"))
                cfgs.append((3, outl, proposal, "burnin-smc"))
    if tier == "quick":
        cfgs.append((3, False, "semi-adapted", "subtree-pg"))
        cfgs.append((3, False, "bootstrap", "burnin-smc"))
    return cfgs


def sweep_task(args):
    proposal, outl, seed = args
    n = 6
    data = T.make_data(n, dims=2, grid=5, seed=seed, outlier_p=0.2 if outl else 0.0)
    td = EK.make_tree_dist(1.0)
    rng = np.random.default_rng(seed)
    ss = samplers(td, rng, proposal, outl, N=5)
    from phyclone.tree import Tree

    starts = [Tree.get_single_node_tree(data)]
    # a chain under one top-level clone with outliers (the shape several subtree-move corner cases need)
    if outl:
        starts.append(T.build_tree(data, [[0], [1], [2, 3]], (-1, 0, 1), outliers=(4, 5)))
        starts.append(T.build_tree(data, [], (), outliers=tuple(range(n))))
    starts.append(T.build_tree(data, [[0, 1], [2], [3], [4, 5]], (-1, 0, 0, -1)))
    problems = []
    moves = 0
    expected = set(range(n))
    for tree in starts:
        for it in range(12):
            for name in ("burnin-smc", "pg", "subtree-pg", "data-point", "prune-regraft"):
                EK.clear_caches()
                try:
                    tree = ss[name].sample_tree(tree)
                except Exception as e:  # noqa
                    problems.append("%s/%s raised %r" % (name, proposal, e))
                    return {"case": "sweep|%s|outliers=%s|seed=%d" % (proposal, outl, seed), "moves": moves, "problems": problems}
                moves += 1
                ps = BE.check_wf(tree, expected)
                if ps:
                    problems.append("%s/%s sweep %d: %s" % (name, proposal, it, "; ".join(ps[:2])))
                    return {"case": "sweep|%s|outliers=%s|seed=%d" % (proposal, outl, seed), "moves": moves, "problems": problems}
            tree.relabel_nodes()
    return {"case": "sweep|%s|outliers=%s|seed=%d" % (proposal, outl, seed), "moves": moves, "problems": problems}


def sweep_configs(tier, seed):
    return [(p, o, seed + k) for p in ("bootstrap", "semi-adapted", "fully-adapted") for o in (False, True) for k in range(1 if tier == "quick" else 3)]
