"""Bounded stand-in for C08 (never counted as proved): the real proposal distributions are enumerated exactly with the
enumerating generator on small parent trees: faithful (sampled probability == exp(log_p)), normalised, complete support,
and telescoping weights along every proposal path."""
import itertools

import numpy as np

from replay import exact_kernel as EK
from replay import trees as T
from replay.enumrng import explore


def kernel_cls(name):
    from phyclone.smc.kernels import BootstrapKernel, FullyAdaptedKernel, SemiAdaptedKernel

    return {"bootstrap": BootstrapKernel, "semi-adapted": SemiAdaptedKernel, "fully-adapted": FullyAdaptedKernel}[name]


def parent_configs(max_roots=3):
    """(blocks, parent-function, outliers) over data idx 0..m-1; the new point is idx m."""
    cfgs = [("none", None)]
    cfgs.append(("outliers-only-1", ([], (), (0,))))
    cfgs.append(("outliers-only-2", ([], (), (0, 1))))
    cfgs.append(("R1", ([[0]], (-1,), ())))
    cfgs.append(("R1+outlier", ([[0]], (-1,), (1,))))
    cfgs.append(("R1-chain", ([[0], [1]], (-1, 0), ())))
    cfgs.append(("R2", ([[0], [1]], (-1, -1), ())))
    cfgs.append(("R2-nested", ([[0], [1], [2]], (-1, -1, 0), ())))
    if max_roots >= 3:
        cfgs.append(("R3", ([[0], [1], [2]], (-1, -1, -1), ())))
        cfgs.append(("R3+outlier", ([[0], [1], [2]], (-1, -1, -1), (3,))))
    return cfgs


def expected_support(data, cfg, new_idx, outliers_on):
    """Keys of every placement of the new point, built independently of the proposal code."""
    keys = set()
    if cfg is None:
        blocks, parent, outs = [], (), ()
    else:
        blocks, parent, outs = cfg
    k = len(blocks)
    roots = [i for i in range(k) if parent[i] == -1]
    for r in roots:
        nb = [list(b) for b in blocks]
        nb[r] = nb[r] + [new_idx]
        keys.add(T.tree_key(T.build_tree(data, nb, parent, outs)))
    for size in range(len(roots) + 1):
        for S in itertools.combinations(roots, size):
            nb = [list(b) for b in blocks] + [[new_idx]]
            np_ = list(parent) + [-1]
            for r in S:
                np_[r] = k
            keys.add(T.tree_key(T.build_tree(data, nb, tuple(np_), outs)))
    if outliers_on:
        keys.add(T.tree_key(T.build_tree(data, blocks, parent, tuple(outs) + (new_idx,))))
    return keys


def check_proposal(kind, cfg_name, cfg, o, perm, alpha=1.3, seed=3):
    from phyclone.smc.swarm import Particle
    from phyclone.smc.utils import RootPermutationDistribution

    m = 0 if cfg is None else sum(len(b) for b in cfg[0]) + len(cfg[2])
    data = T.make_data(m + 1, dims=1, grid=4, seed=seed, outlier_p=0.15 if (o > 0 or (cfg and cfg[2])) else 0.0)
    td = EK.make_tree_dist(alpha)
    pd = RootPermutationDistribution() if perm else None
    ptree = None if cfg is None else T.build_tree(data, cfg[0], cfg[1], cfg[2])
    new_dp = data[m]
    totals = {}

    def run(rng):
        EK.clear_caches()
        kernel = kernel_cls(kind)(td, rng, outlier_proposal_prob=o, perm_dist=pd)
        pp = None if ptree is None else Particle(0, None, ptree.copy(), td, pd)
        prop = kernel.get_proposal_distribution(new_dp, pp, None if ptree is None else ptree.copy())
        t = prop.sample()
        lq = float(prop.log_p(t))
        part = kernel.create_particle(lq, pp, t)
        tree = part.tree
        gamma = td.log_p(tree) + (pd.log_pdf(tree) if pd is not None else 0.0)
        gamma_prev = 0.0 if pp is None else (td.log_p(ptree) + (pd.log_pdf(ptree) if pd is not None else 0.0))
        return T.tree_key(tree), lq, float(part.log_w), float(gamma - gamma_prev)

    problems = []
    for prob, (key, lq, lw, dgamma), _ in explore(run):
        e = totals.setdefault(key, [0.0, lq])
        e[0] += prob
        if abs((lw + lq) - dgamma) > 1e-8:
            problems.append("weight: log_w + log_q = %.6g but gamma_t - gamma_(t-1) = %.6g at %s" % (lw + lq, dgamma, T.key_str(key)))
    for key, (pr, lq) in totals.items():
        if abs(pr - np.exp(lq)) > 1e-9:
            problems.append("faithful: sampled %.6g reported %.6g at %s" % (pr, np.exp(lq), T.key_str(key)))
    ssum = float(sum(np.exp(lq) for _, lq in totals.values()))
    if abs(ssum - 1) > 1e-9:
        problems.append("normalised: reported probabilities sum to %.9g" % ssum)
    exp_keys = expected_support(data, cfg, m, o > 0)
    got = set(totals)
    if got != exp_keys:
        missing = [T.key_str(k) for k in exp_keys - got][:3]
        extra = [T.key_str(k) for k in got - exp_keys][:3]
        problems.append("complete: support differs; missing %s extra %s" % (missing, extra))
    return {"case": "%s|%s|o=%s|perm=%s" % (kind, cfg_name, o, perm), "outcomes": len(totals), "problems": problems[:4]}


def alpha_change_pass(kind, seed=3):
    """C08 across a concentration change: the same kernel / distribution objects, proposals requested at alpha = 1, alpha changed in place,
    the same proposals requested again WITHOUT clearing the proposal caches (library use): weights must still telescope"""
    from phyclone.smc.swarm import Particle
    from phyclone.smc.utils import RootPermutationDistribution

    problems = []
    data = T.make_data(4, dims=1, grid=4, seed=seed)
    td = EK.make_tree_dist(1.0)
    pd = RootPermutationDistribution()
    ptree = T.build_tree(data, [[0], [1], [2]], (-1, -1, 0))
    EK.clear_caches()
    n = 0
    for alpha in (1.0, 4.0, 0.3):
        td.prior.alpha = alpha

        def run(rng):
            kernel = kernel_cls(kind)(td, rng, outlier_proposal_prob=0.0, perm_dist=pd)
            pp = Particle(0, None, ptree.copy(), td, pd)
            prop = kernel.get_proposal_distribution(data[3], pp, ptree.copy())
            t = prop.sample()
            lq = float(prop.log_p(t))
            part = kernel.create_particle(lq, pp, t)
            tree = part.tree
            return T.tree_key(tree), lq, float(part.log_w), float(td.log_p(tree) + pd.log_pdf(tree) - td.log_p(ptree) - pd.log_pdf(ptree))

        for prob, (key, lq, lw, dgamma), _ in explore(run):
            n += 1
            if abs((lw + lq) - dgamma) > 1e-8:
                problems.append("%s after alpha -> %s (no cache clear): log_w + log_q = %.6g but gamma_t - gamma_(t-1) = %.6g at %s" % (kind, alpha, lw + lq, dgamma, T.key_str(key)))
    return {"case": "%s|alpha-change" % kind, "outcomes": n, "problems": problems[:4]}


def run_all(tier="quick"):
    cases = []
    max_roots = 3 if tier == "thorough" else 3
    for kind in ("bootstrap", "semi-adapted", "fully-adapted"):
        for cfg_name, cfg in parent_configs(max_roots):
            for o in (0.0, 0.1):
                if o == 0.0 and cfg is not None and cfg[2]:
                    continue  # a parent with outliers only arises with outlier proposals on
                for perm in (False, True):
                    cases.append(check_proposal(kind, cfg_name, cfg, o, perm))
        cases.append(alpha_change_pass(kind))
    return cases
