"""Bounded stand-in for C01 / C04 (never counted as proved): exact invariance check of the real moves on every tree over
n <= 3 (4) data points with N = 2 particles, driven by the enumerating generator (replay/exact_kernel.py)."""
import time

TOL = 1e-9


def pg_task(args):
    n, outl, proposal, wiring, thr, alpha, dims, subtree, seed = args
    from replay import exact_kernel as EK, trees as T

    t0 = time.time()
    data = T.make_data(n, dims=dims, grid=4, seed=seed, outlier_p=outl)
    td = EK.make_tree_dist(alpha)
    mv = EK.pg_move(proposal, wiring, td, 2, thr, 0.1 if outl > 0 else 0.0, subtree=subtree)
    name = "%s|n=%d|outliers=%s|%s|%s|thr=%s|alpha=%s|dims=%d" % ("subtree-pg" if subtree else "pg", n, outl > 0, proposal, wiring, thr, alpha, dims)
    try:
        r = EK.check_move(name, mv, data, td, outl > 0, tol=TOL)
    except Exception as e:  # noqa
        return {"move": name, "ok": False, "error": repr(e), "n_states": 0, "n_paths": 0, "defect": None, "wall": time.time() - t0}
    r["wall"] = time.time() - t0
    return r


def pg_alpha_task(args):
    n, outl, proposal, seed = args
    from replay import exact_kernel as EK, trees as T

    t0 = time.time()
    data = T.make_data(n, dims=1, grid=4, seed=seed, outlier_p=outl)
    td = EK.make_tree_dist(2.5)
    states = T.all_trees(data, outliers_allowed=outl > 0)
    mv = EK.pg_move_after_alpha_change(proposal, td, 2, 0.5, 0.1 if outl > 0 else 0.0, 0.4, states[-1])
    name = "pg-after-in-place-alpha-change|n=%d|outliers=%s|%s|alpha 0.4 -> 2.5" % (n, outl > 0, proposal)
    try:
        # the proposal caches are NOT cleared by the oracle here (clear_caches is called inside transition_matrix per path, as the run loop does per iteration)
        r = EK.check_move(name, mv, data, td, outl > 0, tol=TOL)
    except Exception as e:  # noqa
        return {"move": name, "ok": False, "error": repr(e), "n_states": 0, "n_paths": 0, "defect": None, "wall": time.time() - t0}
    r["wall"] = time.time() - t0
    return r


def aux_task(args):
    kind, n, outl, alpha, dims, seed = args
    from replay import exact_kernel as EK, trees as T

    t0 = time.time()
    data = T.make_data(n, dims=dims, grid=4, seed=seed, outlier_p=outl)
    td = EK.make_tree_dist(alpha)
    mv = EK.dp_move(td, outl > 0) if kind == "dp" else EK.prg_move(td)
    name = "%s|n=%d|outliers=%s|alpha=%s|dims=%d" % ({"dp": "data-point", "prg": "prune-regraft"}[kind], n, outl > 0, alpha, dims)
    try:
        r = EK.check_move(name, mv, data, td, outl > 0, tol=TOL)
    except Exception as e:  # noqa
        return {"move": name, "ok": False, "error": repr(e), "n_states": 0, "n_paths": 0, "defect": None, "wall": time.time() - t0}
    r["wall"] = time.time() - t0
    return r


def pg_configs(tier, seed=0):
    cfgs = []
    props = ("bootstrap", "semi-adapted", "fully-adapted")
    for p in props:
        for w in ("run", "library"):
            cfgs.append((1, 0.2, p, w, 0.5, 1.3, 1, False, seed))
            for outl in (0.0, 0.2):
                for thr in (0.5, 1.0):
                    cfgs.append((2, outl, p, w, thr, 1.3, 1, False, seed))
    # three points: every proposal, run wiring; library wiring for one
    for p in props:
        cfgs.append((3, 0.0, p, "run", 0.5, 0.7, 1, False, seed))
    cfgs.append((3, 0.0, "semi-adapted", "library", 1.0, 1.0, 2, False, seed))
    cfgs.append((3, 0.2, "bootstrap", "run", 0.5, 1.3, 1, False, seed))
    if tier == "thorough":
        for p in props:
            for w in ("run", "library"):
                cfgs.append((3, 0.2, p, w, 0.5, 1.3, 1, False, seed + 1))
                cfgs.append((3, 0.0, p, w, 0.0, 2.5, 2, False, seed + 1))
    return cfgs


def aux_configs(tier, seed=0):
    cfgs = []
    for kind in ("dp", "prg"):
        for n in (2, 3):
            for outl in (0.0, 0.2):
                cfgs.append((kind, n, outl, 1.3, 1, seed))
        cfgs.append((kind, 4, 0.0, 0.8, 1, seed))
        if tier == "thorough":
            cfgs.append((kind, 4, 0.2, 1.7, 2, seed + 1))
    return cfgs


def subtree_configs(tier, seed=0):
    cfgs = [(2, 0.0, "semi-adapted", "run", 0.5, 1.3, 1, True, 0), (3, 0.0, "semi-adapted", "run", 0.5, 1.3, 1, True, 0),
            (2, 0.2, "semi-adapted", "run", 0.5, 1.3, 1, True, 0)]
    if tier == "thorough":
        cfgs += [(3, 0.0, "bootstrap", "run", 0.5, 1.3, 1, True, 0), (3, 0.0, "fully-adapted", "library", 0.5, 1.3, 1, True, 0)]
    return cfgs
