"""Bounded stand-in / native replay for C13 (never counted as proved): the real GammaPriorConcentrationSampler is run with a
spying numpy Generator; the parameters that reach numpy are compared with the West (1992) step, and the two-component mixture
is compared numerically with x^(a+K-2) (x+n) exp(-x (b - log eta)) on a grid of x."""
import math

import numpy as np


class Spy(np.random.Generator):
    def __init__(self, bg):
        super().__init__(bg)
        self.log = []

    def beta(self, *a, **k):
        r = super().beta(*a, **k)
        self.log.append(("beta", [float(np.asarray(x)) for x in a[:2]], float(np.asarray(r))))
        return r

    def standard_gamma(self, *a, **k):
        r = super().standard_gamma(*a, **k)
        self.log.append(("standard_gamma", [float(np.asarray(a[0]))], float(np.asarray(r))))
        return r

    def binomial(self, *a, **k):
        r = super().binomial(*a, **k)
        self.log.append(("binomial", [float(np.asarray(x)) for x in a[:2]], int(np.asarray(r))))
        return r


def run(tier="quick", seed=0):
    from phyclone.mcmc.concentration import GammaPriorConcentrationSampler
    from scipy.stats import gamma as gamma_dist

    problems = []
    cases = 0
    rng0 = np.random.default_rng(seed)
    grid = [(0.01, 0.01), (1.0, 1.0), (2.5, 0.3)]
    for a, b in grid:
        for K, n in ((1, 1), (1, 5), (3, 3), (4, 17), (10, 200)):
            for alpha in (1e-10, 0.3, 1.0, 7.5):
                for rep in range(3 if tier == "quick" else 10):
                    cases += 1
                    spy = Spy(np.random.PCG64(int(rng0.integers(1 << 30))))
                    s = GammaPriorConcentrationSampler(a, b, rng=spy)
                    new = s.sample(alpha, K, n)
                    names = [e[0] for e in spy.log]
                    if names != ["beta", "binomial", "standard_gamma"]:
                        problems.append("a=%s b=%s K=%s n=%s: draws %s" % (a, b, K, n, names))
                        continue
                    (_, (ba, bb), eta), (_, (bn, pi), z), (_, (shape,), g) = spy.log
                    if abs(ba - (alpha + 1)) > 1e-12 or abs(bb - n) > 1e-12:
                        problems.append("auxiliary variable drawn from Beta(%s, %s), expected Beta(%s, %s)" % (ba, bb, alpha + 1, n))
                    rate = b - math.log(eta)
                    sh = a + K - 1
                    w1 = math.exp(math.lgamma(sh + 1) - (sh + 1) * math.log(rate))
                    w2 = n * math.exp(math.lgamma(sh) - sh * math.log(rate))
                    if bn != 1 or abs(pi - w1 / (w1 + w2)) > 1e-9:
                        problems.append("component probability %s, expected %s (a=%s b=%s K=%s n=%s eta=%s)" % (pi, w1 / (w1 + w2), a, b, K, n, eta))
                    if abs(shape - (sh + z)) > 1e-12:
                        problems.append("gamma shape %s, expected %s" % (shape, sh + z))
                    if (g / rate > 1e-300 and abs(new - g / rate) > 1e-9 * abs(new)) or not new > 0:
                        problems.append("new value %s, expected the draw itself, draw/rate = %s (a=%s b=%s K=%s n=%s): the update must sample the mixture of the statement, a floor may only catch underflow" % (new, g / rate, a, b, K, n))
                    # the mixture density equals the target up to a constant
                    xs = np.array([0.05, 0.3, 1.0, 2.7, 9.0]) / max(rate, 1e-3)
                    mix = pi * gamma_dist.pdf(xs, sh + 1, scale=1 / rate) + (1 - pi) * gamma_dist.pdf(xs, sh, scale=1 / rate)
                    target = xs ** (sh - 1) * (xs + n) * np.exp(-xs * rate)
                    ratio = mix / target
                    if np.all(np.isfinite(ratio)) and ratio.max() > 0 and (ratio.max() - ratio.min()) > 1e-7 * ratio.max():
                        problems.append("mixture density not proportional to x^(a+K-2)(x+n)exp(-x rate): ratios %s" % ratio)
            # K = 0: a single draw from the prior
            cases += 1
            spy = Spy(np.random.PCG64(5))
            GammaPriorConcentrationSampler(a, b, rng=spy).sample(1.0, 0, 0)
            if [e[0] for e in spy.log] != ["standard_gamma"] or abs(spy.log[0][1][0] - a) > 1e-12:
                problems.append("K=0: expected one Gamma(a) draw, got %s" % spy.log)
    # generators (PCG64 seeds) for which the raw Gamma(0.01) draw of the K = 1 branch underflows to exactly 0.0: the clamp must still give a usable value
    for seed_ in (1551, 1949, 6369):
        cases += 1
        spy = Spy(np.random.PCG64(seed_))
        v = GammaPriorConcentrationSampler(0.01, 0.01, rng=spy).sample(1.0, 1, 1)
        if not (v > 0 and math.isfinite(math.log(v))):
            problems.append("K=1, PCG64(%d): raw gamma draw %r, new concentration %r (log alpha not finite)" % (seed_, [e for e in spy.log if e[0] == "standard_gamma"][0][2], v))
    # generators for which the Gamma(0.01) prior draw underflows to exactly 0.0 (finding F12): the result must still be a usable concentration
    for seed_ in (1022, 2494, 6536):
        cases += 1
        v = GammaPriorConcentrationSampler(0.01, 0.01, rng=np.random.default_rng(seed_)).sample(1.0, 0, 0)
        if not (v > 0 and math.isfinite(math.log(v))):
            problems.append("K=0, default_rng(%d): new concentration %r (log alpha not finite)" % (seed_, v))
    return {"cases": cases, "problems": problems}


def extraction(tier="quick", seed=0):
    """run.update_concentration_value on real trees: K and n exclude the outliers; the new alpha is used by later evaluations"""
    from phyclone.run import update_concentration_value
    from replay import exact_kernel as EK
    from replay import trees as T

    problems = []
    cases = 0

    class Rec:
        def __init__(self):
            self.calls = []

        def sample(self, old, k, n):
            self.calls.append((old, k, n))
            return 3.25

    for n in (1, 2, 3):
        data = T.make_data(n, dims=1, grid=3, seed=seed, outlier_p=0.2)
        for tree in T.all_trees(data, outliers_allowed=True):
            cases += 1
            td = EK.make_tree_dist(0.8)
            before = td.log_p_one(tree) if tree.get_number_of_nodes() else None
            if tree.get_number_of_nodes():
                td.compute_both_log_p_and_log_p_one(tree)  # every density entry point has been used once under the old value
                td.log_p(tree)
            rec = Rec()
            update_concentration_value(rec, tree, td)
            K = len(tree.nodes)
            nn = sum(len(tree.node_data[v]) for v in tree.nodes)
            if rec.calls != [(0.8, K, nn)]:
                problems.append("%s: sampler called with %s, expected (0.8, %d, %d)" % (T.describe(tree), rec.calls, K, nn))
            if td.prior.alpha != 3.25 or abs(td.prior.log_alpha - math.log(3.25)) > 1e-12:
                problems.append("%s: alpha/log_alpha not refreshed" % T.describe(tree))
            td2 = EK.make_tree_dist(3.25)
            if abs(td.log_p_one(tree) - td2.log_p_one(tree)) > 1e-10 or abs(td.log_p(tree) - td2.log_p(tree)) > 1e-10:
                problems.append("%s: densities after the update differ from a fresh distribution at the new alpha" % T.describe(tree))
            if tree.get_number_of_nodes():
                b1, b2 = td.compute_both_log_p_and_log_p_one(tree), td2.compute_both_log_p_and_log_p_one(tree)
                if abs(b1[0] - b2[0]) > 1e-10 or abs(b1[1] - b2[1]) > 1e-10:
                    problems.append("%s: compute_both_log_p_and_log_p_one after the update differs from a fresh distribution at the new alpha (a value from the old alpha is reused)" % T.describe(tree))
    return {"cases": cases, "problems": problems}
