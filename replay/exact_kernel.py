"""Exact transition matrices of the real sampler moves (bounded stand-in and replay oracle for C01/C04).

For a data set with n points every tree is enumerated; the real `sample_tree` of a sampler is driven from a fresh copy of
every start tree by the enumerating generator, giving the exact kernel P over tree identities.  invariance_defect returns
max_y |(pi P)(y) - pi(y)| for pi(x) proportional to exp(log_p_one(x)).
"""
import numpy as np

from replay.enumrng import explore
from replay import trees as T


def clear_caches():
    from phyclone.utils.dev import clear_proposal_dist_caches

    clear_proposal_dist_caches()


def make_tree_dist(alpha=1.0):
    from phyclone.tree import FSCRPDistribution, TreeJointDistribution

    return TreeJointDistribution(FSCRPDistribution(alpha))


def make_kernel(proposal, tree_dist, rng, outlier_proposal_prob, wiring):
    """wiring 'run': exactly what phyclone.run.setup_kernel builds; 'library': kernel with a permutation distribution."""
    if wiring == "run":
        from phyclone.run import setup_kernel

        k = setup_kernel(1.0 if outlier_proposal_prob > 0 else 0.0, proposal, rng, tree_dist)
        return k
    from phyclone.smc.kernels import BootstrapKernel, FullyAdaptedKernel, SemiAdaptedKernel
    from phyclone.smc.utils import RootPermutationDistribution

    cls = {"bootstrap": BootstrapKernel, "semi-adapted": SemiAdaptedKernel, "fully-adapted": FullyAdaptedKernel}[proposal]
    return cls(tree_dist, rng, outlier_proposal_prob=outlier_proposal_prob, perm_dist=RootPermutationDistribution())


def target(states, tree_dist):
    lp = np.array([tree_dist.log_p_one(t) for t in states], dtype=float)
    if not np.all(np.isfinite(lp)):
        raise ValueError("non-finite log_p_one among enumerated states")
    w = np.exp(lp - lp.max())
    return w / w.sum()


def transition_matrix(states, move, allow_exceptions=False):
    """move(tree_copy, rng) -> tree.  Returns (P, n_paths, exceptions)."""
    index = {T.tree_key(t): i for i, t in enumerate(states)}
    P = np.zeros((len(states), len(states)))
    n_paths = 0
    excs = []
    escaped = []
    for i, start in enumerate(states):
        def run(rng, start=start):
            clear_caches()
            return move(start.copy(), rng)

        try:
            for prob, res, _ in explore(run):
                n_paths += 1
                key = T.tree_key(res)
                if key not in index:
                    escaped.append((T.describe(start), T.key_str(key)))
                    continue
                P[i, index[key]] += prob
        except Exception as e:  # noqa
            if not allow_exceptions:
                raise
            excs.append((T.describe(start), repr(e)))
    return P, n_paths, excs, escaped


def invariance_defect(states, P, pi):
    out = pi @ P
    d = np.abs(out - pi)
    j = int(np.argmax(d))
    return float(d[j]), j


def pg_move_after_alpha_change(proposal, tree_dist, num_particles, resample_threshold, outlier_proposal_prob, alpha_before, warmup_tree):
    """the sampler stack of a run (one kernel, one distribution object): one update at alpha_before, then the concentration is
    changed IN PLACE (run.update_concentration_value) and the kernel at the new value must be exactly invariant"""
    from phyclone.mcmc.particle_gibbs import ParticleGibbsTreeSampler
    import numpy as np

    alpha_after = tree_dist.prior.alpha
    kernel = make_kernel(proposal, tree_dist, np.random.default_rng(5), outlier_proposal_prob, "run")
    sampler = ParticleGibbsTreeSampler(kernel, kernel.rng, num_particles=num_particles, resample_threshold=resample_threshold)
    tree_dist.prior.alpha = alpha_before
    clear_caches()
    sampler.sample_tree(warmup_tree.copy())
    tree_dist.compute_both_log_p_and_log_p_one(warmup_tree)
    tree_dist.prior.alpha = alpha_after

    def move(tree, rng):
        kernel._rng = rng
        sampler._rng = rng
        return sampler.sample_tree(tree)

    return move


def pg_move(proposal, wiring, tree_dist, num_particles, resample_threshold, outlier_proposal_prob, subtree=False):
    from phyclone.mcmc.particle_gibbs import ParticleGibbsSubtreeSampler, ParticleGibbsTreeSampler

    def move(tree, rng):
        kernel = make_kernel(proposal, tree_dist, rng, outlier_proposal_prob, wiring)
        cls = ParticleGibbsSubtreeSampler if subtree else ParticleGibbsTreeSampler
        sampler = cls(kernel, rng, num_particles=num_particles, resample_threshold=resample_threshold)
        return sampler.sample_tree(tree)

    return move


def dp_move(tree_dist, outliers):
    """one long-lived sampler object for every start tree and every path (as in a run): state kept across calls is exercised"""
    from phyclone.mcmc.gibbs_mh import DataPointSampler

    sampler = DataPointSampler(tree_dist, None, outliers=outliers)

    def move(tree, rng):
        sampler._rng = rng
        t = tree.copy()
        t.relabel_nodes()  # trees reach the move relabelled, exactly as in the run loop
        return sampler.sample_tree(t)

    return move


def prg_move(tree_dist):
    from phyclone.mcmc.gibbs_mh import PruneRegraphSampler

    sampler = PruneRegraphSampler(tree_dist, None)

    def move(tree, rng):
        sampler._rng = rng
        return sampler.sample_tree(tree)

    return move


def check_move(name, move, data, tree_dist, outliers, tol=1e-9):
    """Returns dict(defect, n_states, n_paths, worst_state, row_sum_err)."""
    states = T.all_trees(data, outliers_allowed=outliers)
    pi = target(states, tree_dist)
    P, n_paths, excs, escaped = transition_matrix(states, move)
    row_err = float(np.abs(P.sum(axis=1) - 1).max())
    defect, j = invariance_defect(states, P, pi)
    return {
        "move": name, "n_states": len(states), "n_paths": n_paths, "defect": defect, "worst_state": T.describe(states[j]),
        "row_sum_err": row_err, "escaped": escaped[:3], "ok": defect <= tol and row_err <= 1e-9 and not escaped,
    }
