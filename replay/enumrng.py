"""Enumerating stand-in for numpy.random.Generator.

explore(fn) runs fn(rng) once per outcome class of the random draws inside fn (re-execution DFS) and yields
(probability, result) pairs whose probabilities sum to one.  Supported draws: random() compared with thresholds,
integers, choice (single / k without replacement, as a set), shuffle, multinomial(1, q), multinomial(n, w).
"""
import itertools
import math
from fractions import Fraction

import numpy as np


class _Replay(Exception):
    pass


class UVar(float):
    """A uniform(0,1) draw that forks when it is compared with a threshold."""

    def __new__(cls, rng):
        obj = float.__new__(cls, 0.5)
        return obj

    def __init__(self, rng):
        self._rng = rng
        self.lo = 0.0
        self.hi = 1.0

    def _cmp_lt(self, c):
        c = float(c)
        if c <= self.lo:
            return False
        if c >= self.hi:
            return True
        width = self.hi - self.lo
        k = self._rng._decide([(c - self.lo) / width, (self.hi - c) / width])
        if k == 0:
            self.hi = c
            return True
        self.lo = c
        return False

    def __lt__(self, c):
        return self._cmp_lt(c)

    def __le__(self, c):
        return self._cmp_lt(c)

    def __gt__(self, c):
        return not self._cmp_lt(c)

    def __ge__(self, c):
        return not self._cmp_lt(c)


class EnumRNG:
    def __init__(self, script):
        self.script = list(script)
        self.pos = 0
        self.prob = 1.0
        self.trail = []  # (choice, n_alternatives)
        self.draws = []  # log of primitive names (for effect checks)

    # ---------------------------------------------------------------- core decision
    def _decide(self, probs):
        """probs: list of outcome probabilities (zero-probability outcomes are skipped)."""
        alts = [i for i, p in enumerate(probs) if p > 0]
        if not alts:
            raise ValueError("no outcome with positive probability")
        if self.pos < len(self.script):
            j = self.script[self.pos]
        else:
            j = 0
        self.pos += 1
        self.trail.append((j, len(alts)))
        i = alts[j]
        self.prob *= probs[i]
        return i

    # ---------------------------------------------------------------- Generator API subset
    def random(self, size=None):
        assert size is None
        self.draws.append("random")
        return UVar(self)

    def integers(self, low, high=None, size=None):
        assert size is None
        if high is None:
            low, high = 0, low
        n = int(high) - int(low)
        if n <= 0:
            raise ValueError("low >= high")
        self.draws.append("integers")
        return int(low) + self._decide([1.0 / n] * n)

    def choice(self, a, size=None, replace=True, p=None):
        assert p is None
        if isinstance(a, (int, np.integer)):
            a = list(range(int(a)))
        a = list(a)
        self.draws.append("choice")
        if size is None:
            if len(a) == 0:
                raise ValueError("a cannot be empty unless no samples are taken")
            return a[self._decide([1.0 / len(a)] * len(a))]
        k = int(size)
        if replace:
            # k independent uniform picks (numpy: an empty result for k == 0, an error for an empty population with k > 0)
            if k > 0 and len(a) == 0:
                raise ValueError("a cannot be empty unless no samples are taken")
            picks = [a[self._decide([1.0 / len(a)] * len(a))] for _ in range(k)]
            return np.array(picks, dtype=np.asarray(a).dtype if len(a) else float)
        if k > len(a):
            raise ValueError("Cannot take a larger sample than population when replace is False")
        combos = list(itertools.combinations(a, k))
        c = combos[self._decide([1.0 / len(combos)] * len(combos))]
        return np.array(list(c), dtype=np.asarray(a).dtype if len(a) else float)

    def shuffle(self, x):
        n = len(x)
        self.draws.append("shuffle")
        if n <= 1:
            return
        items = list(x)
        if all(isinstance(i, (int, np.integer, str)) for i in items):
            # multiset permutations: identical sentinels are interchangeable
            perms = sorted(set(itertools.permutations(items)))
            counts = {}
            for it in items:
                counts[it] = counts.get(it, 0) + 1
            mult = 1
            for c in counts.values():
                mult *= math.factorial(c)
            pr = mult / math.factorial(n)
            perm = perms[self._decide([pr] * len(perms))]
        else:
            perms = list(itertools.permutations(range(n)))
            idx = perms[self._decide([1.0 / len(perms)] * len(perms))]
            perm = [items[i] for i in idx]
        for i in range(n):
            x[i] = perm[i]

    def multinomial(self, n, pvals, size=None):
        assert size is None
        p = np.asarray(pvals, dtype=float)
        self.draws.append("multinomial")
        k = len(p)
        n = int(n)
        if n < 0:
            raise ValueError("n < 0")
        if k == 0:
            return np.zeros(0, dtype=int)
        if abs(p.sum() - 1.0) > 1e-8 and p[:-1].sum() > 1.0 + 1e-12:
            raise ValueError("sum(pvals[:-1]) > 1.0")
        if n == 0:
            return np.zeros(k, dtype=int)
        # numpy semantics: last entry takes the remaining mass
        q = p.copy()
        q[-1] = max(0.0, 1.0 - p[:-1].sum())
        if n == 1:
            i = self._decide(list(q))
            out = np.zeros(k, dtype=int)
            out[i] = 1
            return out
        comps = [c for c in _compositions(n, k)]
        probs = []
        for c in comps:
            coef = math.factorial(n)
            pr = 1.0
            for ci, qi in zip(c, q):
                coef //= math.factorial(ci)
                pr *= qi ** ci
            probs.append(coef * pr)
        c = comps[self._decide(probs)]
        return np.array(c, dtype=int)


def _compositions(n, k):
    if k == 1:
        yield (n,)
        return
    for i in range(n + 1):
        for rest in _compositions(n - i, k - 1):
            yield (i,) + rest


def explore(fn, max_paths=2_000_000):
    """Yield (prob, result, rng) for every outcome path of fn(rng)."""
    stack = [[]]
    n = 0
    while stack:
        script = stack.pop()
        rng = EnumRNG(script)
        result = fn(rng)
        n += 1
        if n > max_paths:
            raise RuntimeError("too many paths")
        # schedule the alternatives of every decision taken beyond the scripted prefix
        for depth in range(len(script), len(rng.trail)):
            choice, n_alt = rng.trail[depth]
            prefix = [c for c, _ in rng.trail[:depth]]
            for alt in range(choice + 1, n_alt):
                stack.append(prefix + [alt])
        yield rng.prob, result, rng
