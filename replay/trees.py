"""Enumeration of all phyclone trees over a small data set, and small synthetic data sets (real DataPoint / Tree objects)."""
import itertools
import math

import numpy as np


def make_data(n, dims=1, grid=5, seed=0, outlier_p=0.0, spread=3.0):
    """n real DataPoints with random log-likelihood grids. outlier_p>0 switches outlier modelling on."""
    from phyclone.data.base import DataPoint

    rng = np.random.default_rng(1000 + seed)
    data = []
    for i in range(n):
        value = rng.normal(0.0, spread, size=(dims, grid))
        if outlier_p > 0:
            dp = DataPoint(i, value, outlier_prob=float(np.log(outlier_p)), outlier_prob_not=float(np.log1p(-outlier_p)))
        else:
            dp = DataPoint(i, value)
        data.append(dp)
    return data


def set_partitions(items):
    items = list(items)
    if not items:
        yield []
        return
    first, rest = items[0], items[1:]
    for part in set_partitions(rest):
        for i in range(len(part)):
            yield part[:i] + [[first] + part[i]] + part[i + 1:]
        yield [[first]] + part


def forests(k):
    """All parent functions on k labelled blocks: parent[i] in {-1 (top level), 0..k-1}, acyclic."""
    for parent in itertools.product(range(-1, k), repeat=k):
        ok = True
        for i in range(k):
            seen = set()
            j = i
            while j != -1:
                if j in seen:
                    ok = False
                    break
                seen.add(j)
                j = parent[j]
            if not ok:
                break
        if ok:
            yield parent


def build_tree(data, blocks, parent, outliers=()):
    """Build a real Tree: blocks = list of lists of data idx, parent = parent function over blocks."""
    from phyclone.tree import Tree

    tree = Tree(data[0].grid_size)
    k = len(blocks)
    children = {i: [j for j in range(k) if parent[j] == i] for i in range(-1, k)}
    name = {}

    def build(i):
        for c in children[i]:
            build(c)
        node = tree.create_root_node(children=[name[c] for c in children[i]], data=[data[d] for d in blocks[i]])
        name[i] = node

    for r in children[-1]:
        build(r)
    for d in outliers:
        tree.add_data_point_to_outliers(data[d])
    return tree


def all_trees(data, outliers_allowed=False, max_outliers=None):
    """Every distinct tree (clades, outliers) over the data; all points placed."""
    n = len(data)
    idx = list(range(n))
    seen = {}
    out_sets = [()]
    if outliers_allowed:
        out_sets = []
        for r in range(0, n + 1):
            if max_outliers is not None and r > max_outliers:
                break
            out_sets.extend(itertools.combinations(idx, r))
    for outs in out_sets:
        rest = [i for i in idx if i not in outs]
        for blocks in set_partitions(rest):
            for parent in forests(len(blocks)):
                t = build_tree(data, blocks, parent, outs)
                key = tree_key(t)
                if key not in seen:
                    seen[key] = t
    return list(seen.values())


def tree_key(tree):
    return (frozenset(tree.get_clades()), frozenset(dp.idx for dp in tree.outliers))


def key_str(key):
    clades, outs = key
    return "clades=%s outliers=%s" % (sorted(sorted(c) for c in clades), sorted(outs))


def describe(tree):
    return key_str(tree_key(tree))
