"""Native replay oracles: when a deductive obligation of a function is refuted, the function named here is run NATIVELY (the real code, real numpy /
networkx objects) on the counter-model's values where they make sense and on a small battery of concrete inputs, against an independent statement of
what it must return. A discrepancy is the failing input that goes into the replay file; if the native run agrees everywhere the VIOLATION line keeps
its `no-failing-input-found` suffix.  (Bounded and per-function: a convenience for replay, never counted as evidence that a property holds.)"""
import itertools
import math

import numpy as np


def _num(model, key, default):
    try:
        v = model.get(key)
        if v is None:
            return default
        if "/" in str(v):
            a, b = str(v).split("/")
            return float(a) / float(b)
        return float(v)
    except Exception:  # noqa
        return default


def _rng():
    return np.random.default_rng(12345)


def o_log_D_n(model):
    from phyclone.process_trace.map import _compute_log_D_n

    rng = _rng()
    for G in (1, 2, 3, 5):
        for _ in range(6):
            child, prev = rng.normal(size=G), rng.normal(size=G)
            if G > 2:
                child[1] = child[2]  # ties
            choice, res = _compute_log_D_n(child.copy(), prev.copy())
            for i in range(G):
                best = max(child[j] + prev[i - j] for j in range(i + 1))
                c = int(choice[i])
                if not (0 <= c <= i) or abs(res[i] - best) > 1e-12 or abs(child[c] + prev[i - c] - best) > 1e-12:
                    return {"reproduced": True, "input": {"child": child.tolist(), "prev": prev.tolist(), "i": i}, "got": {"result": float(res[i]), "choice": c}, "expected_max": best}
    return {"reproduced": False, "note": "max-plus convolution agrees with brute force on 24 random inputs (G <= 5, ties)"}


def o_map_log_S(model):
    from phyclone.process_trace.map import compute_log_S

    rng = _rng()
    for D, G, n in ((1, 3, 1), (2, 4, 2), (1, 4, 3)):
        for _ in range(4):
            kids = [rng.normal(size=(D, G)) for _ in range(n)]
            _, s_choice, log_S = compute_log_S([k.copy() for k in kids])
            # brute force: max over index tuples summing to <= j
            for d in range(D):
                for j in range(G):
                    best = max(sum(kids[c][d, t[c]] for c in range(n)) for t in itertools.product(range(G), repeat=n) if sum(t) <= j)
                    if abs(log_S[d, j] - best) > 1e-10 or not (0 <= s_choice[d, j] <= j):
                        return {"reproduced": True, "input": {"children": [k.tolist() for k in kids], "d": d, "j": j}, "got": float(log_S[d, j]), "expected": best}
    return {"reproduced": False, "note": "running maximum of the max-plus fold agrees with brute force"}


def o_threshold(model):
    from phyclone.process_trace.consensus import key_above_threshold

    thr = _num(model, "threshold", 0.5)
    cases = [(thr, thr), (thr + 0.1, thr), (thr - 0.1, thr), (0.5, 0.5), (0.75, 0.5), (1.0, 1.0)]
    for s, t in cases:
        got = key_above_threshold({"k": s}, t)
        want = {"k"} if s > t else set()
        if set(got) != want:
            return {"reproduced": True, "input": {"counter": {"k": s}, "threshold": t}, "got": sorted(got), "expected": sorted(want)}
    return {"reproduced": False, "note": "strict threshold on the replayed values"}


def o_superset(model):
    from phyclone.process_trace.consensus import find_smallest_superset

    fs = frozenset
    cases = [({fs([1, 2]), fs([1, 2, 3]), fs([1])}, fs([1]), fs([1, 2])), ({fs([1])}, fs([1]), None), ({fs([2, 3]), fs([1])}, fs([1]), None),
             ({fs([1, 2, 3, 4]), fs([1, 2, 3]), fs([5])}, fs([1, 2]), fs([1, 2, 3]))]
    for sets, q, want in cases:
        try:
            got = find_smallest_superset(set(sets), q)
        except Exception as e:  # noqa
            return {"reproduced": True, "input": {"sets": [sorted(x) for x in sets], "query": sorted(q)}, "got": repr(e), "expected": None if want is None else sorted(want)}
        if got != want:
            return {"reproduced": True, "input": {"sets": [sorted(x) for x in sets], "query": sorted(q)}, "got": None if got is None else sorted(got), "expected": None if want is None else sorted(want)}
    return {"reproduced": False, "note": "smallest strict superset on 4 nested families"}


def o_count_topology(model):
    from phyclone.process_trace.process_trace import count_topology

    class T:
        multiplicity = 0.0

        def __init__(self, k):
            self.k = k

        def __hash__(self):
            return hash(self.k)

        def __eq__(self, o):
            return self.k == o.k

    entries = [(0, 0, "a", -3.0), (0, 1, "b", -1.0), (1, 0, "a", -2.0), (1, 1, "a", -2.5), (2, 0, "b", -1.0), (2, 1, "a", -2.0)]
    topo = {}
    for c, i, k, lp in entries:
        count_topology(topo, {"log_p_one": lp}, i, T(k), c)
    for k in ("a", "b"):
        mine = [(c, i, lp) for c, i, kk, lp in entries if kk == k]
        rec = topo[T(k)]
        mx = max(lp for _, _, lp in mine)
        ptr = [(c, i) for c, i, lp in mine if lp == mx]
        if rec["count"] != len(mine) or rec["log_p_joint_max"] != mx or (rec["chain_num"], rec["iter"]) not in ptr:
            return {"reproduced": True, "input": {"entries (chain, iter, tree, log_p_one)": entries, "tree": k}, "got": {x: rec[x] for x in ("count", "log_p_joint_max", "iter", "chain_num")},
                    "expected": {"count": len(mine), "max": mx, "pointer in": ptr}}
    return {"reproduced": False, "note": "count / maximum / pointer on a 3-chain trace with ties"}


def o_interleave(model):
    from phyclone.smc.utils import interleave_lists

    for seed in range(20):
        rng = np.random.default_rng(seed)
        lists = [[("a", i) for i in range(3)], [("b", i) for i in range(2)], [], [("d", 0)]]
        want = sorted(x for l in lists for x in l)
        out = interleave_lists([list(l) for l in lists], rng)
        ok = sorted(out) == want and all([x for x in out if x[0] == t] == sorted(x for x in out if x[0] == t) for t in "abd")
        if not ok:
            return {"reproduced": True, "input": {"lists": lists, "seed": seed}, "got": out, "expected": "an interleaving that keeps every list's own order and uses every element once"}
    return {"reproduced": False, "note": "order-preserving interleavings on 20 seeds"}


def o_cn_prior(model):
    from phyclone.data.pyclone import get_major_cn_prior

    for major, minor, normal, err in ((1, 0, 2, 1e-3), (2, 0, 2, 1e-3), (2, 1, 2, 1e-3), (3, 1, 2, 0.01), (1, 1, 1, 1e-3), (3, 0, 1, 0.2)):
        cn, mu, log_pi = get_major_cn_prior(major, minor, normal, error_rate=err)
        total = major + minor
        for x in range(1, major + 1):
            row = mu[x - 1]
            want = (err, err, min(1 - err, x / total))
            if any(abs(a - b) > 1e-15 for a, b in zip(row, want)):
                return {"reproduced": True, "input": {"major_cn": major, "minor_cn": minor, "normal_cn": normal, "error_rate": err, "x": x}, "got": [float(v) for v in row], "expected": list(want)}
        if abs(np.exp(log_pi).sum() - 1) > 1e-12 or len(set(np.round(log_pi, 12))) != 1:
            return {"reproduced": True, "input": {"major_cn": major, "minor_cn": minor}, "got": log_pi.tolist(), "expected": "uniform normalised prior over the genotypes"}
    return {"reproduced": False, "note": "allele probabilities min(1 - e, x / total) and a uniform prior on 6 copy-number settings"}


def o_log_count(model):
    from bounded import orders as BO

    for R, n_out in ((1, 0), (2, 0), (1, 2), (2, 1)):
        r = BO.replay_case(R, n_out, K=R + 1)
        if r["problems"]:
            return {"reproduced": True, "tree": r["tree"], "problems": r["problems"]}
    return {"reproduced": False, "note": "log_count agrees with brute force on the replayed trees"}


ORACLES = {
    "phyclone.process_trace.map._compute_log_D_n": o_log_D_n,
    "phyclone.process_trace.map.compute_log_S": o_map_log_S,
    "phyclone.process_trace.consensus.key_above_threshold": o_threshold,
    "phyclone.process_trace.consensus.find_smallest_superset": o_superset,
    "phyclone.process_trace.process_trace.count_topology": o_count_topology,
    "phyclone.smc.utils.interleave_lists": o_interleave,
    "phyclone.data.pyclone.get_major_cn_prior": o_cn_prior,
    "phyclone.smc.utils.RootPermutationDistribution.log_count": o_log_count,
}


def for_functions(quals):
    """a concretiser (name, model) -> report for dsl.verify, or None when no oracle is registered for these functions"""
    fs = [ORACLES[q] for q in quals if q in ORACLES]
    if not fs:
        return None

    def concretise(name, model):
        last = None
        for f in fs:
            rep = f(model or {})
            if rep.get("reproduced"):
                rep["native_oracle"] = f.__name__
                return rep
            last = rep
        return last

    return concretise


# ----------------------------------------------------------------------------------------------------------- tree layer


def _tree_and_data(n=4, dims=2, grid=5, seed=2):
    from replay import trees as T

    data = T.make_data(n, dims=dims, grid=grid, seed=seed)
    tree = T.build_tree(data, [[0], [1], [2, 3]], (-1, 0, 0))
    return tree, data, T


def o_tree_copy(model):
    tree, data, T = _tree_and_data()
    c = tree.copy()
    shared = []
    if c._graph is tree._graph or c._data is tree._data or c._node_indices is tree._node_indices or c._node_indices_rev is tree._node_indices_rev:
        shared.append("a container is shared")
    for k in tree._data:
        if c._data[k] is tree._data[k]:
            shared.append("data list of %r is shared" % (k,))
    for i in tree._graph.node_indices():
        a, b = tree._graph[i], c._graph[i]
        if a is b or a.log_p is b.log_p or a.log_r is b.log_r or a.data_points is b.data_points:
            shared.append("TreeNode at index %d is shared" % i)
    if shared:
        return {"reproduced": True, "input": "copy() of " + T.describe(tree), "problems": shared[:4]}
    return {"reproduced": False, "note": "copy() shares no container, list or TreeNode on a 3-clone tree"}


def o_to_from_dict(model):
    from phyclone.tree import Tree

    tree, data, T = _tree_and_data()
    d = tree.to_dict()
    problems = []
    if d["node_idx"] is tree._node_indices or d["node_idx_rev"] is tree._node_indices_rev:
        problems.append("to_dict shares an index map with the tree")
    for k, v in d["node_data"].items():
        if v is tree._data[k]:
            problems.append("to_dict shares the data list of %r" % (k,))
    t2 = Tree.from_dict(d)
    if t2._node_indices is d["node_idx"] or t2._node_indices_rev is d["node_idx_rev"]:
        problems.append("from_dict shares an index map with the dictionary")
    for k, v in d["node_data"].items():
        if k in t2._data and t2._data[k] is v:
            problems.append("from_dict shares the data list of %r with the dictionary" % (k,))
    if T.tree_key(t2) != T.tree_key(tree):
        problems.append("restored tree differs: %s vs %s" % (T.describe(t2), T.describe(tree)))
    for i in tree._graph.node_indices():
        if not np.allclose(tree._graph[i].log_r, t2._graph[i].log_r) or not np.allclose(tree._graph[i].log_p, t2._graph[i].log_p):
            problems.append("node at index %d has different vectors after the round trip" % i)
    if problems:
        return {"reproduced": True, "input": "to_dict / from_dict of " + T.describe(tree), "problems": problems[:4]}
    return {"reproduced": False, "note": "dictionary round trip restores the tree and shares nothing"}


def o_path_update(model):
    from phyclone.tree import Tree

    tree, data, T = _tree_and_data()
    # the clone holding data point 1 is a child of the clone holding data point 0: the update must visit it, its parent, the root, in this order
    leaf = tree.labels[1]
    want = [leaf]
    while want[-1] != "root":
        want.append(tree.get_parent(want[-1]))
    calls = []
    orig = Tree._update_node

    def spy(self, idx):
        calls.append(self._node_indices_rev[idx])
        return orig(self, idx)

    Tree._update_node = spy
    try:
        tree._update_path_to_root(leaf)
    finally:
        Tree._update_node = orig
    if calls != want or len(want) != 3:
        return {"reproduced": True, "input": "_update_path_to_root(%r) on %s" % (leaf, T.describe(tree)), "got": calls, "expected": want}
    return {"reproduced": False, "note": "bottom-up order on a 3-clone tree"}


def o_node_add_remove(model):
    from phyclone.tree.tree_node import TreeNode

    tree, data, T = _tree_and_data()
    G = data[0].value.shape
    node = TreeNode(G, -1.5, 3)
    p0, r0 = node.log_p.copy(), node.log_r.copy()
    node.add_data_point(data[0])
    problems = []
    if not np.array_equal(node.log_p, p0 + data[0].value) or not np.array_equal(node.log_r, r0 + data[0].value):
        problems.append("add_data_point must add the grid to log_p and to log_r")
    node.add_data_point_list([data[1], data[2]])
    if not np.allclose(node.log_p, p0 + data[0].value + data[1].value + data[2].value) or not np.allclose(node.log_r, r0 + data[0].value + data[1].value + data[2].value):
        problems.append("add_data_point_list must add every grid to log_p and to log_r")
    r1 = node.log_r.copy()
    node.remove_data_point(data[1])
    if not np.allclose(node.log_p, p0 + data[0].value + data[2].value) or not np.array_equal(node.log_r, r1):
        problems.append("remove_data_point must subtract from log_p and leave log_r alone")
    if node.data_points != {data[0].idx, data[2].idx}:
        problems.append("index set is %s" % sorted(node.data_points))
    if problems:
        return {"reproduced": True, "input": "TreeNode edits with three data points", "problems": problems}
    return {"reproduced": False, "note": "node-level edits on concrete grids"}


def o_subtree_surgery(model):
    tree, data, T = _tree_and_data()
    key0 = T.tree_key(tree)
    problems = []
    top = tree.labels[0]  # the top-level clone (holds data point 0, parent of the two others)
    sub = tree.get_subtree(top)
    for i in sub._graph.node_indices():
        name = sub._node_indices_rev[i]
        if name != "root" and sub._graph[i] is tree._graph[tree._node_indices[name]]:
            problems.append("get_subtree shares the TreeNode of %r" % (name,))
        if name in tree._data and sub._data[name] is tree._data[name]:
            problems.append("get_subtree shares the data list of %r" % (name,))
    if T.tree_key(tree) != key0:
        problems.append("get_subtree changed the source tree")
    pruned = tree.copy()
    pruned.remove_subtree(sub)
    if set(pruned._node_indices) - {"root"} or set(k for k in pruned._data if k not in ("root", -1)):
        problems.append("remove_subtree left names %s / data keys %s behind" % (sorted(map(str, pruned._node_indices)), sorted(map(str, pruned._data))))
    if set(pruned._node_indices_rev.values()) != set(pruned._node_indices):
        problems.append("index maps disagree after remove_subtree")
    pruned.add_subtree(sub)
    pruned.update()
    if T.tree_key(pruned) != key0:
        problems.append("prune + regraft under the root gives %s, expected %s" % (T.describe(pruned), T.describe(tree)))
    if not np.allclose(pruned.data_log_likelihood, tree.data_log_likelihood):
        problems.append("likelihood differs after prune + regraft")
    for i in pruned._graph.node_indices():
        name = pruned._node_indices_rev[i]
        if name != "root" and any(pruned._graph[i] is sub._graph[j] for j in sub._graph.node_indices()):
            problems.append("add_subtree shares the TreeNode of %r with the subtree handed in" % (name,))
    if problems:
        return {"reproduced": True, "input": "get_subtree / remove_subtree / add_subtree on " + T.describe(tree), "problems": problems[:4]}
    return {"reproduced": False, "note": "subtree surgery on a 3-clone tree"}


def o_create_root_node(model):
    from phyclone.tree import Tree
    from replay import trees as T

    data = T.make_data(3, dims=1, grid=4, seed=1)
    t = Tree(data[0].grid_size)
    a = t.create_root_node(children=[], data=[data[0]])
    b = t.create_root_node(children=[], data=[data[1]])
    c = t.create_root_node(children=[a, b], data=[data[2]])
    problems = []
    if sorted(t.roots) != [c] or sorted(t.get_children(c)) != sorted([a, b]) or t.get_parent(a) != c or t.get_parent(c) != "root":
        problems.append("shape after create_root_node(children=[a, b]): roots %s children %s" % (t.roots, t.get_children(c)))
    if len({a, b, c}) != 3 or set(t._node_indices) != {"root", a, b, c} or any(t._node_indices_rev[t._node_indices[k]] != k for k in t._node_indices):
        problems.append("names / index maps inconsistent: %s" % (t._node_indices,))
    ref = T.build_tree(data, [[2], [0], [1]], (-1, 0, 0))
    if not np.allclose(t.data_log_likelihood, ref.data_log_likelihood):
        problems.append("likelihood differs from a tree of the same shape built in another order (stale recursion values)")
    if problems:
        return {"reproduced": True, "input": "three create_root_node calls", "problems": problems}
    return {"reproduced": False, "note": "create_root_node above two top-level clones"}


def o_clades(model):
    from phyclone.tree.utils import get_clades

    tree, data, T = _tree_and_data()
    want = {frozenset([0, 1, 2, 3]), frozenset([1]), frozenset([2, 3])}
    got1, got2 = set(get_clades(tree)), set(tree.get_clades())
    if got1 != want or got2 != want:
        return {"reproduced": True, "input": T.describe(tree), "got": {"utils.get_clades": sorted(map(sorted, got1)), "Tree.get_clades": sorted(map(sorted, got2))}, "expected": sorted(map(sorted, want))}
    t2 = tree.copy()
    t2.relabel_nodes()
    if hash(t2) != hash(tree) or not (t2 == tree):
        return {"reproduced": True, "input": T.describe(tree), "got": "relabelled copy compares different / hashes differently"}
    return {"reproduced": False, "note": "clades, equality and hash on a 3-clone tree"}


def o_datapoint_marginal(model):
    from phyclone.data.base import DataPoint

    rng = _rng()
    v = rng.normal(size=(2, 5))
    dp = DataPoint(0, v.copy())
    G = 5
    want = sum(math.log(sum(sum(math.exp(v[d, j]) for j in range(k + 1)) for k in range(G)) / G ** 2) for d in range(2))
    if abs(dp.outlier_marginal_prob - want) > 1e-10 or not np.array_equal(dp.value, v):
        return {"reproduced": True, "input": {"value": v.tolist()}, "got": float(dp.outlier_marginal_prob), "expected": want}
    return {"reproduced": False, "note": "outlier marginal of a 2 x 5 grid"}


def o_grid(model):
    from phyclone.data.pyclone import load_data

    import os
    import tempfile

    tmp = tempfile.mkdtemp(prefix="verif_or_")
    try:
        f = os.path.join(tmp, "in.tsv")
        rows = [("b", "S2", 10, 5, 2, 1, 2), ("a", "S1", 20, 2, 1, 1, 2), ("b", "S1", 12, 7, 2, 1, 2), ("a", "S2", 25, 1, 1, 1, 2)]
        open(f, "w").write("mutation_id\tsample_id\tref_counts\talt_counts\tmajor_cn\tminor_cn\tnormal_cn\n" + "".join("\t".join(map(str, r)) + "\n" for r in rows))
        import contextlib
        import io

        with contextlib.redirect_stdout(io.StringIO()):
            data, samples = load_data(f, np.random.default_rng(0), 0.0001, 0.4, False, density="binomial", grid_size=11, outlier_prob=0.0, precision=400)
        f2 = os.path.join(tmp, "in2.tsv")
        open(f2, "w").write("mutation_id\tsample_id\tref_counts\talt_counts\tmajor_cn\tminor_cn\tnormal_cn\n" + "".join("\t".join(map(str, r)) + "\n" for r in reversed(rows)))
        with contextlib.redirect_stdout(io.StringIO()):
            data2, samples2 = load_data(f2, np.random.default_rng(0), 0.0001, 0.4, False, density="binomial", grid_size=11, outlier_prob=0.0, precision=400)
        problems = []
        if list(samples) != ["S1", "S2"] or [d.name for d in data] != ["a", "b"] or [d.idx for d in data] != [0, 1]:
            problems.append("samples %s names %s idx %s" % (samples, [d.name for d in data], [d.idx for d in data]))
        for x, y in zip(data, data2):
            if x.name != y.name or not np.array_equal(x.value, y.value):
                problems.append("data point %s depends on the row order" % x.name)
        if data[0].value.shape != (2, 11) or not np.all(np.isfinite(data[0].value)):
            problems.append("grid of %s has shape %s / non-finite entries" % (data[0].name, data[0].value.shape))
        if problems:
            return {"reproduced": True, "input": {"rows": rows}, "problems": problems}
    finally:
        import shutil

        shutil.rmtree(tmp, ignore_errors=True)
    return {"reproduced": False, "note": "two mutations x two samples loaded in two row orders"}


ORACLES.update({
    "phyclone.tree.tree.Tree.copy": o_tree_copy,
    "phyclone.tree.tree.Tree.to_dict": o_to_from_dict,
    "phyclone.tree.tree.Tree.from_dict": o_to_from_dict,
    "phyclone.tree.tree.Tree._update_path_to_root": o_path_update,
    "phyclone.tree.tree_node.TreeNode.add_data_point": o_node_add_remove,
    "phyclone.tree.tree_node.TreeNode.add_data_point_list": o_node_add_remove,
    "phyclone.tree.tree.Tree.get_subtree": o_subtree_surgery,
    "phyclone.tree.tree.Tree.remove_subtree": o_subtree_surgery,
    "phyclone.tree.tree.Tree.add_subtree": o_subtree_surgery,
    "phyclone.tree.tree.Tree._relabel_grafted_subtree_nodes": o_subtree_surgery,
    "phyclone.tree.tree.Tree.create_root_node": o_create_root_node,
    "phyclone.tree.utils._clades": o_clades,
    "phyclone.tree.utils.get_clades": o_clades,
    "phyclone.tree.tree.Tree.get_clades": o_clades,
    "phyclone.tree.tree.Tree.__eq__": o_clades,
    "phyclone.tree.visitors.GraphToCladesVisitor.discover_vertex": o_clades,
    "phyclone.data.base.DataPoint.__init__": o_datapoint_marginal,
    "phyclone.data.pyclone.load_data": o_grid,
    "phyclone.data.pyclone._create_loaded_pyclone_data_dict": o_grid,
    "phyclone.data.pyclone._compute_liklihood_grid": o_grid,
})
