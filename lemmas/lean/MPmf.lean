import Mathlib.Algebra.BigOperators.Group.Finset.Basic
import Mathlib.Data.Nat.Choose.Sum
import Mathlib.Data.Real.Basic
import Mathlib.Tactic
open Finset

/-- M-PMF, binomial half (C05): the binomial pmf summed over all alternate counts x = 0..n is one, for every success
    probability (in particular for every expected allele fraction the mixture can produce). -/
theorem binomial_pmf_sum_one (p : ℝ) (n : ℕ) :
    ∑ x ∈ Finset.range (n + 1), (n.choose x : ℝ) * p ^ x * (1 - p) ^ (n - x) = 1 := by
  have h := add_pow p (1 - p) n
  have h1 : p + (1 - p) = 1 := by ring
  rw [h1, one_pow] at h
  calc ∑ x ∈ Finset.range (n + 1), (n.choose x : ℝ) * p ^ x * (1 - p) ^ (n - x)
      = ∑ m ∈ Finset.range (n + 1), p ^ m * (1 - p) ^ (n - m) * (n.choose m : ℝ) := by
        apply Finset.sum_congr rfl
        intro x _
        ring
    _ = 1 := h.symm

/-- A mixture of pmfs that each sum to one, with weights that sum to one, sums to one (the PyClone mixture over genotypes). -/
theorem mixture_sum_one {ι κ : Type*} (G : Finset ι) (X : Finset κ) (w : ι → ℝ) (f : ι → κ → ℝ)
    (hw : ∑ g ∈ G, w g = 1) (hf : ∀ g ∈ G, ∑ x ∈ X, f g x = 1) :
    ∑ x ∈ X, ∑ g ∈ G, w g * f g x = 1 := by
  rw [Finset.sum_comm]
  calc ∑ g ∈ G, ∑ x ∈ X, w g * f g x = ∑ g ∈ G, w g * ∑ x ∈ X, f g x := by
        apply Finset.sum_congr rfl
        intro g _
        rw [Finset.mul_sum]
    _ = ∑ g ∈ G, w g := by
        apply Finset.sum_congr rfl
        intro g hg
        rw [hf g hg, mul_one]
    _ = 1 := hw
