import Mathlib.Algebra.Field.GeomSum
import Mathlib.Algebra.BigOperators.NatAntidiagonal
import Mathlib.Data.Real.Basic
import Mathlib.Tactic
open Finset

/-- M-GEOM (C03): the normalising constant of the "1/c per additional top-level clone" penalty. -/
theorem geom_penalty (c : ℝ) (hc : 1 < c) (R : ℕ) :
    ∑ i ∈ Finset.range R, (c⁻¹) ^ i = (1 - (c⁻¹) ^ R) / (1 - c⁻¹) := by
  have hpos : 0 < c := by linarith
  have h : c⁻¹ ≠ 1 := by
    intro h1
    have : c = 1 := by
      have := congrArg (fun x => x⁻¹) h1
      simpa using this
    linarith
  rw [geom_sum_eq h]
  have h2 : c⁻¹ - 1 ≠ 0 := sub_ne_zero.mpr h
  have h3 : (1 : ℝ) - c⁻¹ ≠ 0 := by
    intro h4; apply h2; linarith
  rw [div_eq_div_iff h2 h3]
  ring

/-- M-CONV-SYM (C02/C14): the truncated convolution is symmetric in its two arguments. -/
theorem conv_comm (a b : ℕ → ℝ) (k : ℕ) :
    ∑ p ∈ Finset.antidiagonal k, a p.1 * b p.2 = ∑ p ∈ Finset.antidiagonal k, b p.1 * a p.2 := by
  rw [← Finset.Nat.sum_antidiagonal_swap]
  apply Finset.sum_congr rfl
  intro p _
  simp [mul_comm]
