import Mathlib.Algebra.BigOperators.Fin
import Mathlib.Algebra.Order.BigOperators.Group.Finset
import Mathlib.Tactic
open Finset

/-- M-PIGEON (C17): S counts summing to S, with no (≥2, 0) pair, are all 1:
    "the number of usable rows of a mutation equals the number of samples" together with the
    excluded offsetting mix means "exactly one usable row in every sample". -/
theorem pigeon_all_one (S : ℕ) (c : Fin S → ℕ) (hsum : ∑ s, c s = S)
    (hno : ¬ ∃ s t, 2 ≤ c s ∧ c t = 0) : ∀ s, c s = 1 := by
  classical
  by_cases h2 : ∃ s, 2 ≤ c s
  · obtain ⟨s, hs⟩ := h2
    have hpos : ∀ t, 1 ≤ c t := by
      intro t
      by_contra h
      exact hno ⟨s, t, hs, by omega⟩
    have : (∑ t, c t) > ∑ _t : Fin S, 1 := by
      apply Finset.sum_lt_sum
      · intro t _; exact hpos t
      · exact ⟨s, Finset.mem_univ s, by omega⟩
    simp at this
    omega
  · push Not at h2
    have hle : ∀ t, c t ≤ 1 := fun t => by have := h2 t; omega
    by_contra hcon
    push Not at hcon
    obtain ⟨s, hs⟩ := hcon
    have hs0 : c s < 1 := by have := hle s; omega
    have : (∑ t, c t) < ∑ _t : Fin S, 1 := by
      apply Finset.sum_lt_sum
      · intro t _; exact hle t
      · exact ⟨s, Finset.mem_univ s, hs0⟩
    simp at this
    omega
