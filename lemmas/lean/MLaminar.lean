import Mathlib.Algebra.BigOperators.Fin
import Mathlib.Algebra.Order.BigOperators.Group.Finset
import Mathlib.Data.Real.Basic
import Mathlib.Tactic
open Finset

/-- M-LAMINAR, counts (C16): two sets of trees that each hold a strict majority of the n sampled trees share a tree. -/
theorem majority_intersect (n : ℕ) (A B : Finset (Fin n)) (hA : n < 2 * A.card) (hB : n < 2 * B.card) :
    (A ∩ B).Nonempty := by
  by_contra h
  rw [Finset.not_nonempty_iff_eq_empty] at h
  have hd : Disjoint A B := Finset.disjoint_iff_inter_eq_empty.mpr h
  have h1 : (A ∪ B).card = A.card + B.card := Finset.card_union_of_disjoint hd
  have h2 : (A ∪ B).card ≤ n := by simpa using Finset.card_le_univ (A ∪ B)
  omega

/-- M-LAMINAR, weighted (C16): with non-negative normalised weights, two sets of trees of weight > 1/2 share a tree. -/
theorem weighted_majority_intersect (n : ℕ) (w : Fin n → ℝ) (hw : ∀ i, 0 ≤ w i) (hs : ∑ i, w i = 1)
    (A B : Finset (Fin n)) (hA : 1 / 2 < ∑ i ∈ A, w i) (hB : 1 / 2 < ∑ i ∈ B, w i) : (A ∩ B).Nonempty := by
  by_contra h
  rw [Finset.not_nonempty_iff_eq_empty] at h
  have hd : Disjoint A B := Finset.disjoint_iff_inter_eq_empty.mpr h
  have h1 : ∑ i ∈ A ∪ B, w i = ∑ i ∈ A, w i + ∑ i ∈ B, w i := Finset.sum_union hd
  have h2 : ∑ i ∈ A ∪ B, w i ≤ ∑ i, w i :=
    Finset.sum_le_sum_of_subset_of_nonneg (Finset.subset_univ _) (fun i _ _ => hw i)
  linarith

/-- Two different clades of one tree (nested or disjoint) that both contain a common non-empty clade have different
    sizes: `find_smallest_superset` never meets two candidate supersets of equal size. -/
theorem nested_distinct_card {α : Type*} [DecidableEq α] (X Y q : Finset α) (hq : q.Nonempty) (hX : q ⊆ X) (hY : q ⊆ Y)
    (hne : X ≠ Y) (hlam : X ⊆ Y ∨ Y ⊆ X ∨ Disjoint X Y) : X.card ≠ Y.card := by
  rcases hlam with h | h | h
  · intro hc
    exact hne (Finset.eq_of_subset_of_card_le h (le_of_eq hc.symm))
  · intro hc
    exact hne (Finset.eq_of_subset_of_card_le h (le_of_eq hc)).symm
  · exfalso
    obtain ⟨x, hx⟩ := hq
    exact (Finset.disjoint_left.mp h (hX hx)) (hY hx)
