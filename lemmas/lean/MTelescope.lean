import Mathlib.Algebra.BigOperators.Group.Finset.Basic
import Mathlib.Algebra.BigOperators.Intervals
import Mathlib.Analysis.SpecialFunctions.Gamma.Basic
import Mathlib.Analysis.SpecialFunctions.Pow.Real
import Mathlib.Data.Real.Basic
import Mathlib.Tactic
open Finset

/-- M-TELESCOPE (C08 / C01): if every SMC step satisfies the per-step obligation L3
    `log w_t + log q_t = γ_{t+1} - γ_t`, the incremental weights and proposal probabilities along a path multiply to
    the ratio of the final and the initial target: the sum of the per-step terms is `γ_T - γ_0`. -/
theorem telescope (γ : ℕ → ℝ) (T : ℕ) :
    ∑ t ∈ Finset.range T, (γ (t + 1) - γ t) = γ T - γ 0 := by
  exact Finset.sum_range_sub γ T

theorem path_weight (γ logw logq : ℕ → ℝ) (T : ℕ)
    (step : ∀ t, t < T → logw t + logq t = γ (t + 1) - γ t) :
    ∑ t ∈ Finset.range T, (logw t + logq t) = γ T - γ 0 := by
  rw [← telescope γ T]
  apply Finset.sum_congr rfl
  intro t ht
  exact step t (Finset.mem_range.mp ht)

/-- M-EW, algebraic half (C13): the conditional of the concentration given the auxiliary variable is proportional to
    `x^(s-1) (x + n) e^(-r x)` with `s = a + K - 1`; its two Gamma components have total masses
    `Γ(s+1) / r^(s+1)` and `n Γ(s) / r^s`, so the first is chosen with probability `s / (s + n r)` -
    the mixture weight the code computes. -/
theorem escobar_west_weight (s r n : ℝ) (hs : 0 < s) (hr : 0 < r) (hn : 0 ≤ n) :
    (Real.Gamma (s + 1) / r ^ (s + 1)) / (Real.Gamma (s + 1) / r ^ (s + 1) + n * Real.Gamma s / r ^ s)
      = s / (s + n * r) := by
  have hG : 0 < Real.Gamma s := Real.Gamma_pos_of_pos hs
  have hrs : 0 < r ^ s := Real.rpow_pos_of_pos hr s
  have h1 : Real.Gamma (s + 1) = s * Real.Gamma s := Real.Gamma_add_one (ne_of_gt hs)
  have h2 : r ^ (s + 1) = r ^ s * r := by
    rw [Real.rpow_add hr, Real.rpow_one]
  rw [h1, h2]
  have hden : 0 < s + n * r := by positivity
  field_simp
