import Mathlib.Algebra.BigOperators.Fin
import Mathlib.Algebra.BigOperators.Ring.Finset
import Mathlib.Algebra.Order.BigOperators.Group.Finset
import Mathlib.Data.Real.Basic
import Mathlib.Tactic
open Finset

/-- M-GIBBS (core step): sampling within the block of the current state, proportionally to π,
    leaves π invariant (blocks given by `b`, any finite state space). Used by C04:
    G2 (blocks partition the space, `b`), G3 (within-block selection ∝ π). -/
theorem gibbs_block_invariant {X B : Type} [Fintype X] [DecidableEq B]
    (π : X → ℝ) (hπ : ∀ x, 0 ≤ π x) (b : X → B) (y : X) :
    (∑ x, π x * (if b x = b y then π y / (∑ z, if b z = b x then π z else 0) else 0)) = π y := by
  classical
  set Z : ℝ := ∑ z, if b z = b y then π z else 0 with hZ
  have hrew : ∀ x, π x * (if b x = b y then π y / (∑ z, if b z = b x then π z else 0) else 0)
      = (if b x = b y then π x else 0) * (π y / Z) := by
    intro x
    by_cases h : b x = b y
    · simp [h, hZ]
    · simp [h]
  simp_rw [hrew]
  rw [← Finset.sum_mul]
  change Z * (π y / Z) = π y
  by_cases hz : Z = 0
  · have hy : (if b y = b y then π y else 0) ≤ Z := by
      rw [hZ]
      exact Finset.single_le_sum (f := fun z => if b z = b y then π z else 0)
        (fun z _ => by by_cases h : b z = b y <;> simp [h, hπ z]) (Finset.mem_univ y)
    simp at hy
    have : π y = 0 := le_antisymm (by linarith) (hπ y)
    simp [hz, this]
  · field_simp

/-- A mixture of π-invariant kernels with weights that do not depend on the state is π-invariant
    (G1: the auxiliary choice - scan order, subtree root - has a state-independent probability). -/
theorem mixture_invariant {X I : Type} [Fintype X] [Fintype I]
    (π : X → ℝ) (w : I → ℝ) (K : I → X → X → ℝ) (hw : ∑ i, w i = 1)
    (hK : ∀ i y, ∑ x, π x * K i x y = π y) (y : X) :
    ∑ x, π x * (∑ i, w i * K i x y) = π y := by
  calc ∑ x, π x * (∑ i, w i * K i x y)
      = ∑ x, ∑ i, w i * (π x * K i x y) := by
        apply Finset.sum_congr rfl; intro x _; rw [Finset.mul_sum]
        apply Finset.sum_congr rfl; intro i _; ring
    _ = ∑ i, w i * ∑ x, π x * K i x y := by
        rw [Finset.sum_comm]; apply Finset.sum_congr rfl; intro i _; rw [Finset.mul_sum]
    _ = ∑ i, w i * π y := by apply Finset.sum_congr rfl; intro i _; rw [hK i y]
    _ = π y := by rw [← Finset.sum_mul, hw, one_mul]

/-- The composition of two π-invariant kernels is π-invariant (a sweep of moves). -/
theorem composition_invariant {X : Type} [Fintype X]
    (π : X → ℝ) (K L : X → X → ℝ)
    (hK : ∀ y, ∑ x, π x * K x y = π y) (hL : ∀ z, ∑ y, π y * L y z = π z) (z : X) :
    ∑ x, π x * (∑ y, K x y * L y z) = π z := by
  calc ∑ x, π x * (∑ y, K x y * L y z)
      = ∑ x, ∑ y, (π x * K x y) * L y z := by
        apply Finset.sum_congr rfl; intro x _; rw [Finset.mul_sum]
        apply Finset.sum_congr rfl; intro y _; ring
    _ = ∑ y, (∑ x, π x * K x y) * L y z := by
        rw [Finset.sum_comm]; apply Finset.sum_congr rfl; intro y _; rw [Finset.sum_mul]
    _ = ∑ y, π y * L y z := by apply Finset.sum_congr rfl; intro y _; rw [hK y]
    _ = π z := hL z
