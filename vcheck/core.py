"""Reporting core shared by every check: obligations, bounded stand-ins, known findings,
VIOLATION / KNOWN-FINDING lines, evidence files, exit codes.

Exit codes: 0 held, 1 violation, 2 undecided, 3 engine error.
"""
import fnmatch
import hashlib
import json
import os
import sys
import time
import traceback

ROOT = os.path.dirname(os.path.dirname(os.path.abspath(__file__)))
REPO = os.environ.get("PHYCLONE_REPO", "/repo")
# the two output directories can be redirected (tools/seed_matrix_par.sh runs seeded changes in scratch worktrees and must not touch the real evidence)
EVIDENCE_DIR = os.environ.get("VERIF_EVIDENCE_DIR") or os.path.join(ROOT, "evidence")
REPLAY_DIR = os.environ.get("VERIF_REPLAY_DIR") or os.path.join(ROOT, "replay", "out")

DISCHARGED, REFUTED, UNDECIDED, ERROR = "discharged", "refuted", "undecided", "engine-error"


def load_known_findings():
    path = os.path.join(ROOT, "KNOWN_FINDINGS.json")
    if not os.path.exists(path):
        return []
    with open(path) as fh:
        return json.load(fh)["findings"]


class Ctx:
    def __init__(self, prop, tier, seed):
        self.prop = prop
        self.tier = tier
        self.seed = seed
        self.t0 = time.time()
        self.obligations = []  # dicts: name,status,backend,time_s,detail
        self.functions = {}  # qualname -> {file, lines, sha256}
        self.bounded = []  # dicts
        self.failures = []  # dicts: signature, what, replay payload, found_input
        self.assumptions = []
        self.trusted = []
        self.samples = []
        self.extra = {}
        self.lines = []
        self.engine_errors = []
        self.undecided = []
        self.covers = {"checked": 0, "reachable": 0}
        self.level = "proof"
        self.stage = "start"
        self.state_path = None
        self._last_dump = 0.0
        self.checker_cmd = "bin/check %s --tier %s" % (prop, tier)

    # ------------------------------------------------------------------ recording
    def assume(self, *texts):
        for t in texts:
            if t not in self.assumptions:
                self.assumptions.append(t)

    def trust(self, *texts):
        for t in texts:
            if t not in self.trusted:
                self.trusted.append(t)

    def function_under_contract(self, qualname, file, lines, sha):
        self.functions[qualname] = {"file": file, "lines": lines, "sha256": sha}

    def add_obligation(self, name, status, backend="z3", time_s=0.0, detail="", model=None, funcs=()):
        self.obligations.append(
            {"name": name, "status": status, "backend": backend, "time_s": round(time_s, 4), "detail": detail}
        )
        if status == UNDECIDED:
            self.undecided.append(name)
        if status == ERROR:
            self.engine_errors.append("%s: %s" % (name, detail))
        if len(self.samples) < 6 and status == DISCHARGED:
            self.samples.append({"obligation": name, "verdict": status, "backend": backend, "detail": detail[:300]})
        self.stage = "deductive obligations (last: %s)" % name
        self.checkpoint()

    def checkpoint(self, force=False):
        if self.state_path and (force or time.time() - self._last_dump > 1.0):
            self._last_dump = time.time()
            try:
                _dump_state(self, self.state_path, False)
            except Exception:  # noqa
                pass

    def add_bounded(self, name, bound, cases, nontrivial, ok, note=""):
        self.bounded.append(
            {"name": name, "label": "bounded", "bound": bound, "cases": cases, "distinct_nontrivial": nontrivial,
             "passed": bool(ok), "note": note}
        )
        self.stage = "after bounded stand-in '%s'" % name
        self.checkpoint(True)

    def fail(self, signature, what, payload=None, found_input=True):
        """Record a failed obligation / failed bounded case. signature is matched against KNOWN_FINDINGS."""
        self.failures.append({"signature": signature, "what": what, "payload": payload or {}, "found_input": found_input})
        self.checkpoint(True)

    def engine_error(self, text):
        self.engine_errors.append(text)

    # ------------------------------------------------------------------ finishing
    def finish(self):
        known = [k for k in load_known_findings() if k.get("property") == self.prop and k.get("status") == "known"]
        matched_known = {}
        violations = []
        for f in self.failures:
            hit = None
            for k in known:
                if "cases" in k:
                    # a known finding pinned to specific failing inputs and their observed values: anything else is new
                    exp = k["cases"].get(f["signature"])
                    got = (f.get("payload") or {}).get(k.get("value_field", "defect"))
                    if exp is not None and got is not None:
                        band = k.get("ratio_band")  # for defect values that are round-off noise: the scenario is pinned, the value only to an order of magnitude
                        if band is not None:
                            same = exp != 0 and got / exp > 0 and band[0] <= got / exp <= band[1]
                        else:
                            same = abs(got - exp) <= k.get("rtol", 1e-4) * abs(exp)
                        if same:
                            hit = k
                            break
                elif fnmatch.fnmatchcase(f["signature"], k["signature"]):
                    hit = k
                    break
            if hit is not None:
                matched_known.setdefault(hit["id"], (hit, []))[1].append(f)
            else:
                violations.append(f)
        out = []
        for kid, (k, fs) in matched_known.items():
            out.append("KNOWN-FINDING: property=%s %s [%s; %d matching failure(s) this run]" % (self.prop, k["what"], kid, len(fs)))
        os.makedirs(REPLAY_DIR, exist_ok=True)
        seen = set()
        for f in violations:
            if f["signature"] in seen:
                continue
            seen.add(f["signature"])
            h = hashlib.sha1(f["signature"].encode()).hexdigest()[:10]
            path = os.path.join(REPLAY_DIR, "%s_%s.json" % (self.prop, h))
            with open(path, "w") as fh:
                json.dump({"property": self.prop, "failed_obligation": f["signature"], "what": f["what"],
                           "found_failing_input": f["found_input"], "payload": f["payload"]}, fh, indent=1, default=str)
            line = "VIOLATION property=%s replay=%s" % (self.prop, path)
            if not f["found_input"]:
                line += " no-failing-input-found"
            out.append(line)
            out.append("  obligation: %s :: %s" % (f["signature"], f["what"][:400]))
        for u in self.undecided:
            out.append("UNDECIDED property=%s obligation=%s" % (self.prop, u))
        for e in self.engine_errors:
            out.append("ENGINE-ERROR property=%s %s" % (self.prop, e))
        n_obl = len(self.obligations)
        n_dis = sum(1 for o in self.obligations if o["status"] == DISCHARGED)
        known_names = set()
        for kid, (k, fs) in matched_known.items():
            for f in fs:
                known_names.add(f["signature"])
        # obligations refuted only by known findings are reported separately and do not count as required
        n_known_refuted = sum(1 for o in self.obligations if o["status"] == REFUTED and o["name"] in known_names)
        if violations:
            code = 1
        elif self.engine_errors:
            code = 3
        elif self.undecided:
            code = 2
        elif n_obl == 0 and not self.bounded:
            out.append("ENGINE-ERROR property=%s zero obligations generated" % self.prop)
            code = 3
        else:
            code = 0
        if n_obl == 0 and self.level == "proof":
            self.level = "other"  # bounded stand-ins only: never reported as a proof
        self.write_evidence(n_obl - n_known_refuted, n_dis, len(violations), matched_known)
        for l in out:
            print(l)
        print("%s tier=%s obligations=%d discharged=%d known-refuted=%d bounded-standins=%d violations=%d exit=%d wall=%.1fs" % (
            self.prop, self.tier, n_obl, n_dis, n_known_refuted, len(self.bounded), len(violations), code, time.time() - self.t0))
        return code

    def write_evidence(self, n_obl, n_dis, n_viol, matched_known):
        os.makedirs(EVIDENCE_DIR, exist_ok=True)
        backends = {}
        for o in self.obligations:
            backends[o["backend"]] = backends.get(o["backend"], 0) + 1
        slow = sorted(self.obligations, key=lambda o: -o["time_s"])[:5]
        b_cases = sum(b["cases"] for b in self.bounded)
        b_nontriv = sum(b["distinct_nontrivial"] for b in self.bounded)
        cov = {
            "obligations": n_obl,
            "discharged": n_dis,
            "checker_cmd": self.checker_cmd,
            "trusted_base": self.trusted,
            "functions_under_contract": self.functions,
            "backends": backends,
            "solver_time_s": round(sum(o["time_s"] for o in self.obligations), 3),
            "slowest": [{"name": o["name"], "time_s": o["time_s"]} for o in slow],
            "covers": self.covers,
            "bounded_standins": self.bounded,
            "known_findings_matched": [
                {"id": kid, "what": k["what"], "failures": len(fs)} for kid, (k, fs) in matched_known.items()],
            "undecided": self.undecided,
            "obligation_list": [{"name": o["name"], "status": o["status"], "backend": o["backend"]} for o in self.obligations][:400],
            "samples": self.samples or [{"note": "no discharged obligation sample"}],
            "evaluations": max(1, n_obl + b_cases),
            "distinct_nontrivial": n_obl + b_nontriv,
            "rule": "obligations are distinct named verification conditions generated from /repo's current source; bounded stand-in cases are "
                    "distinct enumerated inputs (labelled bounded, never counted in 'discharged')",
            "explanation": self.extra.get("explanation", ""),
        }
        cov.update({k: v for k, v in self.extra.items() if k != "explanation"})
        ev = {
            "property_id": self.prop,
            "tier": self.tier,
            "seed": int(self.seed),
            "level": self.level,
            "coverage": cov,
            "assumptions": self.assumptions,
            "wall_s": round(time.time() - self.t0, 2),
            "violations": n_viol,
        }
        with open(os.path.join(EVIDENCE_DIR, "%s.json" % self.prop), "w") as fh:
            json.dump(ev, fh, indent=1, default=str)


def manifest_level(prop):
    try:
        with open(os.path.join(ROOT, "MANIFEST.json")) as fh:
            for c in json.load(fh)["checks"]:
                if c["property_id"] == prop:
                    return c["level_claimed"]["category"]
    except Exception:
        pass
    return None


STATE_FIELDS = ("obligations", "functions", "bounded", "failures", "assumptions", "trusted", "samples", "extra", "lines", "engine_errors", "undecided", "covers", "level", "stage")


def _dump_state(ctx, path, complete):
    st = {k: getattr(ctx, k, None) for k in STATE_FIELDS}
    st["complete"] = complete
    tmp = path + ".tmp"
    with open(tmp, "w") as fh:
        json.dump(st, fh, default=str)
    os.replace(tmp, path)


def scan_assumptions():
    """mechanical count, per contract / check module loaded by this run, of the places where something is assumed rather than proved:
    path assumptions (`.assume(`: preconditions, contracts of callees and collaborators), trusted statements (`.trust(`) and callee contracts
    (`call_contracts[`). A reader can compare these numbers between commits; the texts are in the modules themselves."""
    out = {}
    for name, mod in sorted(sys.modules.items()):
        if not (name.startswith("contracts.") or name.startswith("checks.C")):
            continue
        f = getattr(mod, "__file__", None)
        if not f or not os.path.exists(f):
            continue
        try:
            with open(f) as fh:
                src = fh.read()
        except OSError:
            continue
        out[name] = {"assume": src.count(".assume("), "trust": src.count(".trust("), "callee_contracts": src.count("call_contracts["), "class_models": src.count("class_models[")}
    return out


NATIVE_FAILURE_TYPES = ("AssertionError", "IndexError", "KeyError", "ZeroDivisionError", "ValueError", "RecursionError", "FloatingPointError", "UnboundLocalError", "NameError",
                        "OverflowError", "StopIteration", "LinAlgError")


def native_failure(exc):
    """An exception that escaped from a stand-in: was it raised by the code under test (deepest frame that is neither a library nor /verif lies in the repository tree)
    and is it of a kind that means the code's own logic failed on the input it was given (not AttributeError / TypeError, which may be interface drift between a harness
    and a refactored private interface)? Returns a description or None."""
    none_use = type(exc).__name__ in ("AttributeError", "TypeError") and "'NoneType' object" in str(exc)  # None used as a value: the code's own logic, not interface drift
    if type(exc).__name__ not in NATIVE_FAILURE_TYPES and not none_use:
        return None
    tb = exc.__traceback__
    frames = []
    remote = getattr(getattr(exc, "__cause__", None), "tb", None)
    if isinstance(remote, str):
        # raised in a pool worker: the frames are in the text of the remote traceback
        import re

        frames = [(m.group(1), int(m.group(2)), m.group(3)) for m in re.finditer(r'File "([^"]+)", line (\d+), in (\S+)', remote)]
        tb = None
    while tb is not None:
        frames.append((tb.tb_frame.f_code.co_filename, tb.tb_lineno, tb.tb_frame.f_code.co_name))
        tb = tb.tb_next
    repo = os.path.realpath(REPO) + os.sep
    here = os.path.realpath(ROOT) + os.sep
    for fn, ln, name in reversed(frames):
        rf = os.path.realpath(fn)
        if "site-packages" in rf or rf.startswith(sys.base_prefix) or fn.startswith("<"):
            continue
        if rf.startswith(repo):
            chain = " <- ".join("%s:%d %s" % (os.path.relpath(os.path.realpath(f), repo) if os.path.realpath(f).startswith(repo) else os.path.basename(f), l, n) for f, l, n in reversed(frames[-6:]))
            return "%s(%s) raised in the code under test at %s:%d (%s) [%s]" % (type(exc).__name__, str(exc)[:120], os.path.relpath(rf, repo), ln, name, chain)
        return None  # the deepest own frame is the machinery's: a defect of the harness, not of the code
    return None


def crashed(ctx, e):
    """an exception escaped from the body of a check: a failure of the code under test on an input of the property's domain is a violation (the replay file carries the
    traceback, no input was isolated); anything else is a crash of the machinery - never a violation"""
    traceback.print_exc()
    nat = native_failure(e)
    if nat is not None:
        ctx.fail("%s.native-exception[%s]" % (ctx.prop, nat[:100]), "while a stand-in exercised the real code on an input of the property's domain: " + nat,
                 {"traceback": traceback.format_exc()[-3000:], "stage": getattr(ctx, "stage", None)}, found_input=False)
        ctx.engine_error("the check stopped at that exception: what comes after stage '%s' was not run" % (getattr(ctx, "stage", None) or "start"))
    else:
        ctx.engine_error("checker crashed: %r" % (e,))


def engine_selftest(ctx):
    """Differential test of the interpreter against CPython (tools/engine_selftest.py): run once per state of the engine sources and cached in the
    build directory; a disagreement makes every check an engine error (exit 3) - nothing a defective engine says is believed, and it is never a violation."""
    import glob
    import hashlib

    try:
        h = hashlib.sha256()
        files = sorted(glob.glob(os.path.join(ROOT, "pyvc", "*.py")) + glob.glob(os.path.join(ROOT, "pyvc", "selftest", "phyclone_st", "*.py")) + [os.path.join(ROOT, "tools", "engine_selftest.py")])
        for f in files:
            with open(f, "rb") as fh:
                h.update(fh.read())
        key = h.hexdigest()
        cache = os.path.join(ROOT, ".venv", "engine_selftest.json")
        rep = None
        if os.path.exists(cache):
            try:
                with open(cache) as fh:
                    c = json.load(fh)
                if c.get("key") == key:
                    rep = c["report"]
            except Exception:  # noqa
                rep = None
        if rep is None:
            sys.path.insert(0, os.path.join(ROOT, "tools"))
            import engine_selftest as ES

            rep = ES.run()
            try:
                tmp = cache + ".%d.tmp" % os.getpid()
                with open(tmp, "w") as fh:
                    json.dump({"key": key, "report": rep}, fh, default=str)
                os.replace(tmp, cache)
            except OSError:
                pass
        ctx.extra["engine_selftest"] = {k: rep[k] for k in ("functions", "box", "concrete_runs", "symbolic_functions", "symbolic_paths", "symbolic_points", "undetermined_values") if k in rep}
        ctx.extra["engine_selftest"]["not_processed_by_the_engine"] = sorted(set(rep.get("unsupported", {})) | set(rep.get("unsupported_symbolic", {})))
        ctx.extra["engine_selftest"]["disagreements"] = len(rep.get("disagreements", []))
        for d in rep.get("disagreements", [])[:3]:
            ctx.engine_error("engine self-test: the interpreter disagrees with CPython on %s%s (%s mode): CPython %s, engine %s" % (d.get("function"), tuple(d.get("args", ())), d.get("mode"), str(d.get("native"))[:120], str(d.get("engine"))[:120]))
    except Exception as e:  # noqa
        ctx.engine_error("engine self-test could not run: %r" % (e,))


def run_check(prop, tier, seed, fn):
    """The check body runs in a child process that checkpoints its findings: a native crash in the code under test (numba code is
    not bounds-checked, rustworkx is native) must not lose the obligations already decided, and is reported as an engine error,
    never silently and never as a pass."""
    ctx = Ctx(prop, tier, seed)
    lvl = manifest_level(prop)
    if lvl:
        ctx.level = lvl  # the evidence reports the level claimed in MANIFEST.json (a check may only lower it)
    if os.environ.get("VCHECK_NO_FORK") == "1":
        try:
            engine_selftest(ctx)
            fn(ctx)
        except Exception as e:  # a crash of the machinery is never a violation
            crashed(ctx, e)
        ctx.extra["assumption_scan"] = scan_assumptions()
        return ctx.finish()
    os.makedirs(REPLAY_DIR, exist_ok=True)
    state_path = os.path.join(REPLAY_DIR, ".state_%s_%d.json" % (prop, os.getpid()))
    sys.stdout.flush()
    pid = os.fork()
    if pid == 0:
        code = 0
        try:
            ctx.state_path = state_path
            try:
                engine_selftest(ctx)
                fn(ctx)
            except Exception as e:  # a crash of the machinery is never a violation
                crashed(ctx, e)
            ctx.extra["assumption_scan"] = scan_assumptions()
            _dump_state(ctx, state_path, True)
        except BaseException:  # noqa
            traceback.print_exc()
            code = 70
        finally:
            sys.stdout.flush()
            sys.stderr.flush()
            os._exit(code)
    _, status = os.waitpid(pid, 0)
    st = None
    if os.path.exists(state_path):
        try:
            with open(state_path) as fh:
                st = json.load(fh)
        except Exception:  # noqa
            st = None
        try:
            os.remove(state_path)
        except OSError:
            pass
    if st is not None:
        for k in STATE_FIELDS:
            if k in st and st[k] is not None:
                setattr(ctx, k, st[k])
    if st is None or not st.get("complete"):
        how = "signal %d" % os.WTERMSIG(status) if os.WIFSIGNALED(status) else "exit status %d" % (os.WEXITSTATUS(status) if os.WIFEXITED(status) else -1)
        ctx.engine_error("the check process died (%s) during stage '%s': a native crash in the code under test or one of its libraries; "
                         "what had been decided before is reported, the rest is undecided" % (how, getattr(ctx, "stage", None) or "start"))
    return ctx.finish()
