"""bin/check entry point: bin/check Cxx [--tier quick|thorough] [--replay FILE]"""
import argparse
import importlib
import json
import os
import sys

from vcheck import core


def main():
    ap = argparse.ArgumentParser()
    ap.add_argument("prop")
    ap.add_argument("--tier", default=os.environ.get("VERIF_TIER", "quick"), choices=["quick", "thorough"])
    ap.add_argument("--replay", default=None)
    args = ap.parse_args()
    seed = int(os.environ.get("VERIF_SEED", "0") or 0)
    try:
        mod = importlib.import_module("checks.%s" % args.prop)
    except ImportError as e:
        print("ENGINE-ERROR property=%s no check module: %r" % (args.prop, e))
        return 3
    if args.replay:
        with open(args.replay) as fh:
            payload = json.load(fh)
        if hasattr(mod, "replay"):
            return mod.replay(payload)
        print(json.dumps(payload, indent=1)[:4000])
        return 0
    return core.run_check(args.prop, args.tier, seed, mod.run)


if __name__ == "__main__":
    sys.exit(main())
