"""Lean 4 + Mathlib meta-lemmas (thorough tier): each file is compiled with `lean`; no `sorry` / `axiom` allowed."""
import os
import re
import subprocess
import time

from vcheck import core

LEAN_DIR = os.path.join(core.ROOT, "lemmas", "lean")


def check_file(ctx, fname, prop):
    path = os.path.join(LEAN_DIR, fname)
    src = open(path).read()
    theorems = re.findall(r"^theorem\s+(\w+)", src, re.M)
    if re.search(r"\bsorry\b|^\s*axiom\b|\badmit\b", src, re.M):
        ctx.engine_error("%s contains sorry/axiom/admit" % fname)
        return
    t0 = time.time()
    try:
        r = subprocess.run(["lean", path], capture_output=True, text=True, timeout=1500)
    except Exception as e:  # noqa
        ctx.engine_error("lean could not be run on %s: %r" % (fname, e))
        return
    dt = time.time() - t0
    ok = r.returncode == 0 and "error" not in (r.stdout + r.stderr)
    for th in theorems:
        ctx.add_obligation("%s.lean.%s.%s" % (prop, fname[:-5], th), core.DISCHARGED if ok else core.UNDECIDED, "lean", dt / max(1, len(theorems)),
                           "Lean 4.33 + Mathlib accepts the theorem" if ok else (r.stdout + r.stderr)[-300:])
