"""Symbolic algebra for the verification conditions: numbers are Laurent polynomials with rational coefficients over
*atoms* (symbols, uninterpreted applications such as Log/Exp/LGamma/BigSum, opaque z3 terms).  Probabilities are kept in
log-linear normal form: slog() turns products into sums of Log atoms, sexp() turns sums into products, so that most
equalities between densities become linear arithmetic + congruence for the SMT back end.

Assumption A-REAL: Python/numpy floats are modelled as mathematical reals.
"""
import math
from fractions import Fraction

import z3

# ----------------------------------------------------------------------------------------------------------- atoms


class Atom:
    __slots__ = ("kind", "name", "args", "sort", "key", "payload")

    def __init__(self, kind, name, args=(), sort="Real", payload=None):
        self.kind = kind  # 'sym' | 'app' | 'z3' | 'poly'
        self.name = name
        self.args = tuple(args)
        self.sort = sort
        self.payload = payload
        if kind == "sym":
            self.key = "s:" + name
        elif kind == "app":
            self.key = "a:%s(%s)" % (name, ",".join(a.key() if isinstance(a, Num) else repr(a) for a in self.args))
        elif kind == "z3":
            self.key = "z:" + payload.sexpr()
        elif kind == "poly":
            self.key = "p:[" + payload.key() + "]"
        else:
            raise ValueError(kind)

    def __hash__(self):
        return hash(self.key)

    def __eq__(self, other):
        return isinstance(other, Atom) and self.key == other.key

    def __lt__(self, other):
        return self.key < other.key

    def __repr__(self):
        return self.key

    def depends_on(self, atom):
        if self == atom:
            return True
        if self.kind == "app":
            if self.name == "BigSum" and atom.key == "s:#b%s" % self.args[0]:
                return False  # BigSum binds its own index
            return any(isinstance(a, Num) and a.depends_on(atom) for a in self.args)
        if self.kind == "poly":
            return self.payload.depends_on(atom)
        if self.kind == "z3" and atom.kind == "sym":
            # an opaque solver term (If of a condition, a quotient, ...) depends on a symbol when the symbol occurs in it
            return atom.name in _z3_symbol_names(self.payload)
        return False

    def subst(self, mapping):
        """mapping: Atom -> Num.  Returns a Num."""
        if self in mapping:
            return mapping[self]
        if self.kind == "z3":
            names = _z3_symbol_names(self.payload)
            pairs = []
            for a, num in mapping.items():
                if a.kind == "sym" and a.name in names:
                    src = z3.Int(a.name) if a.sort == "Int" else z3.Real(a.name)
                    dst = to_z3(num)
                    if z3.is_int(src) and not z3.is_int(dst):
                        raise ValueError("substitution of a real term for an integer symbol inside a solver term")
                    if not z3.is_int(src) and z3.is_int(dst):
                        dst = z3.ToReal(dst)
                    pairs.append((src, dst))
            if pairs:
                return z3atom(z3.substitute(self.payload, *pairs))
            return Num.of_atom(self)
        if self.kind == "app":
            new_args = [a.subst(mapping) if isinstance(a, Num) else a for a in self.args]
            return app(self.name, *new_args, sort=self.sort)
        if self.kind == "poly":
            return self.payload.subst(mapping)
        return Num.of_atom(self)


_REGISTRY = {"facts": []}


def sym(name, sort="Real"):
    return Num.of_atom(Atom("sym", name, sort=sort))


def _z3_symbol_names(expr):
    """names of the uninterpreted constants occurring in a solver term"""
    out, seen, stack = set(), set(), [expr]  # (no cache: solver AST ids are reused after garbage collection)
    while stack:
        e = stack.pop()
        if e.get_id() in seen:
            continue
        seen.add(e.get_id())
        if z3.is_app(e):
            if e.num_args() == 0 and e.decl().kind() == z3.Z3_OP_UNINTERPRETED:
                out.add(e.decl().name())
            stack.extend(e.children())
    return out


def z3atom(expr):
    sort = "Int" if z3.is_int(expr) else "Real"
    return Num.of_atom(Atom("z3", "z3", sort=sort, payload=expr))


# rewriting constructors for the interpreted applications
def app(name, *args, sort="Real"):
    args = [a if isinstance(a, Num) or not isinstance(a, (int, float, Fraction)) else Num.const(a) for a in args]
    if name == "Log" and len(args) == 1:
        return slog(args[0])
    if name == "Exp" and len(args) == 1:
        return sexp(args[0])
    return Num.of_atom(Atom("app", name, args, sort=sort))


def raw_app(name, *args, sort="Real"):
    return Num.of_atom(Atom("app", name, args, sort=sort))


# ----------------------------------------------------------------------------------------------------------- numbers


def _mono_mul(m1, m2):
    d = dict(m1)
    for a, p in m2:
        q = d.get(a, 0) + p
        if q == 0:
            d.pop(a, None)
        else:
            d[a] = q
    return tuple(sorted(d.items(), key=lambda ap: ap[0].key))


def _mono_pow(m, k):
    return tuple((a, p * k) for a, p in m)


def _mono_key(m):
    return "*".join("%s^%d" % (a.key, p) for a, p in m)


class Num:
    """Laurent polynomial: dict monomial -> Fraction; monomial = sorted tuple of (Atom, int power)."""

    __slots__ = ("terms", "_key")

    def __init__(self, terms):
        self.terms = {m: c for m, c in terms.items() if c != 0}
        self._key = None

    # ------------------------------------------------------------------ constructors
    @staticmethod
    def const(c):
        if isinstance(c, Num):
            return c
        if isinstance(c, bool):
            c = int(c)
        if isinstance(c, float):
            if c != c or c in (math.inf, -math.inf):
                raise ValueError("non-finite constant %r is not modelled" % c)
            c = Fraction(c).limit_denominator(10 ** 15) if c != int(c) else Fraction(int(c))
        return Num({(): Fraction(c)})

    @staticmethod
    def of_atom(atom):
        return Num({((atom, 1),): Fraction(1)})

    # ------------------------------------------------------------------ structure
    def key(self):
        if self._key is None:
            self._key = " + ".join("%s*%s" % (c, _mono_key(m)) for m, c in sorted(self.terms.items(), key=lambda mc: _mono_key(mc[0])))
        return self._key

    def __hash__(self):
        return hash(self.key())

    def is_const(self):
        return all(m == () for m in self.terms)

    def const_value(self):
        assert self.is_const()
        return self.terms.get((), Fraction(0))

    def is_zero(self):
        return not self.terms

    def atoms(self):
        out = set()
        for m in self.terms:
            for a, _ in m:
                out.add(a)
        return out

    def all_atoms(self):
        """atoms, recursively through application arguments"""
        out = set()
        stack = list(self.atoms())
        while stack:
            a = stack.pop()
            if a in out:
                continue
            out.add(a)
            if a.kind == "app":
                for arg in a.args:
                    if isinstance(arg, Num):
                        stack.extend(arg.atoms())
            elif a.kind == "poly":
                stack.extend(a.payload.atoms())
        return out

    def depends_on(self, atom):
        return any(a.depends_on(atom) for a in self.atoms())

    def all_atoms_free(self):
        """atoms reachable without going under a BigSum binder"""
        out = set()
        stack = list(self.atoms())
        while stack:
            a = stack.pop()
            if a in out:
                continue
            out.add(a)
            if a.kind == "app" and a.name != "BigSum":
                for arg in a.args:
                    if isinstance(arg, Num):
                        stack.extend(arg.atoms())
            elif a.kind == "poly":
                stack.extend(a.payload.atoms())
        return out

    def sort(self):
        for m, c in self.terms.items():
            if c.denominator != 1:
                return "Real"
            for a, p in m:
                if a.sort != "Int" or p < 0:
                    return "Real"
        return "Int"

    def subst(self, mapping):
        out = Num({})
        for m, c in self.terms.items():
            t = Num.const(c)
            for a, p in m:
                t = t * (a.subst(mapping) ** p)
            out = out + t
        return out

    # ------------------------------------------------------------------ arithmetic
    def __add__(self, o):
        o = Num.const(o) if not isinstance(o, Num) else o
        d = dict(self.terms)
        for m, c in o.terms.items():
            d[m] = d.get(m, 0) + c
        return Num(d)

    __radd__ = __add__

    def __neg__(self):
        return Num({m: -c for m, c in self.terms.items()})

    def __sub__(self, o):
        o = Num.const(o) if not isinstance(o, Num) else o
        return self + (-o)

    def __rsub__(self, o):
        return Num.const(o) - self

    def __mul__(self, o):
        o = Num.const(o) if not isinstance(o, Num) else o
        d = {}
        for m1, c1 in self.terms.items():
            for m2, c2 in o.terms.items():
                m = _mono_mul(m1, m2)
                d[m] = d.get(m, 0) + c1 * c2
        r = Num(d)
        return _cancel_poly_atoms(r)

    __rmul__ = __mul__

    def inverse(self):
        if len(self.terms) == 1:
            (m, c), = self.terms.items()
            return Num({_mono_pow(m, -1): 1 / c})
        if not self.terms:
            raise ZeroDivisionError("division by the zero polynomial")
        c, prim = self.content_split()
        pa = Atom("poly", "poly", sort="Real", payload=prim)
        return Num({((pa, -1),): 1 / c})

    def __truediv__(self, o):
        o = Num.const(o) if not isinstance(o, Num) else o
        return self * o.inverse()

    def __rtruediv__(self, o):
        return Num.const(o) * self.inverse()

    def __pow__(self, k):
        if isinstance(k, Num):
            assert k.is_const() and k.const_value().denominator == 1, "only integer constant powers"
            k = int(k.const_value())
        if k == 0:
            return Num.const(1)
        if k < 0:
            return self.inverse() ** (-k)
        r = Num.const(1)
        for _ in range(k):
            r = r * self
        return r

    def content_split(self):
        """self = c * prim with c > 0 rational and prim having coprime integer coefficients."""
        coefs = list(self.terms.values())
        den = 1
        for c in coefs:
            den = den * c.denominator // math.gcd(den, c.denominator)
        ints = [int(c * den) for c in coefs]
        g = 0
        for i in ints:
            g = math.gcd(g, abs(i))
        c = Fraction(g, den)
        return c, Num({m: co / c for m, co in self.terms.items()})

    def __repr__(self):
        if not self.terms:
            return "0"
        parts = []
        for m, c in sorted(self.terms.items(), key=lambda mc: _mono_key(mc[0])):
            ms = "*".join(("%s" % _atom_str(a)) + ("^%d" % p if p != 1 else "") for a, p in m)
            if not ms:
                parts.append(str(c))
            elif c == 1:
                parts.append(ms)
            else:
                parts.append("%s*%s" % (c, ms))
        return " + ".join(parts)


def _atom_str(a):
    if a.kind == "sym":
        return a.name
    if a.kind == "app":
        return "%s(%s)" % (a.name, ", ".join(repr(x) for x in a.args))
    if a.kind == "poly":
        return "(%r)" % (a.payload,)
    return str(a.payload)


def _cancel_poly_atoms(r):
    """(p)^-1 * p -> 1 when the numerator polynomial is exactly p (cheap special case)."""
    inv = None
    for m in r.terms:
        for a, p in m:
            if a.kind == "poly" and p < 0:
                inv = a
                break
        if inv:
            break
    if inv is None:
        return r
    # all terms must carry inv^-1 at the same power -1
    if not all(dict(m).get(inv) == -1 for m in r.terms):
        return r
    stripped = Num({tuple((a, p) for a, p in m if a != inv): c for m, c in r.terms.items()})
    c, prim = stripped.content_split() if stripped.terms else (Fraction(0), stripped)
    if prim.key() == inv.payload.key():
        return Num.const(c)
    neg = Num({m: -co for m, co in prim.terms.items()})
    if neg.key() == inv.payload.key():
        return Num.const(-c)
    return r


def is_positive(x):
    """syntactic sufficient condition for x > 0: a sum of monomials with positive coefficients whose atoms are exponentials
    (any power), even powers, or big sums of such products carried to a positive... (non-empty range is the caller's fact)"""
    x = Num.const(x) if not isinstance(x, Num) else x
    if x.is_zero():
        return False

    def atom_pos(a):
        if a.kind == "app" and a.name == "Exp":
            return True
        if a.kind == "app" and a.name == "BigSum":
            dep = a.args[1]
            return all(c > 0 for c in dep.terms.values()) and all(all(atom_pos(at) for at, _ in m) for m in dep.terms) and _positive_length(a.args[2])
        return False

    for m, c in x.terms.items():
        if c <= 0:
            return False
        for a, p in m:
            if not atom_pos(a) and p % 2 != 0:
                return False
    return True


def _positive_length(n):
    """length of the form k + 1 with k a non-negative index, or a positive constant: structurally >= 1"""
    if n.is_const():
        return n.const_value() > 0
    c = n.terms.get((), Fraction(0))
    rest = Num({m: v for m, v in n.terms.items() if m != ()})
    return c >= 1 and all(v > 0 for v in rest.terms.values()) and all(all(at.kind == "sym" and at.name.startswith("#") or at.sort == "Int" for at, _ in m) for m in rest.terms)


def to_fraction(x):
    """x as (numerator, denominator), both polynomials without inverse polynomial atoms and without negative powers"""
    x = Num.const(x) if not isinstance(x, Num) else x
    num, den = Num.const(0), Num.const(1)
    for m, c in x.terms.items():
        tn, td = Num.const(c), Num.const(1)
        for a, p in m:
            if a.kind == "poly":
                pn, pd = to_fraction(a.payload)
                if p > 0:
                    tn, td = tn * pn ** p, td * pd ** p
                else:
                    tn, td = tn * pd ** (-p), td * pn ** (-p)
            elif p > 0:
                tn = tn * Num.of_atom(a) ** p
            else:
                td = td * Num.of_atom(a) ** (-p)
        num, den = num * td + tn * den, den * td
    return num, den


def is_identically_zero(x):
    """exact decision of x == 0 as a rational-function identity (denominators are non-zero by separate obligations)"""
    n, _ = to_fraction(x)
    return n.is_zero()


# ----------------------------------------------------------------------------------------------------------- log / exp


def _prime_factors(n):
    out = {}
    p = 2
    while p * p <= n:
        while n % p == 0:
            out[p] = out.get(p, 0) + 1
            n //= p
        p += 1
    if n > 1:
        out[n] = out.get(n, 0) + 1
    return out


def log_const(c):
    c = Fraction(c)
    if c <= 0:
        raise ValueError("log of non-positive constant %s" % c)
    out = Num.const(0)
    for p, e in _prime_factors(c.numerator).items():
        out = out + e * sym("log%d" % p)
    for p, e in _prime_factors(c.denominator).items():
        out = out - e * sym("log%d" % p)
    return out


def slog(x):
    """log in log-linear normal form.  Positivity of the argument is the caller's obligation."""
    x = Num.const(x) if not isinstance(x, Num) else x
    if x.is_zero():
        raise ValueError("log(0)")
    if len(x.terms) == 1:
        (m, c), = x.terms.items()
        if c < 0:
            raise ValueError("log of a negative monomial %r" % (x,))
        out = log_const(c)
        for a, p in m:
            out = out + p * _log_atom(a)
        return out
    c, prim = x.content_split()
    # pull out the monomial of minimal exponents (missing atom = exponent 0): makes the remaining polynomial free of
    # negative powers and of common factors, so that log(1 + b/a) + log a and log(a + b) share one normal form
    atoms_all = set()
    for m in prim.terms:
        atoms_all.update(a for a, _ in m)
    common = {}
    for a in atoms_all:
        mn = min(dict(m).get(a, 0) for m in prim.terms)
        if mn != 0:
            common[a] = mn
    out = log_const(c)
    if common:
        cm = tuple(sorted(common.items(), key=lambda ap: ap[0].key))
        prim = prim * Num({_mono_pow(cm, -1): Fraction(1)})
        for a, p in cm:
            out = out + p * _log_atom(a)
        c2, prim = prim.content_split()
        out = out + log_const(c2)
    pa = Atom("poly", "poly", sort="Real", payload=prim)
    return out + raw_app("Log", Num.of_atom(pa))


def _log_atom(a):
    if a.kind == "app" and a.name == "Exp":
        return a.args[0]
    if a.kind == "poly":
        return slog(a.payload)
    return raw_app("Log", Num.of_atom(a))


def sexp(x):
    x = Num.const(x) if not isinstance(x, Num) else x
    out = Num.const(1)
    for m, c in x.terms.items():
        if m == ():
            if c == 0:
                continue
            out = out * raw_app("Exp", Num.const(c))
            continue
        if len(m) == 1 and m[0][1] == 1 and c.denominator == 1:
            a = m[0][0]
            if a.kind == "app" and a.name == "Log":
                out = out * (a.args[0] ** int(c))
                continue
            if a.kind == "sym" and a.name.startswith("log") and a.name[3:].isdigit():
                out = out * (Num.const(int(a.name[3:])) ** int(c))
                continue
        if c.denominator == 1:
            out = out * (raw_app("Exp", Num({m: Fraction(1)})) ** int(c))
        else:
            out = out * raw_app("Exp", Num({m: c}))
    return out


# ----------------------------------------------------------------------------------------------------------- big sums

_BOUND = Atom("sym", "#i", sort="Int")
_BOUND_COUNTER = [0]


def bound_index():
    return Num.of_atom(_BOUND)


def fresh_bound():
    """a new bound index variable (for nested sums); bigsum() renames it to a canonical name by nesting depth"""
    _BOUND_COUNTER[0] += 1
    return Num.of_atom(Atom("sym", "#t%d" % _BOUND_COUNTER[0], sort="Int"))


def is_bound_atom(a):
    return a.kind == "sym" and a.name.startswith("#")


def has_bound(x):
    """does the number mention a (not yet summed-over) bound index variable?"""
    return any(is_bound_atom(a) for a in x.all_atoms_free())


def _sum_depth(x):
    d = 0
    for a in x.all_atoms():
        if a.kind == "app" and a.name == "BigSum":
            d = max(d, int(a.args[0]))
    return d


def bigsum(seq_key, length, body, bound=None):
    """Sum over the bound index in [0, length) of body.  Linearity and index-independent factors are normalised away;
    what remains are BigSum atoms identified by (nesting depth, canonical summand, index range)."""
    batom = list((bound if bound is not None else bound_index()).atoms())[0]
    length_n = length if isinstance(length, Num) else Num.const(length)
    out = Num.const(0)
    for m, c in body.terms.items():
        indep = tuple((a, p) for a, p in m if not a.depends_on(batom))
        dep = tuple((a, p) for a, p in m if a.depends_on(batom))
        fac = Num({indep: c})
        if not dep:
            out = out + fac * length_n
        else:
            depnum = Num({dep: Fraction(1)})
            depth = _sum_depth(depnum) + 1  # true nesting depth of the summand
            canon = Atom("sym", "#b%d" % depth, sort="Int")
            if batom != canon:
                depnum = depnum.subst({batom: Num.of_atom(canon)})
            # the substitution may have re-normalised the summand into several monomials
            for m2, c2 in depnum.terms.items():
                out = out + fac * c2 * Num.of_atom(Atom("app", "BigSum", (str(depth), Num({m2: Fraction(1)}), length_n), sort="Real"))
    return out


# ----------------------------------------------------------------------------------------------------------- to z3

_UF = {}


def _uf(name, arity, sort):
    k = (name, arity, sort)
    if k not in _UF:
        rng = z3.IntSort() if sort == "Int" else z3.RealSort()
        _UF[k] = z3.Function(name, *([z3.RealSort()] * arity), rng)
    return _UF[k]


def _int_pow(e, p):
    if p == 1:
        return e
    r = e
    for _ in range(abs(p) - 1):
        r = r * e
    return r


def to_z3(x, cache=None):
    """Translate a Num to a z3 arithmetic term (Real unless every atom is Int and coefficients are integral)."""
    if cache is None:
        cache = {}
    x = Num.const(x) if not isinstance(x, Num) else x
    want_int = x.sort() == "Int"
    total = None
    for m, c in sorted(x.terms.items(), key=lambda mc: _mono_key(mc[0])):
        t = None
        den = None
        for a, p in m:
            az = atom_to_z3(a, cache)
            if not want_int and z3.is_int(az):
                az = z3.ToReal(az)
            f = _int_pow(az, p)
            if p > 0:
                t = f if t is None else t * f
            else:
                den = f if den is None else den * f
        coef = z3.IntVal(int(c)) if want_int else z3.RealVal(str(c))
        if t is None:
            t = coef
        elif c != 1:
            t = coef * t
        if den is not None:
            t = t / den
        total = t if total is None else total + t
    if total is None:
        total = z3.IntVal(0) if want_int else z3.RealVal(0)
    return total


def _is_linear(x):
    for m in x.terms:
        deg = 0
        for at, p in m:
            if p < 0 or at.kind == "poly":
                return False
            deg += p
        if deg > 1:
            return False
    return True


def atom_to_z3(a, cache):
    if a.key in cache:
        return cache[a.key]
    if a.kind == "sym":
        r = z3.Int(a.name) if a.sort == "Int" else z3.Real(a.name)
    elif a.kind == "z3":
        r = a.payload
    elif a.kind == "poly":
        r = to_z3(a.payload, cache)
        if z3.is_int(r):
            r = z3.ToReal(r)
    elif a.kind == "app":
        if a.name == "BigSum":
            r = z3.Real("BigSum[%s|%s|%s]" % (a.args[0], a.args[1].key(), a.args[2].key()))
        else:
            zargs = []
            for arg in a.args:
                if isinstance(arg, Num) and a.name not in ("Log", "Exp", "LGamma") and not _is_linear(arg):
                    # a non-linear argument of an uninterpreted application is abstracted to an opaque constant keyed by its
                    # normal form: congruence then holds for syntactically equal arguments only (sound, incomplete) and no
                    # division / product inside an argument reaches the non-linear solver
                    k = "arg:" + arg.key()
                    if k not in cache:
                        import hashlib

                        cache[k] = z3.Real("arg!" + hashlib.sha1(arg.key().encode()).hexdigest()[:12])
                    zargs.append(cache[k])
                    continue
                if isinstance(arg, Num):
                    za = to_z3(arg, cache)
                    if z3.is_int(za):
                        za = z3.ToReal(za)
                    zargs.append(za)
                else:
                    zargs.append(z3.RealVal(0) if arg is None else z3.Real("const[%r]" % (arg,)))
            r = _uf(a.name, len(zargs), a.sort)(*zargs)
    else:
        raise ValueError(a.kind)
    cache[a.key] = r
    return r
