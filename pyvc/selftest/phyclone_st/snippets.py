"""Corpus for the engine-vs-CPython differential test (tools/engine_selftest.py). Every function takes small integers and returns
integers / booleans / None or tuples, lists and dictionaries of them. The functions exercise the Python constructs that the code
under contract in /repo uses; they are executed natively and by the pyvc interpreter (concrete and symbolic arguments) and the
results must agree. Nothing here is derived from /repo."""
import math
from collections import defaultdict

LIMIT = 3


def arith(x, y):
    return x + y * 2 - (x - y) * (y + 1)


def true_div(x, y):
    return (x + 1) / (y * y + 1)


def floor_mod_pos(x, y):
    d = y * y + 1
    return x // d, x % d


def floor_mod_const(x, y):
    return (x + 10) // 3, (y + 10) % 4, (-7) // 2, (-7) % 3, 7 // -2, 7 % -3


def power(x, y):
    return x ** 2 + y ** 3, 2 ** 3


def neg_abs(x, y):
    return -x, abs(x - y), +y


def chained(x, y):
    return 0 <= x < y, x < y <= 3, x == y != 2, not (x > y)


def short_circuit_values(x, y):
    a = x or y
    b = x and y
    c = (x > 0) or (y > 0)
    d = (x > 0) and (y > 0)
    return a, b, c, d


def ternary(x, y):
    return x if x > y else y, (1 if x else 2), (3 if x == y else 4)


def if_chain(x, y):
    if x < 0:
        r = 1
    elif x == 0:
        if y > 2:
            r = 2
        else:
            r = 3
    elif x < y:
        r = 4
    else:
        r = 5
    return r


def min_max(x, y):
    return min(x, y), max(x, y, 1), min([x, y, 0]), max((x, 2))


def bool_int(x, y):
    return (x > y) + (x == y) * 2, int(x < y), bool(x), bool(x - y)


def list_build(x, y):
    xs = [x, y, x + y]
    xs.append(x * y)
    xs.extend([1, 2])
    xs.insert(1, 9)
    return xs, len(xs), xs[0], xs[-1], xs[2]


def list_slices(x, y):
    xs = [x, y, 3, 4, 5, 6]
    return xs[1:3], xs[:2], xs[-2:], xs[::2], xs[::-1], xs[1:-1], xs[4:1:-1]


def list_pop_index(x, y):
    xs = [x, y, 7, 8]
    a = xs.pop()
    b = xs.pop(0)
    xs.remove(7)
    return a, b, xs, [5, 6, 7].index(6)


def list_mutation_alias(x, y):
    xs = [x, y]
    ys = xs
    zs = list(xs)
    ys.append(1)
    zs.append(2)
    xs[0] = xs[0] + 10
    return xs, ys, zs, xs is ys, xs is zs, xs == zs


def nested_lists(x, y):
    g = [[0] * 3 for _ in range(2)]
    g[0][1] = x
    g[1][2] = y
    h = [[0] * 2] * 2
    h[0][0] = x
    return g, h


def tuple_unpack(x, y):
    a, b = y, x
    (c, d), e = (a, b), a + b
    return a, b, c, d, e


def starred_unpack(x, y):
    f, *rest = [x, y, 1, 2]
    return f, rest


def swap_aug(x, y):
    x, y = y, x
    x += 2
    y -= x
    x *= 3
    return x, y


def for_range(x, y):
    s = 0
    for i in range(4):
        s += i * x
    for i in range(1, 6, 2):
        s -= i
    for i in range(3, 0, -1):
        s = s * 2 + i * y
    return s


def for_enumerate_zip(x, y):
    xs = [x, y, 5]
    ys = [1, x, y, 9]
    out = []
    for i, v in enumerate(xs):
        out.append(i * v)
    for a, b in zip(xs, ys):
        out.append(a - b)
    for i, (a, b) in enumerate(zip(xs, ys), 1):
        out.append(i + a + b)
    return out


def while_loop(x, y):
    n = 0
    i = 0
    while i < 5:
        i += 1
        if i == 2:
            continue
        if i > LIMIT + 1:
            break
        n += i * x + y
    return n, i


def for_else(x, y):
    for i in range(3):
        if i == x:
            r = 10 + i
            break
    else:
        r = -1
    return r


def comprehension(x, y):
    xs = [x, y, 2, 3]
    a = [v * 2 for v in xs if v > 0]
    b = {v: i for i, v in enumerate(xs)}
    c = sum(v for v in xs)
    d = any(v == 2 for v in xs), all(v > 0 for v in xs)
    e = [(i, j) for i in range(2) for j in range(i, 2)]
    f = sorted({v % 3 for v in [1, 2, 3, 4, 5]})
    return a, b, c, d, e, f


def dict_ops(x, y):
    d = {"a": x, "b": y}
    d["c"] = x + y
    d["a"] += 1
    e = d.get("z", 7), d.get("a"), "b" in d, "q" in d, len(d)
    del d["b"]
    p = d.pop("c")
    d.setdefault("k", []).append(x)
    d.setdefault("k", []).append(y)
    return d, e, p, list(d.keys()), list(d.values()), sorted(d.items())


def dict_int_keys(x, y):
    d = {}
    d[x] = 1
    d[y] = 2
    d[x + 1] = 3
    return len(d), d[x], d[y], d.get(5, -1), x in d, (y + 1) in d, 7 in d


def dict_sorted_keys(x, y):
    d = {x: 1, y: 2, x + 1: 3}
    return sorted(d), sorted(d.items())


def dict_iteration_order(x, y):
    d = {3: x, 1: y, 2: 0}
    out = []
    for k in d:
        out.append(k)
    for k, v in d.items():
        out.append(v)
    d[0] = 9
    del d[3]
    d[3] = 4
    return out, list(d)


def default_dict(x, y):
    d = defaultdict(list)
    d[x].append(1)
    d[y].append(2)
    d[x].append(3)
    return len(d), d[x], d[y], list(d[x + 5]), len(d)


def set_ops(x, y):
    s = {x, y, 1}
    s.add(2)
    s.discard(y)
    t = set([1, 2, 3])
    return len(s), 1 in s, x in s, y in s, frozenset([x, y]) == frozenset([y, x]), len({x, y}), len(set([x, y, x])), {x, 1} == {1, y}


def set_sorted(x, y):
    s = {x, y, 1}
    return sorted(s)


def set_algebra(x, y):
    s = {x, y, 1}
    t = set([1, 2, 3])
    return sorted(s & t), sorted(s | t), sorted(t - s)


def set_compare(x, y):
    s = {x, y, 1}
    t = set([1, 2, 3])
    return s <= t, s == t, {1} < t


def builtins_misc(x, y):
    xs = [x, y, 3, 1]
    return sum(xs), len(xs), list(reversed(xs)), list(range(x, x + 3)), tuple(xs), x in xs, 3 in xs, xs.count(3) if False else 0


def sorting(x, y):
    xs = [x, y, 3, 1]
    return sorted(xs), sorted(xs, reverse=True)


def sorted_key_map(x, y):
    xs = [x, y, 3, 1]
    return sorted(xs, key=lambda v: -v), list(map(lambda v: v + 1, xs))


def is_none(x, y):
    a = None
    if x > 0:
        a = y
    return a is None, a is not None, (a if a is not None else -1)


def closures(x, y):
    def add(k):
        return k + x

    def make(n):
        def inner(v):
            return v * n + y

        return inner

    f = make(3)
    g = lambda v, w=2: v * w + x
    return add(1), f(2), g(1), g(1, w=5), [h(1) for h in [add, f]]


def default_args(x, y):
    def f(a, b=2, *args, c=3, **kw):
        return a + b * 10 + c * 100 + sum(args) * 1000 + sum(kw.values()) * 10000

    return f(x), f(x, y), f(x, y, 1, 1), f(x, c=y), f(x, y, z=1, w=2), f(*[x, y]), f(**{"a": x, "b": y})


def recursion(x, y):
    def fact(n):
        return 1 if n <= 1 else n * fact(n - 1)

    def fib(n):
        if n < 2:
            return n
        return fib(n - 1) + fib(n - 2)

    return fact(4), fib(6), fact(abs(x))


class Counter:
    kind = "counter"

    def __init__(self, start):
        self.value = start
        self._log = []

    @property
    def doubled(self):
        return self.value * 2

    @property
    def log(self):
        return self._log

    def bump(self, by=1):
        self.value += by
        self._log.append(by)
        return self

    @staticmethod
    def zero():
        return 0

    @classmethod
    def make(cls, v):
        return cls(v + 1)

    def __len__(self):
        return len(self._log)


class SubCounter(Counter):
    def __init__(self, start, step):
        super().__init__(start)
        self.step = step

    def bump(self, by=1):
        super().bump(by * self.step)
        return self


def classes(x, y):
    c = Counter(x)
    c.bump().bump(y)
    d = SubCounter(y, 3)
    d.bump(2)
    e = Counter.make(x)
    alias = c
    alias.value += 100
    return c.value, c.doubled, c.log, len(c), d.value, d.step, d.log, e.value, Counter.zero(), c.kind, isinstance(d, Counter), isinstance(c, SubCounter), bool(Counter(0))


def math_funcs(x, y):
    return abs(-3), int(7 / 2), int(-7 / 2), math.log(1), math.exp(0)


def int_trunc(x, y):
    return int(x / 2), int(-x / 2), int((x + y) / 3)


def math_rounding(x, y):
    return math.floor((x + 0.5)), math.ceil(y / 2), round(2.5), round(3.5), divmod(7, 3)


def early_return(x, y):
    for i in range(5):
        if i * i > x + 3:
            return i
        if i == y:
            return -i
    return 100


def string_keys(x, y):
    d = {"n%d" % 1: x}
    name = "root" if x > y else "leaf"
    return name, name == "root", len(name), ("a" + "b"), name in ("root", "x")


def augmented_subscript(x, y):
    xs = [1, 2, 3]
    xs[1] += x
    xs[-1] *= y
    d = {"a": [0]}
    d["a"][0] -= x
    d["a"] += [y]
    return xs, d


def truthiness(x, y):
    out = []
    for v in ([], [0], (), {}, {1: 2}, "", "a", 0, 1, None, x, x - y):
        if v:
            out.append(1)
        else:
            out.append(0)
    return out, not [], not [x]


def equality(x, y):
    return [x, y] == [y, x], (x, 1) == (x, 1), {1: x} == {1: x}, {x} == {y}, x != y, (x,) != (x,), None == x, [x] * 2 == [x, x]


def sequence_ordering(x, y):
    return (x, y) < (y, x), [1, 2] < [1, 3], (x, 1) <= (x, y)


def index_errors(x, y):
    xs = [1, 2, 3]
    return xs[x]


def key_errors(x, y):
    d = {0: 1, 1: 2}
    return d[x] + d[y]


def zero_division(x, y):
    return 10 // (x - y) if (x + y) % 2 == 0 else 10 / (x - y)


def asserts(x, y):
    assert x >= y, "x must not be below y"
    return x - y


def raises(x, y):
    if x == y:
        raise ValueError("equal")
    return 1




def dict_symbolic_keys(x, y):
    d = {x: 10, y: 20}
    d[x + y] = 30
    a = d[y]
    if 0 in d:
        del d[0]
    d[1] = d.get(1, 0) + 1
    return len(d), a, d.get(x, -1), d.get(2, -2), [k == x for k in d][0]


def set_symbolic(x, y):
    s = set()
    s.add(x)
    s.add(y)
    s.add(2)
    n1 = len(s)
    s.discard(0)
    s.discard(x)
    return n1, len(s), y in s, 2 in s


def symbolic_index(x, y):
    xs = [10, 20, 30, 40, 50, 60]
    return xs[x], xs[y + 2], xs[x:][0] if False else 0


def symbolic_range(x, y):
    s = 0
    for i in range(x):
        s += i + y
    t = 0
    for i in range(y, x):
        t += 1
    return s, t


def while_symbolic(x, y):
    n = 0
    while x > 0 and n < 10:
        x -= 1
        n += y
    return n, x


def mixed_division(x, y):
    d = y if y != 0 else 1
    return x // d, x % d, (x * 7) // 2, (x * 7) % 2, -x // 2, divmod(x, 3) if False else 0


def nested_conditions(x, y):
    r = 0
    if x > 0:
        if y > 0 or x == 2:
            r += 1
        r += 10
    if not (x > y and y >= 0):
        r += 100
    if x in (1, 2) and y not in (0,):
        r += 1000
    return r


def object_state(x, y):
    c = Counter(0)
    if x > y:
        c.bump(x)
    else:
        c.bump(y).bump(1)
    cs = [Counter(i) for i in range(3)]
    cs[1].bump(x)
    return c.value, len(c), [k.value for k in cs], bool(c), bool(Counter(5))


def list_of_lists_alias(x, y):
    row = [x, y]
    g = [row, row, list(row)]
    g[0][0] = 99
    return g, g[1] is row, g[2] == row


def string_branch(x, y):
    kind = "big" if x > 1 else ("mid" if x == 1 else "small")
    table = {"big": 3, "mid": 2, "small": 1}
    return table[kind] * y, kind != "big"


def min_max_symbolic(x, y):
    return min(x, y, 1), max(x, y) - min(x, y), max([x, y, 0]), abs(x) + abs(y), sum([x, y, x])


def tuple_keys(x, y):
    d = {(0, 1): x, (1, 0): y}
    d[(1, 1)] = x + y
    return d[(0, 1)], d[(1, 0)], (1, 1) in d, (2, 2) in d, len(d)


class Point:
    def __init__(self, a, b):
        self._a = a
        self.b = b

    @property
    def a(self):
        return self._a

    @a.setter
    def a(self, v):
        self._a = v * 2

    def __eq__(self, other):
        return isinstance(other, Point) and self._a == other._a and self.b == other.b

    def __hash__(self):
        return hash((self._a, self.b))


def property_setter(x, y):
    p = Point(x, y)
    p.a = y
    p.b += 1
    q = Point(y * 2, y + 1)
    return p.a, p.b, p == q, p != q, p == 3, p is q


def try_except(x, y):
    xs = [1, 2, 3]
    try:
        v = xs[x]
    except IndexError:
        v = -1
    d = {0: 5}
    try:
        w = d[y]
    except KeyError:
        w = -2
    return v, w


def nonlocal_counter(x, y):
    count = 0

    def bump(k):
        nonlocal count
        count += k
        return count

    bump(x)
    bump(y)
    return count, bump(1)


def list_sort_methods(x, y):
    xs = [3, 1, 2]
    xs.sort()
    ys = [3, 1, 2]
    ys.sort(reverse=True)
    ys.reverse()
    zs = xs.copy()
    zs.clear()
    return xs, ys, zs, xs.count(1), [1, 2] + [x], [y] * 2


def any_all_lists(x, y):
    xs = [x > 0, y > 0]
    return any(xs), all(xs), any([]), all([]), any(v > 2 for v in (x, y)), all(v < 3 for v in (x, y))


def isinstance_checks(x, y):
    v = [x] if x > 0 else (x, y)
    return isinstance(v, list), isinstance(v, tuple), isinstance(v, (list, tuple)), isinstance(x, int), isinstance("a", str), isinstance(None, int)


def enumerate_start(x, y):
    out = []
    for i, v in enumerate([x, y, 7], start=2):
        out.append(i * v)
    for i in reversed(range(3)):
        out.append(i + x)
    return out


def max_with_key(x, y):
    pairs = [(1, x), (2, y), (3, 0)]
    return max(pairs, key=lambda p: p[1])[0] if x != y and x != 0 and y != 0 else -1, min(pairs, key=lambda p: p[0])


def dict_views(x, y):
    d = {"a": x, "b": y}
    vs = list(d.values())
    ks = list(d)
    items = [(k, v) for k, v in d.items()]
    e = dict(d)
    e["a"] = 100
    f = d.copy()
    f.update({"c": 1, "a": 2})
    return vs, ks, items, d["a"], e["a"], sorted(f), x in d.values(), len(f)


def while_else(x, y):
    i = 0
    while i < 3:
        if i == x:
            break
        i += 1
    else:
        i = 10
    return i


def string_format(x, y):
    a = "t_" + str(3)
    b = "n{}".format(2)
    c = f"k{1}"
    return a == "t_3", b == "n2", c == "k1", len(a), a.startswith("t_"), "_".join(["a", "b"]), a.split("_")


def accumulate_pattern(x, y):
    best = None
    best_i = -1
    for i, v in enumerate([x, y, 1, x + y]):
        if best is None or v > best:
            best = v
            best_i = i
    total = 0
    for v in [x, y]:
        if v < 0:
            continue
        total += v
    return best, best_i, total


def global_constant(x, y):
    return x + LIMIT, LIMIT * y, Counter.kind


def none_use_caught(x, y):
    v = None if x > 0 else [1, 2]
    try:
        a = v.count(1)
    except AttributeError:
        a = -1
    w = None if y > 1 else {0: 5}
    try:
        b = w[0]
    except TypeError:
        b = -2
    return a, b


def none_use_uncaught(x, y):
    v = None if x == y else (x, y)
    return v[0] + 1


def nested_try(x, y):
    out = []
    for k in (x, y):
        try:
            try:
                out.append([10, 20, 30][k])
            except KeyError:
                out.append(-5)
            finally:
                out.append(99)
        except (IndexError, ValueError):
            out.append(-1)
    return out


def count_in_loop(x, y):
    s = 0
    for i in range(x):
        s += (i > y)
    t = 0
    for i in range(x):
        t += i // 2 + i % 2
    u = sum(map(lambda k: k == y, range(x)))
    return s, t, u


def filtered_generator_sum(x, y):
    return sum(1 for k in range(x) if k != y)


def sums_with_conditionals(x, y):
    s = 0
    for i in range(x):
        s += max(i, y) + abs(i - y) + (1 if i == y else 0)
    t = sum(min(k, 1) for k in range(x))
    return s, t


def nested_sum_loops(x, y):
    u = 0
    for i in range(x):
        for j in range(y):
            u += (i < j) + i * j
    return u


def modular_sum_loop(x, y):
    w = 0
    for i in range(x):
        w += (i + y) % 3 + (i + 4) // 2
    return w


def list_built_in_loop(x, y):
    out = []
    for i in range(3):
        out.append(i * x + (y if i % 2 else -y))
    acc = []
    for v in out:
        if v > 0:
            acc.append(v)
    return out, acc, len(acc)


def bitwise_ops(x, y):
    a = (x + 64) % 32
    b = (y + 64) % 32
    return a ^ b, (a ^ b) == 0, (a ^ b) == (b ^ a), 12 ^ 10, 12 & 10, 12 | 10, (a ^ b) ^ b == a


_KEYS_TABLE = {"first": int, "second": str}


def module_level_display(x, y):
    return sorted(_KEYS_TABLE), len(_KEYS_TABLE), "first" in _KEYS_TABLE


FUNCS = [bitwise_ops, module_level_display, sums_with_conditionals, nested_sum_loops, modular_sum_loop, list_built_in_loop, count_in_loop, filtered_generator_sum, none_use_caught, none_use_uncaught, nested_try, property_setter, try_except, nonlocal_counter, list_sort_methods, any_all_lists, isinstance_checks, enumerate_start, max_with_key, dict_views, while_else, string_format, accumulate_pattern, global_constant, dict_sorted_keys, set_sorted, sorting, int_trunc, dict_symbolic_keys, set_symbolic, symbolic_index, symbolic_range, while_symbolic, mixed_division, nested_conditions, object_state, list_of_lists_alias, string_branch, min_max_symbolic, tuple_keys, set_algebra, starred_unpack, set_compare, sorted_key_map, math_rounding, sequence_ordering, arith, true_div, floor_mod_pos, floor_mod_const, power, neg_abs, chained, short_circuit_values, ternary, if_chain, min_max, bool_int, list_build,
         list_slices, list_pop_index, list_mutation_alias, nested_lists, tuple_unpack, swap_aug, for_range, for_enumerate_zip, while_loop, for_else,
         comprehension, dict_ops, dict_int_keys, dict_iteration_order, default_dict, set_ops, builtins_misc, is_none, closures, default_args, recursion,
         classes, math_funcs, early_return, string_keys, augmented_subscript, truthiness, equality, index_errors, key_errors, zero_division, asserts, raises]
