"""Symbolic interpreter for the Python subset used by the functions under contract.

Path-by-path execution (re-execution DFS over the decisions taken at symbolic branches); values are concrete Python
values, alg.Num (symbolic numbers), SBool (symbolic booleans), Obj (instances of repository classes, real methods
executed), Model (collaborators given by their contracts).  Every `assert`, subscript, key lookup, division, `raise`
and callee precondition generates a verification condition that is discharged by z3 under the path condition.
"""
import ast
import sys
import time
from fractions import Fraction

import z3

from pyvc import alg
from pyvc.alg import Num
from pyvc.source import ClassInfo, ExternalRef, FuncInfo, ModuleInfo, Repo, Unsupported

# ----------------------------------------------------------------------------------------------------------- values


def _z3_truth(self):
    """z3py lets an equality be used as a Python truth value (structural comparison of the two sides); in a contract
    `formula and x` would then silently drop x.  Only the constants true / false may be used that way here."""
    if z3.is_true(self):
        return True
    if z3.is_false(self):
        return False
    raise TypeError("z3 formula used as a Python truth value: %s" % self)


z3.AstRef.__bool__ = _z3_truth


class SBool:
    __slots__ = ("e",)

    def __init__(self, e):
        self.e = e

    def __repr__(self):
        return "SBool(%s)" % self.e

    def __bool__(self):
        raise Unsupported("symbolic boolean used in a concrete context: %s" % self.e)


class Obj:
    """Instance of a repository class; its real methods are executed."""

    def __init__(self, cls):
        self.cls = cls
        self.fields = {}

    def __repr__(self):
        return "<%s obj>" % self.cls.name


class Model:
    """A collaborator represented by its (assumed or separately verified) contract.  Subclasses implement
    attribute `a_<name>(self, I)` and method `m_<name>(self, I, *args, **kwargs)` handlers."""

    py_classes = ()

    def getattr(self, I, name):
        h = getattr(self, "a_" + name, None)
        if h is not None:
            return h(I)
        if getattr(self, "m_" + name, None) is not None:
            return BoundModelMethod(self, name)
        raise Unsupported("model %s has no attribute %s" % (type(self).__name__, name))

    def setattr(self, I, name, value):
        h = getattr(self, "set_" + name, None)
        if h is None:
            raise Unsupported("model %s: attribute %s is not assignable" % (type(self).__name__, name))
        h(I, value)

    def call(self, I, name, args, kwargs):
        h = getattr(self, "m_" + name, None)
        if h is None:
            raise Unsupported("model %s has no method %s" % (type(self).__name__, name))
        return h(I, *args, **kwargs)


class BoundModelMethod:
    def __init__(self, model, name):
        self.model = model
        self.name = name


class BoundMethod:
    def __init__(self, func, self_obj):
        self.func = func
        self.self_obj = self_obj


class Closure:
    def __init__(self, node, env, module, kind="lambda"):
        self.node = node
        self.env = env
        self.module = module
        self.kind = kind
        self.attrs = {}


class LruFn:
    """functools.lru_cache(f): results are stored under the call's arguments; a later call is a hit when every argument has
    the same hash as the stored one (hashes are taken when the key is built, i.e. at call time) and compares equal with ==."""

    def __init__(self, fn, name="lru"):
        self.fn = fn
        self.name = name
        self.entries = []  # (args tuple, hashes tuple, value)
        self.events = []
        self.attrs = {}

    def clear(self):
        self.entries = []
        self.events.append(("clear",))


class PyBuiltin:
    def __init__(self, name, fn):
        self.name = name
        self.fn = fn


class SuperProxy:
    def __init__(self, obj, after_cls):
        self.obj = obj
        self.after_cls = after_cls


class _Return(Exception):
    def __init__(self, value):
        self.value = value


class _Break(Exception):
    pass


class _Continue(Exception):
    pass


class PyRaise(Exception):
    """A Python exception raised on this path (by `raise`, a failing assert, or a failing safety check)."""

    def __init__(self, what):
        self.what = what


class PathInfeasible(Exception):
    pass


class PathEnd(Exception):
    """The path ends here on purpose (after the inductive step of a loop cut)."""


# ----------------------------------------------------------------------------------------------------------- path state


class VC:
    __slots__ = ("name", "status", "detail", "model", "time_s", "kind")

    def __init__(self, name, status, detail="", model=None, time_s=0.0, kind="safety"):
        self.name, self.status, self.detail, self.model, self.time_s, self.kind = name, status, detail, model, time_s, kind


class Path:
    """One execution path: solver with the path condition, decisions, recorded verification conditions, ghost state."""

    def __init__(self, script, timeout_ms=20000):
        self.script = list(script)
        self.pos = 0
        self.trail = []
        self.solver = z3.Solver()
        self.solver.set("timeout", timeout_ms)
        self.zcache = {}
        self.seen_atoms = set()
        self.log_atoms = []
        self.exp_atoms = []
        self.vcs = []
        self.ghost = {}
        self.fresh = 0
        self.effects = []
        self.pc_text = []
        self.assumed_after_check = []

    # -------------------------------------------------------------- symbols
    def fresh_name(self, base):
        self.fresh += 1
        return "%s!%d" % (base, self.fresh)

    def z(self, x):
        """translate a Num / SBool / bool to z3, registering intrinsic facts of new atoms"""
        if isinstance(x, SBool):
            return x.e
        if isinstance(x, bool):
            return z3.BoolVal(x)
        if not isinstance(x, Num):
            x = Num.const(x)
        for a in x.all_atoms():
            if a.key not in self.seen_atoms:
                self.seen_atoms.add(a.key)
                self._atom_facts(a)
        return alg.to_z3(x, self.zcache)

    def _atom_facts(self, a):
        if a.kind == "app" and a.name == "Exp":
            e = alg.atom_to_z3(a, self.zcache)
            arg = alg.to_z3(a.args[0], self.zcache)
            if z3.is_int(arg):
                arg = z3.ToReal(arg)
            # exp > 0, exp 0 = 1, strictly increasing through 0
            self.solver.add(e > 0, z3.Implies(arg > 0, e > 1), z3.Implies(arg < 0, e < 1), z3.Implies(arg == 0, e == 1))
            # log(exp y) = y, instantiated against every Log atom on the path: A == exp(y) -> log(A) == y
            self.exp_atoms.append((e, arg))
            for (le, larg) in self.log_atoms:
                self.solver.add(z3.Implies(larg == e, le == arg))
        elif a.kind == "sym" and a.name.startswith("log") and a.name[3:].isdigit():
            import math

            v = math.log(int(a.name[3:]))
            e = alg.atom_to_z3(a, self.zcache)
            self.solver.add(e > z3.RealVal("%.9f" % (v - 1e-8)), e < z3.RealVal("%.9f" % (v + 1e-8)))
        elif a.kind == "app" and a.name == "Log":
            e = alg.atom_to_z3(a, self.zcache)
            arg = alg.to_z3(a.args[0], self.zcache)
            if z3.is_int(arg):
                arg = z3.ToReal(arg)
            # term-directed instances of: log 1 = 0, log strictly increasing through 1
            self.solver.add(z3.Implies(arg == 1, e == 0), z3.Implies(arg > 1, e > 0), z3.Implies(z3.And(arg > 0, arg < 1), e < 0))
            self.log_atoms.append((e, arg))
            for (ee, earg) in self.exp_atoms:
                self.solver.add(z3.Implies(arg == ee, e == earg))
        elif a.kind == "app" and a.name == "BigSum":
            # a sum of products of exponentials / even powers is >= 0, and > 0 over a non-empty index range
            dep = a.args[1]
            pos = all(all((at.kind == "app" and at.name == "Exp") or pw % 2 == 0 for at, pw in m) for m in dep.terms) and all(c > 0 for c in dep.terms.values())
            if pos:
                e = alg.atom_to_z3(a, self.zcache)
                n = alg.to_z3(a.args[2], self.zcache)
                strictly = all(all(at.kind == "app" and at.name == "Exp" for at, pw in m) for m in dep.terms)
                self.solver.add(e >= 0)
                if strictly:
                    self.solver.add(z3.Implies(n > 0, e > 0))
            # an empty sum is zero
            self.solver.add(z3.Implies(alg.to_z3(a.args[2], self.zcache) <= 0, alg.atom_to_z3(a, self.zcache) == 0))
        elif a.kind == "app" and a.name == "LGamma":
            e = alg.atom_to_z3(a, self.zcache)
            arg = alg.to_z3(a.args[0], self.zcache)
            if z3.is_int(arg):
                arg = z3.ToReal(arg)
            # lgamma(1) = lgamma(2) = 0
            self.solver.add(z3.Implies(z3.Or(arg == 1, arg == 2), e == 0))

    # -------------------------------------------------------------- assumptions / decisions
    def assume(self, cond, text=None):
        c = self.z(cond) if not z3.is_expr(cond) else cond
        self.solver.add(c)
        if text:
            self.pc_text.append(text)

    def feasible(self, cond):
        self.solver.push()
        self.solver.add(cond)
        r = self.solver.check()
        self.solver.pop()
        return r != z3.unsat

    def decide(self, n):
        if self.pos < len(self.script):
            j = self.script[self.pos]
        else:
            j = 0
        self.pos += 1
        self.trail.append((j, n))
        return j

    def branch(self, cond):
        """cond: SBool / bool / Num (truthiness). Returns a concrete bool, forking when both sides are feasible."""
        if isinstance(cond, bool):
            return cond
        if isinstance(cond, Num):
            if cond.is_const():
                return cond.const_value() != 0
            cond = SBool(self.z(cond) != 0)
        if not isinstance(cond, SBool):
            return bool(cond)
        c = cond.e
        can_t = self.feasible(c)
        can_f = self.feasible(z3.Not(c))
        if can_t and can_f:
            j = self.decide(2)
            if j == 0:
                self.solver.add(c)
                return True
            self.solver.add(z3.Not(c))
            return False
        if can_t:
            return True
        if can_f:
            return False
        raise PathInfeasible()

    # -------------------------------------------------------------- verification conditions
    def check(self, name, goal, detail="", kind="safety"):
        """Prove goal under the path condition; record the result; continue with goal assumed."""
        exc = SAFETY_EXCEPTIONS.get(name.split("[")[0]) if kind == "safety" else None
        if exc is not None and caught_by_enclosing_try(self, exc):
            # the operation is inside `try: ... except <exc>`: its failure is ordinary control flow - fork instead of recording an obligation
            ok = goal if isinstance(goal, bool) else self.branch(SBool(self.z(goal) if not z3.is_expr(goal) else goal))
            if not ok:
                raise PyRaise(exc)
            return True
        if isinstance(goal, bool):
            if goal:
                self.vcs.append(VC(name, "discharged", detail, kind=kind))
                return True
            # a goal that is concretely false on a path that was reached: refuted without asking the solver
            self.vcs.append(VC(name, "refuted", detail, model=None, kind=kind))
            return False
        else:
            g = self.z(goal) if not z3.is_expr(goal) else goal
        t0 = time.time()
        self.solver.push()
        self.solver.add(z3.Not(g))
        r = self.solver.check()
        model = None
        if r == z3.sat:
            m = self.solver.model()
            model = {str(d): str(m[d]) for d in m.decls() if d.arity() == 0}
        self.solver.pop()
        dt = time.time() - t0
        if r == z3.unsat:
            self.vcs.append(VC(name, "discharged", detail, time_s=dt, kind=kind))
            self.solver.add(g)
            return True
        if r == z3.sat:
            self.vcs.append(VC(name, "refuted", detail, model=model, time_s=dt, kind=kind))
            self.solver.add(g)
            if not self.feasible(z3.BoolVal(True)):
                raise PathInfeasible()
            return False
        self.vcs.append(VC(name, "undecided", detail + " [solver: %s]" % self.solver.reason_unknown(), time_s=dt, kind=kind))
        self.solver.add(g)
        return False


SAFETY_EXCEPTIONS = {"index-in-range": "IndexError", "key-present": "KeyError", "nonzero-divisor": "ZeroDivisionError", "assert": "AssertionError"}
EXCEPTION_PARENTS = {"IndexError": ("LookupError",), "KeyError": ("LookupError",), "ZeroDivisionError": ("ArithmeticError",), "AssertionError": (),
                     "ValueError": (), "TypeError": (), "RuntimeError": (), "StopIteration": ()}


def exception_matches(what, caught):
    """does a handler for the class names `caught` (None = bare except) catch the exception described by `what` ("KeyError", "ValueError('x')", ...)?"""
    if caught is None:
        return True
    name = what.split("(")[0].strip().split(".")[-1]
    names = {name, "Exception", "BaseException"} | set(EXCEPTION_PARENTS.get(name, ()))
    return bool(names & set(caught))


def caught_by_enclosing_try(P, what):
    return any(exception_matches(what, c) for c in P.ghost.get("try_stack", ()))


def check_isolated(P, name, goal, assumptions, detail="", kind="safety", timeout_ms=20000):
    """Discharge `goal` from an explicit list of assumptions in a fresh solver (used for small pure-real polynomial
    side conditions, so that nothing else on the path - integer symbols, uninterpreted facts - reaches the NRA engine).
    The assumptions must be facts already assumed on the path (callers pass exactly those)."""
    s = z3.Solver()
    s.set("timeout", timeout_ms)
    for a in assumptions:
        s.add(a)
    s.add(z3.Not(goal))
    t0 = time.time()
    r = s.check()
    dt = time.time() - t0
    if r == z3.unsat:
        # the (non-linear) goal is NOT added to the path solver: it would switch every later query to the NRA engine
        P.vcs.append(VC(name, "discharged", detail, time_s=dt, kind=kind))
        return True
    if r == z3.sat:
        m = s.model()
        P.vcs.append(VC(name, "refuted", detail, model={str(d): str(m[d]) for d in m.decls() if d.arity() == 0}, time_s=dt, kind=kind))
        return False
    P.vcs.append(VC(name, "undecided", detail + " [solver: %s]" % s.reason_unknown(), time_s=dt, kind=kind))
    return False


def explore(run, max_paths=20000, timeout_ms=20000):
    """run(path) is executed once per feasible decision sequence. Yields the finished Path objects."""
    stack = [[]]
    n = 0
    while stack:
        script = stack.pop()
        p = Path(script, timeout_ms=timeout_ms)
        p.outcome = None
        try:
            p.outcome = ("ok", run(p))
        except PathInfeasible:
            p.outcome = ("infeasible", None)
        except PathEnd:
            p.outcome = ("cut", None)
        except PyRaise as e:
            p.outcome = ("raise", e.what)
        n += 1
        if n > max_paths:
            raise Unsupported("path explosion (> %d paths)" % max_paths)
        for depth in range(len(script), len(p.trail)):
            choice, n_alt = p.trail[depth]
            prefix = [c for c, _ in p.trail[:depth]]
            for alt in range(choice + 1, n_alt):
                stack.append(prefix + [alt])
        yield p


# ----------------------------------------------------------------------------------------------------------- interpreter


class Frame:
    def __init__(self, module, func=None, cls=None):
        self.vars = {}
        self.module = module
        self.func = func
        self.cls = cls
        self.self_obj = None


class Interp:
    def __init__(self, repo, path, registry=None, inline_depth=6):
        self.repo = repo
        self.P = path
        self.registry = registry  # contracts / models registry (pyvc.dsl.Registry)
        self.depth = 0
        self.inline_depth = inline_depth
        self.call_stack = []
        self.cur_node = None

    # ============================================================== helpers
    def unsupported(self, node, msg):
        line = getattr(node, "lineno", "?")
        raise Unsupported("%s (line %s of %s)" % (msg, line, self.call_stack[-1] if self.call_stack else "?"))

    def site(self, node):
        fn = self.call_stack[-1] if self.call_stack else "?"
        if node is None or not hasattr(node, "lineno"):
            node = self.cur_node
        return "%s@L%s" % (fn.split(".")[-1], getattr(node, "lineno", "?"))

    def raise_py(self, node, what, cond_reachable=True):
        """A `raise` reached on this path: exception freedom obligation fails unless the path is infeasible."""
        self.P.vcs.append(VC("no-exception[%s]" % self.site(node), "refuted", "reaches: %s" % what, kind="safety",
                             model=self._model_now()))
        raise PyRaise(what)

    def _model_now(self):
        r = self.P.solver.check()
        if r == z3.sat:
            m = self.P.solver.model()
            return {str(d): str(m[d]) for d in m.decls() if d.arity() == 0}
        return None

    def truth(self, v):
        """Python truthiness as bool | SBool"""
        if isinstance(v, (bool, SBool)):
            return v
        if v is None:
            return False
        if isinstance(v, Num):
            if v.is_const():
                return v.const_value() != 0
            return SBool(self.P.z(v) != 0)
        if isinstance(v, (int, float, Fraction, str, list, tuple, dict, set, frozenset)):
            return bool(v)
        if isinstance(v, Model) and hasattr(v, "truth"):
            return v.truth(self)
        if isinstance(v, Model) and hasattr(v, "m___len__"):
            # Python: an object with __len__ and no __bool__ is true iff its length is not zero
            return self.truth(v.m___len__(self))
        if isinstance(v, Obj):
            # Python: __bool__ decides, else __len__ != 0, else every instance is true
            bm = v.cls.find("methods", "__bool__")
            if bm is not None:
                return self.truth(self.call_function(bm, [v], {}))
            lm = v.cls.find("methods", "__len__")
            if lm is not None:
                return self.truth(self.call_function(lm, [v], {}))
            return True
        if isinstance(v, Model):
            return True
        return bool(v)

    def b_not(self, v):
        v = self.truth(v)
        if isinstance(v, SBool):
            return SBool(z3.Not(v.e))
        return not v

    def to_num(self, v):
        if isinstance(v, Num):
            return v
        if isinstance(v, bool):
            return Num.const(int(v))
        if isinstance(v, (int, float, Fraction)):
            return Num.const(v)
        if isinstance(v, SBool):
            return alg.z3atom(z3.If(v.e, z3.IntVal(1), z3.IntVal(0)))
        raise Unsupported("not a number: %r" % (v,))

    # ============================================================== comparison
    def compare(self, op, a, b, node=None):
        if isinstance(op, (ast.Is, ast.IsNot)):
            r = self.identical(a, b)
            return r if isinstance(op, ast.Is) else self.b_not(r)
        if isinstance(op, (ast.In, ast.NotIn)):
            r = self.contains(b, a, node)
            return r if isinstance(op, ast.In) else self.b_not(r)
        if isinstance(op, (ast.Eq, ast.NotEq)):
            r = self.equal(a, b, node)
            return r if isinstance(op, ast.Eq) else self.b_not(r)
        # ordering
        if isinstance(a, Model) and hasattr(a, "compare"):
            return a.compare(self, op, b)
        if isinstance(b, Model) and hasattr(b, "rcompare"):
            return b.rcompare(self, op, a)
        if isinstance(a, (int, float, Fraction)) and isinstance(b, (int, float, Fraction)) and not isinstance(a, bool):
            return {ast.Lt: a < b, ast.LtE: a <= b, ast.Gt: a > b, ast.GtE: a >= b}[type(op)]
        if isinstance(a, float) and a in (float("inf"), float("-inf")) or isinstance(b, float) and b in (float("inf"), float("-inf")):
            return self._cmp_inf(op, a, b)
        za, zb = self.P.z(self.to_num(a)), self.P.z(self.to_num(b))
        za, zb = _coerce(za, zb)
        e = {ast.Lt: za < zb, ast.LtE: za <= zb, ast.Gt: za > zb, ast.GtE: za >= zb}[type(op)]
        e = z3.simplify(e)
        if z3.is_true(e):
            return True
        if z3.is_false(e):
            return False
        return SBool(e)

    def _cmp_inf(self, op, a, b):
        inf = float("inf")
        # a finite (symbolic reals are finite by A-REAL) against an infinity
        if isinstance(b, float) and b == inf:
            return isinstance(op, (ast.Lt, ast.LtE)) if not (isinstance(a, float) and a == inf) else isinstance(op, (ast.LtE, ast.GtE))
        if isinstance(b, float) and b == -inf:
            return isinstance(op, (ast.Gt, ast.GtE)) if not (isinstance(a, float) and a == -inf) else isinstance(op, (ast.LtE, ast.GtE))
        if isinstance(a, float) and a == inf:
            return isinstance(op, (ast.Gt, ast.GtE))
        if isinstance(a, float) and a == -inf:
            return isinstance(op, (ast.Lt, ast.LtE))
        raise Unsupported("inf comparison")

    def identical(self, a, b):
        if a is None or b is None:
            if isinstance(a, Model) and hasattr(a, "is_none"):
                return a.is_none(self)
            if isinstance(b, Model) and hasattr(b, "is_none"):
                return b.is_none(self)
            return a is None and b is None
        return a is b

    def equal(self, a, b, node=None):
        if isinstance(a, Model) and hasattr(a, "eq"):
            return a.eq(self, b)
        if isinstance(b, Model) and hasattr(b, "eq"):
            return b.eq(self, a)
        if isinstance(a, Obj):
            eqm = a.cls.find("methods", "__eq__")
            if eqm is not None:
                return self.call_function(eqm, [a, b], {}, node)
            return a is b
        if isinstance(b, Obj):
            return self.equal(b, a, node)
        if isinstance(a, (Num, SBool)) or isinstance(b, (Num, SBool)):
            if isinstance(a, str) or isinstance(b, str) or a is None or b is None:
                return False
            if isinstance(a, (list, tuple, dict)) or isinstance(b, (list, tuple, dict)):
                return False
            if isinstance(a, SBool) or isinstance(b, SBool):
                za = a.e if isinstance(a, SBool) else z3.BoolVal(bool(a))
                zb = b.e if isinstance(b, SBool) else z3.BoolVal(bool(b))
                return SBool(za == zb)
            if any(isinstance(v, float) and abs(v) == float("inf") for v in (a, b)):
                return isinstance(a, float) and isinstance(b, float) and a == b  # symbolic reals are finite (A-REAL)
            d = self.to_num(a) - self.to_num(b)
            if d.is_zero():
                return True
            if d.is_const():
                return False
            za, zb = _coerce(self.P.z(self.to_num(a)), self.P.z(self.to_num(b)))
            e = z3.simplify(za == zb)
            if z3.is_true(e):
                return True
            if z3.is_false(e):
                return False
            return SBool(e)
        if isinstance(a, SetVal) or isinstance(b, SetVal):
            ia = list(a.items) if isinstance(a, SetVal) else (list(a) if isinstance(a, (set, frozenset)) else None)
            ib = list(b.items) if isinstance(b, SetVal) else (list(b) if isinstance(b, (set, frozenset)) else None)
            if ia is None or ib is None:
                return False
            acc = len(ia) == len(ib)
            if not acc:
                return False
            for x in ia:
                acc = self.b_and(acc, self.contains(ib, x, node))
            return acc
        if isinstance(a, (list, tuple)) and isinstance(b, (list, tuple)):
            if len(a) != len(b) or type(a) != type(b):
                return False
            acc = True
            for x, y in zip(a, b):
                acc = self.b_and(acc, self.equal(x, y, node))
            return acc
        try:
            return a == b
        except Exception:
            return a is b

    def b_and(self, a, b):
        a, b = self.truth(a), self.truth(b)
        if a is False or b is False:
            return False
        if a is True:
            return b
        if b is True:
            return a
        return SBool(z3.And(a.e, b.e))

    def b_or(self, a, b):
        a, b = self.truth(a), self.truth(b)
        if a is True or b is True:
            return True
        if a is False:
            return b
        if b is False:
            return a
        return SBool(z3.Or(a.e, b.e))

    def contains(self, container, item, node=None):
        if isinstance(container, Model):
            return container.contains(self, item)
        if isinstance(container, dict):
            container = list(container.keys())
        if isinstance(container, SetVal):
            container = list(container.items)
        if isinstance(container, (list, tuple, set, frozenset)):
            acc = False
            for x in container:
                acc = self.b_or(acc, self.equal(x, item, node))
            return acc
        if isinstance(container, str):
            return item in container
        raise Unsupported("`in` on %r" % (type(container),))

    # ============================================================== arithmetic
    def binop(self, op, a, b, node=None):
        if isinstance(a, Model) and hasattr(a, "binop"):
            return a.binop(self, op, b, False)
        if isinstance(b, Model) and hasattr(b, "binop"):
            return b.binop(self, op, a, True)
        if isinstance(a, (list, tuple)) and isinstance(b, (list, tuple)) and isinstance(op, ast.Add):
            return a + b
        if isinstance(a, (list, tuple)) and isinstance(op, ast.Mult) and isinstance(b, int):
            return a * b
        if isinstance(a, str) and isinstance(op, (ast.Add, ast.Mod, ast.Mult)):
            from pyvc import builtins_model as B

            if isinstance(op, ast.Add):
                if isinstance(b, str):
                    return a + b
                raise Unsupported("str + %s" % type(b).__name__)
            if isinstance(op, ast.Mult):
                if isinstance(b, int):
                    return a * b
                raise Unsupported("str * %s" % type(b).__name__)
            ok, cv = B.concrete_text(b)
            if ok:
                return a % cv
            return B.OpaqueStr("%-formatting of symbolic values")
        conc = (int, float, Fraction)
        if isinstance(a, conc) and isinstance(b, conc) and not isinstance(a, bool) and not isinstance(b, bool):
            if isinstance(a, float) or isinstance(b, float):
                # keep exactness: floats become rationals
                if any(isinstance(v, float) and (v != v or abs(v) == float("inf")) for v in (a, b)):
                    return _py_binop(op, a, b)
                a, b = Num.const(a), Num.const(b)
            else:
                if isinstance(op, ast.Div):
                    if b == 0:
                        self.raise_py(node, "ZeroDivisionError")
                    return _num_or_int(Num.const(a) / Num.const(b))
                if isinstance(op, (ast.Mod, ast.FloorDiv)) and b == 0:
                    self.raise_py(node, "ZeroDivisionError")
                return _py_binop(op, a, b)
        a, b = self.to_num(a), self.to_num(b)
        if isinstance(op, ast.Add):
            r = a + b
        elif isinstance(op, ast.Sub):
            r = a - b
        elif isinstance(op, ast.Mult):
            r = a * b
        elif isinstance(op, ast.Div):
            if b.is_zero():
                self.raise_py(node, "ZeroDivisionError")
            if not b.is_const():
                if self.P.ghost.get("nra_facts") and not alg._is_linear(b):
                    check_isolated(self.P, "nonzero-divisor[%s]" % self.site(node), self.P.z(b) != 0, self.P.ghost["nra_facts"], "divisor %r" % (b,))
                else:
                    self.P.check("nonzero-divisor[%s]" % self.site(node), self.P.z(b) != 0, "divisor %r" % (b,))
            r = a / b
        elif isinstance(op, ast.Pow):
            if b.is_const() and b.const_value().denominator == 1:
                r = a ** int(b.const_value())
            else:
                r = alg.sexp(b * alg.slog(a))
        elif isinstance(op, (ast.Mod, ast.FloorDiv)):
            za, zb = self.P.z(a), self.P.z(b)
            if not (z3.is_int(za) and z3.is_int(zb)):
                raise Unsupported("%% or // on non-integers")
            if not b.is_const():
                self.P.check("nonzero-divisor[%s]" % self.site(node), zb != 0, "modulus %r" % (b,))
            if a.is_const() and b.is_const():
                return _py_binop(op, int(a.const_value()), int(b.const_value()))
            # Python: a // b = floor(a / b) and a % b = a - b * (a // b). SMT-LIB div is the floor for a positive divisor, and
            # floor(a / b) = floor((-a) / (-b)), so for a negative divisor the quotient is (-a) div (-b)
            if b.is_const() and b.const_value() > 0:
                q = za / zb
            else:
                q = z3.If(zb > 0, za / zb, (-za) / (-zb))
            r = alg.z3atom(q if isinstance(op, ast.FloorDiv) else za - zb * q)
        elif isinstance(op, (ast.BitXor, ast.BitAnd, ast.BitOr)):
            za, zb = self.P.z(a), self.P.z(b)
            if not (z3.is_int(za) and z3.is_int(zb)):
                raise Unsupported("bitwise operator on non-integers")
            if a.is_const() and b.is_const():
                return _py_binop(op, int(a.const_value()), int(b.const_value()))
            # exact for operands known to lie in [0, 2^64) (hash digests): the 64-bit vectors of the two integers are combined bit by bit
            lim = 2 ** 64
            if self.P.feasible(z3.Not(z3.And(za >= 0, za < lim, zb >= 0, zb < lim))):
                raise Unsupported("bitwise operator on integers not known to lie in [0, 2^64)")
            if isinstance(op, ast.BitXor):
                # xor of two 64-bit integers as a fresh integer constrained by the group laws the proofs use (an over-approximation of the bit-level
                # definition, hence sound for proving; z3 answers `unknown` on int2bv terms): range, x ^ y = 0 <=> x = y, commutativity and cancellation
                # against every earlier xor of the path (x ^ y = x ^ z <=> y = z)
                xs = self.P.ghost.setdefault("xor_terms", [])
                r = alg.sym("xor#%d" % len(xs), "Int")
                zr = self.P.z(r)
                self.P.assume(z3.And(zr >= 0, zr < lim, (zr == 0) == (za == zb)), "x ^ y on 64-bit integers: in range, zero iff x = y")
                for (pa, pb, pr) in xs:
                    self.P.assume(z3.And(z3.Implies(pa == za, (pr == zr) == (pb == zb)), z3.Implies(pa == zb, (pr == zr) == (pb == za)),
                                         z3.Implies(pb == za, (pr == zr) == (pa == zb)), z3.Implies(pb == zb, (pr == zr) == (pa == za))), "xor: commutative, cancellative")
                xs.append((za, zb, zr))
            else:
                va, vb = z3.Int2BV(za, 64), z3.Int2BV(zb, 64)
                r = alg.z3atom(z3.BV2Int(va & vb if isinstance(op, ast.BitAnd) else va | vb, False))
        else:
            raise Unsupported("binary operator %s" % type(op).__name__)
        return _num_or_int(r)

    # ============================================================== expressions
    def eval(self, node, fr):
        m = getattr(self, "e_" + type(node).__name__, None)
        if m is None:
            self.unsupported(node, "expression %s" % type(node).__name__)
        return m(node, fr)

    def e_Constant(self, node, fr):
        return node.value

    def e_Name(self, node, fr):
        name = node.id
        if name in fr.vars:
            return fr.vars[name]
        return self.resolve_global(name, fr, node)

    def resolve_global(self, name, fr, node=None):
        if self.registry is not None and name in self.registry.globals_override:
            return self.registry.globals_override[name]
        r = fr.module.resolve(name) if fr.module is not None else None
        from pyvc import builtins_model as B

        if r is not None:
            if isinstance(r, tuple) and r[0] == "const":
                return r[1]
            if isinstance(r, ExternalRef) and r.dotted in B.EXTERNAL:
                return B.EXTERNAL[r.dotted]
            return r

        ce = getattr(fr.module, "const_exprs", None) if fr.module is not None else None
        if ce and name in ce:
            # module-level display (dict / tuple / list / set) over names: a fresh value per use, evaluated in the module's own scope
            return self.eval(ce[name], Frame(fr.module))
        if name in B.BUILTINS:
            return B.BUILTINS[name]
        self.unsupported(node, "unresolved name %s" % name)

    def e_Tuple(self, node, fr):
        return tuple(self.eval(e, fr) for e in node.elts)

    def e_List(self, node, fr):
        hook = getattr(self.registry, "empty_list_model", None) if self.registry is not None else None
        if hook is not None and not node.elts:
            r = hook(self, node)  # the harness may abstract a list built by the function under contract
            if r is not None:
                return r
        return [self.eval(e, fr) for e in node.elts]

    def e_Set(self, node, fr):
        return self.make_set([self.eval(e, fr) for e in node.elts])

    def set_insert(self, items, v):
        """insert v into a list of pairwise different values: an element that MAY equal v forks the path (equal: nothing is added)"""
        for w in items:
            e = self.equal(v, w)
            if e is True:
                return False
            if e is False:
                continue
            if self.P.branch(e):
                return False
        items.append(v)
        return True

    def make_set(self, values, frozen=False):
        res = []
        for v in values:
            self.set_insert(res, v)
        if any(isinstance(v, (Num, Obj, Model, SBool)) for v in res):
            return SetVal(res)
        try:
            return frozenset(res) if frozen else set(res)
        except TypeError:
            return SetVal(res)

    def e_Dict(self, node, fr):
        hook = getattr(self.registry, "empty_dict_model", None) if self.registry is not None else None
        if hook is not None and not node.keys:
            return hook(self)  # the harness abstracts the dictionary built by the function under contract
        d = {}
        for k, v in zip(node.keys, node.values):
            if k is None:
                self.unsupported(node, "dictionary unpacking in a display")
            kk = self.eval(k, fr)
            self.setitem(d, kk, self.eval(v, fr), node)  # keys that may be equal fork the path (the later value wins, the first key stays)
        return d

    def e_JoinedStr(self, node, fr):
        from pyvc import builtins_model as B

        parts, known = [], True
        for v in node.values:
            if isinstance(v, ast.Constant):
                parts.append(v.value)
                continue
            val = self.eval(v.value, fr)
            spec = None
            if v.format_spec is not None:
                spec = self.e_JoinedStr(v.format_spec, fr)
            ok, cv = B.concrete_text(val)
            if isinstance(val, str):
                ok, cv = True, val
            if ok and (spec is None or isinstance(spec, str)) and v.conversion in (-1, 115, 114):
                cv = repr(cv) if v.conversion == 114 else (str(cv) if v.conversion == 115 else cv)
                parts.append(format(cv, spec or ""))
            else:
                known = False
                parts.append(("value", val, spec))
        if known:
            return "".join(parts)
        if self.registry is not None and getattr(self.registry, "structured_strings", False):
            return B.StrExpr(("fstring", tuple(parts)))
        return B.OpaqueStr("f-string over symbolic values")

    def e_UnaryOp(self, node, fr):
        v = self.eval(node.operand, fr)
        if isinstance(node.op, ast.Not):
            return self.b_not(v)
        if isinstance(node.op, ast.USub):
            if isinstance(v, Model) and hasattr(v, "neg"):
                return v.neg(self)
            if isinstance(v, (int, float, Fraction)) and not isinstance(v, bool):
                return -v
            return _num_or_int(-self.to_num(v))
        if isinstance(node.op, ast.UAdd):
            return v
        if isinstance(node.op, ast.Invert):
            if isinstance(v, Model) and hasattr(v, "invert"):
                return v.invert(self)
        self.unsupported(node, "unary op")

    def e_BinOp(self, node, fr):
        return self.binop(node.op, self.eval(node.left, fr), self.eval(node.right, fr), node)

    def e_BoolOp(self, node, fr):
        # short-circuit semantics with forking on symbolic operands
        is_and = isinstance(node.op, ast.And)
        last = None
        for i, e in enumerate(node.values):
            last = self.eval(e, fr)
            if i == len(node.values) - 1:
                return last
            t = self.P.branch(self.truth(last))
            if is_and and not t:
                return last if not isinstance(last, (SBool, Num)) else False
            if not is_and and t:
                return last if not isinstance(last, (SBool, Num)) else (True if isinstance(last, SBool) else last)
        return last

    def e_Compare(self, node, fr):
        left = self.eval(node.left, fr)
        acc = True
        for op, rn in zip(node.ops, node.comparators):
            right = self.eval(rn, fr)
            c = self.compare(op, left, right, node)
            if not isinstance(c, (bool, SBool)) and len(node.ops) == 1:
                return c  # an element-wise comparison object (numpy mask)
            acc = self.b_and(acc, c)
            left = right
        return acc

    def e_IfExp(self, node, fr):
        if self.P.branch(self.truth(self.eval(node.test, fr))):
            return self.eval(node.body, fr)
        return self.eval(node.orelse, fr)

    def e_Lambda(self, node, fr):
        return Closure(node, fr, fr.module)

    def e_Attribute(self, node, fr):
        return self.getattr(self.eval(node.value, fr), node.attr, node)

    def e_Subscript(self, node, fr):
        base = self.eval(node.value, fr)
        idx = self.eval_slice(node.slice, fr)
        return self.getitem(base, idx, node)

    def eval_slice(self, s, fr):
        if isinstance(s, ast.Slice):
            return slice(self.eval(s.lower, fr) if s.lower else None, self.eval(s.upper, fr) if s.upper else None,
                         self.eval(s.step, fr) if s.step else None)
        if isinstance(s, ast.Tuple):
            return tuple(self.eval_slice(e, fr) for e in s.elts)
        return self.eval(s, fr)

    def e_Starred(self, node, fr):
        self.unsupported(node, "starred expression")

    def e_ListComp(self, node, fr):
        first = self.eval(node.generators[0].iter, fr)
        if isinstance(first, Model) and hasattr(first, "comprehension"):
            if len(node.generators) != 1:
                self.unsupported(node, "nested comprehension over a symbolic sequence")
            return first.comprehension(self, node, node.generators[0], fr)
        out = []
        self._comp(node.generators, 0, fr, lambda f: out.append(self.eval(node.elt, f)), first)
        return out

    def e_SetComp(self, node, fr):
        first = self.eval(node.generators[0].iter, fr)
        if isinstance(first, Model) and hasattr(first, "set_comprehension"):
            if len(node.generators) != 1:
                self.unsupported(node, "nested set comprehension over a model")
            return first.set_comprehension(self, node, node.generators[0], fr)
        out = []
        self._comp(node.generators, 0, fr, lambda f: out.append(self.eval(node.elt, f)), first)
        return self.make_set(out)

    def e_GeneratorExp(self, node, fr):
        return self.e_ListComp(node, fr)

    def e_DictComp(self, node, fr):
        first = self.eval(node.generators[0].iter, fr)
        if isinstance(first, Model) and hasattr(first, "dict_comprehension"):
            if len(node.generators) != 1:
                self.unsupported(node, "nested dict comprehension over a model")
            return first.dict_comprehension(self, node, node.generators[0], fr)
        fn = self.call_stack[-1] if self.call_stack else None
        hook = getattr(self.registry, "empty_dict_model", None) if self.registry is not None else None
        if isinstance(first, Model) and hasattr(first, "fresh_index") and len(node.generators) == 1 and hook is not None and fn in getattr(self.registry, "generic_loops", ()):
            # {k: v for x in seq} over a symbolic sequence, in a function whose loops the contract handles by the independent-iterations rule:
            # the same as `d = {}; for x in seq: d[k] = v` (a comprehension cannot read the dictionary it builds, so nothing is carried)
            d = hook(self)
            if d is not None:
                gen = node.generators[0]
                if not first.tail and not self.P.branch(SBool(self.P.z(first.core_len) > 0)):
                    return d
                j = first.fresh_index(self, "j")
                self.P.ghost.setdefault("generic_indices", []).append(j)
                sub = Frame(fr.module, fr.func, fr.cls)
                sub.vars = dict(fr.vars)
                sub.self_obj = fr.self_obj
                self.assign_target(gen.target, first.at(self, j), sub)
                keep = True
                for cond in gen.ifs:
                    if not self.P.branch(self.truth(self.eval(cond, sub))):
                        keep = False
                        break
                if keep:
                    self.setitem(d, self.eval(node.key, sub), self.eval(node.value, sub), node)
                return d
        out = {}

        def add(f):
            self.setitem(out, self.eval(node.key, f), self.eval(node.value, f), node)  # keys that may be equal fork the path

        self._comp(node.generators, 0, fr, add, first)
        return out

    def _comp(self, gens, i, fr, emit, first=None):
        if i == len(gens):
            emit(fr)
            return
        g = gens[i]
        it = first if i == 0 else self.eval(g.iter, fr)
        for v in self.iterate(it, g.iter):
            sub = Frame(fr.module, fr.func, fr.cls)
            sub.vars = dict(fr.vars)
            sub.self_obj = fr.self_obj
            self.assign_target(g.target, v, sub)
            ok = True
            for cond in g.ifs:
                if not self.P.branch(self.truth(self.eval(cond, sub))):
                    ok = False
                    break
            if ok:
                self._comp(gens, i + 1, sub, emit)

    def iterate(self, it, node=None):
        if isinstance(it, (list, tuple)):
            return list(it)
        if isinstance(it, range):
            return list(it)
        if isinstance(it, dict):
            return list(it.keys())
        if isinstance(it, (set, frozenset)):
            try:
                return sorted(it)
            except TypeError:
                return list(it)
        if isinstance(it, SetVal):
            return list(it.items)
        if isinstance(it, Model) and hasattr(it, "iterate"):
            return it.iterate(self)
        if isinstance(it, str):
            return list(it)
        raise Unsupported("iteration over %r (line %s)" % (type(it).__name__, getattr(node, "lineno", "?")))

    def e_Call(self, node, fr):
        # super()
        if isinstance(node.func, ast.Name) and node.func.id == "super" and not node.args:
            return SuperProxy(fr.self_obj, fr.cls)
        fn = self.eval(node.func, fr)
        self.cur_node = node
        args = []
        for a in node.args:
            if isinstance(a, ast.Starred):
                args.extend(self.iterate(self.eval(a.value, fr)))
            else:
                args.append(self.eval(a, fr))
        kwargs = {}
        for k in node.keywords:
            if k.arg is None:
                kwargs.update(self.eval(k.value, fr))
            else:
                kwargs[k.arg] = self.eval(k.value, fr)
        self.cur_node = node
        return self.call(fn, args, kwargs, node)

    # ============================================================== attribute access
    def getattr(self, obj, name, node=None):
        if isinstance(obj, Obj):
            if name in obj.fields:
                return obj.fields[name]
            g = obj.cls.find("getters", name)
            if g is not None:
                return self.call_function(g, [obj], {}, node)
            m = obj.cls.find("methods", name)
            if m is not None:
                if m.kind == "staticmethod":
                    return m
                if m.kind == "classmethod":
                    return BoundMethod(m, obj.cls)
                return BoundMethod(m, obj)
            for c in obj.cls.mro():
                if name in c.class_attrs:
                    return c.class_attrs[name]
            if name == "__class__":
                return obj.cls
            self.P.vcs.append(VC("attribute-defined[%s.%s@%s]" % (obj.cls.name, name, self.site(node)), "refuted",
                                 "attribute read before assignment", kind="safety"))
            raise PyRaise("AttributeError: %s.%s" % (obj.cls.name, name))
        if isinstance(obj, Model):
            return obj.getattr(self, name)
        if isinstance(obj, LruFn):
            if name == "cache_clear":
                return PyBuiltin("cache_clear", lambda I_: obj.clear())
            if name == "cache_info":
                return PyBuiltin("cache_info", lambda I_: ("cache_info", len(obj.entries)))
            if name in ("__wrapped__",):
                return obj.fn
            if name in obj.attrs:
                return obj.attrs[name]
        if isinstance(obj, Closure) and name in obj.attrs:
            return obj.attrs[name]
        if isinstance(obj, FuncInfo) and obj.cache is not None and self.registry is not None and getattr(self.registry, "model_caches", False):
            return self.getattr(self.cached_callable(obj), name, node)
        if isinstance(obj, SuperProxy):
            mro = obj.obj.cls.mro()
            idx = mro.index(obj.after_cls) if obj.after_cls in mro else -1
            for c in mro[idx + 1:]:
                if name in c.methods:
                    return BoundMethod(c.methods[name], obj.obj)
            raise Unsupported("super().%s not found" % name)
        if isinstance(obj, ClassInfo):
            m = obj.find("methods", name)
            if m is not None:
                if m.kind == "classmethod":
                    return BoundMethod(m, obj)
                return m
            for c in obj.mro():
                if name in c.class_attrs:
                    return c.class_attrs[name]
            if name == "__new__":
                return PyBuiltin("__new__", lambda I, cls: Obj(cls))
            raise Unsupported("class attribute %s.%s" % (obj.name, name))
        if isinstance(obj, ModuleInfo):
            r = obj.resolve(name)
            if r is None:
                raise Unsupported("module attribute %s.%s" % (obj.name, name))
            return r[1] if isinstance(r, tuple) and r[0] == "const" else r
        if isinstance(obj, ExternalRef):
            from pyvc import builtins_model as B

            dotted = obj.dotted + "." + name
            if dotted in B.EXTERNAL:
                return B.EXTERNAL[dotted]
            return ExternalRef(dotted)
        from pyvc import builtins_model as B

        return B.py_getattr(self, obj, name, node)

    def setattr(self, obj, name, value, node=None):
        if self.P.ghost.get("summary_depth", 0) > 0:
            raise Unsupported("the body of a summarised loop assigns an attribute (needs a loop contract)")
        if isinstance(obj, Obj):
            s = obj.cls.find("setters", name)
            if s is not None:
                self.call_function(s, [obj, value], {}, node)
                return
            obj.fields[name] = value
            return
        if isinstance(obj, Model):
            obj.setattr(self, name, value)
            return
        if isinstance(obj, (Closure, LruFn)):
            obj.attrs[name] = value
            return
        raise Unsupported("attribute assignment on %r" % (type(obj).__name__,))

    def getitem(self, base, idx, node=None):
        if isinstance(base, Model):
            return base.getitem(self, idx)
        if isinstance(base, (list, tuple)):
            if isinstance(idx, slice):
                if any(isinstance(v, Num) for v in (idx.start, idx.stop, idx.step)):
                    raise Unsupported("symbolic slice of a concrete list")
                return base[idx]
            if isinstance(idx, Num):
                if idx.is_const():
                    idx = int(idx.const_value())
                else:
                    zi = self.P.z(idx)
                    n = len(base)
                    self.P.check("index-in-range[%s]" % self.site(node), z3.And(zi >= -n, zi < n), "index %r into list of %d" % (idx, n))
                    feas = [k for k in range(-n, n) if self.P.feasible(zi == k)]
                    if not feas:
                        raise PathInfeasible()
                    j = self.P.decide(len(feas)) if len(feas) > 1 else 0
                    self.P.solver.add(zi == feas[j])
                    return base[feas[j]]
            if not isinstance(idx, int):
                raise Unsupported("list index %r" % (idx,))
            if not (-len(base) <= idx < len(base)):
                self.P.vcs.append(VC("index-in-range[%s]" % self.site(node), "refuted", "index %d into sequence of %d" % (idx, len(base)),
                                     model=self._model_now()))
                raise PyRaise("IndexError")
            return base[idx]
        if isinstance(base, dict):
            return self.dict_get(base, idx, node)
        if isinstance(base, str):
            return base[idx]
        if base is None:
            self.P.check("no-exception[%s]" % self.site(node), False, "subscript of None: TypeError")
            raise PyRaise("TypeError")
        raise Unsupported("subscript on %r" % (type(base).__name__,))

    def dict_get(self, d, key, node=None, default=None, has_default=False):
        # concrete-key dictionaries whose keys may be symbolic numbers: pick the matching key, forking if needed
        matches = []
        for k in d:
            e = self.equal(k, key)
            if e is True:
                return d[k]
            if e is False:
                continue
            matches.append((k, e))
        for k, e in matches:
            if self.P.branch(e):
                return d[k]
        if has_default:
            return default
        self.P.vcs.append(VC("key-present[%s]" % self.site(node), "refuted", "key %r not in dict" % (key,), model=self._model_now()))
        raise PyRaise("KeyError")

    def setitem(self, base, idx, value, node=None):
        if self.P.ghost.get("summary_depth", 0) > 0 and not isinstance(base, Model):
            raise Unsupported("the body of a summarised loop stores into a container (needs a loop contract)")
        if isinstance(base, Model):
            base.setitem(self, idx, value)
            return
        if isinstance(base, list):
            if isinstance(idx, Num) and idx.is_const():
                idx = int(idx.const_value())
            if not isinstance(idx, int):
                raise Unsupported("symbolic list store")
            if not (-len(base) <= idx < len(base)):
                self.P.vcs.append(VC("index-in-range[%s]" % self.site(node), "refuted", "store index %d into list of %d" % (idx, len(base))))
                raise PyRaise("IndexError")
            base[idx] = value
            return
        if isinstance(base, dict):
            for k in list(base):
                e = self.equal(k, idx)
                if e is True:
                    base[k] = value
                    return
                if e is not False and self.P.branch(e):
                    base[k] = value
                    return
            base[idx] = value
            return
        raise Unsupported("subscript store on %r" % (type(base).__name__,))

    # ============================================================== calls
    def call(self, fn, args, kwargs, node=None):
        if isinstance(fn, PyBuiltin):
            return fn.fn(self, *args, **kwargs)
        if isinstance(fn, BoundModelMethod):
            return fn.model.call(self, fn.name, args, kwargs)
        if isinstance(fn, BoundMethod):
            return self.call_function(fn.func, [fn.self_obj] + list(args), kwargs, node)
        if isinstance(fn, FuncInfo):
            return self.call_function(fn, list(args), kwargs, node)
        if isinstance(fn, ClassInfo):
            return self.instantiate(fn, args, kwargs, node)
        if isinstance(fn, Closure):
            return self.call_closure(fn, args, kwargs)
        if isinstance(fn, LruFn):
            return self.call_lru(fn, args, kwargs, node)
        if isinstance(fn, Model):
            return fn.call(self, "__call__", args, kwargs)
        if isinstance(fn, ExternalRef):
            raise Unsupported("call to unmodelled external %s" % fn.dotted)
        if callable(fn):
            return fn(self, *args, **kwargs)
        if fn is None:
            self.P.check("no-exception[%s]" % self.site(node), False, "call of None: TypeError")
            raise PyRaise("TypeError")
        raise Unsupported("call of %r" % (fn,))

    def instantiate(self, cls, args, kwargs, node=None):
        if self.registry is not None:
            mk = self.registry.class_models.get(cls.name)
            if mk is not None:
                return mk(self, *args, **kwargs)
        obj = Obj(cls)
        init = cls.find("methods", "__init__")
        if init is not None:
            self.call_function(init, [obj] + list(args), kwargs, node)
        elif args or kwargs:
            # dataclass-like: positional fields from annotations
            names = [st.target.id for st in cls.node.body if isinstance(st, ast.AnnAssign)]
            for n, v in zip(names, args):
                obj.fields[n] = v
            obj.fields.update(kwargs)
        return obj

    def call_closure(self, cl, args, kwargs):
        fr = Frame(cl.module, cl.env.func, cl.env.cls)
        # closures see later rebinding of enclosing names (late binding): share the dictionary through a chained lookup copy
        fr.vars = dict(cl.env.vars)
        fr.self_obj = cl.env.self_obj
        self.bind_args(cl.node.args, args, kwargs, fr, cl.env)
        if cl.kind == "lambda":
            return self.eval(cl.node.body, fr)
        self.depth += 1
        try:
            self.exec_block(cl.node.body, fr)
            return None
        except _Return as r:
            return r.value
        finally:
            self.depth -= 1

    def call_lru(self, lf, args, kwargs, node=None):
        from pyvc import builtins_model as B

        key = tuple(args) + tuple(v for _, v in sorted(kwargs.items()))
        hashes = tuple(B.py_hash(self, a) for a in key)
        for (k0, h0, v0) in lf.entries:
            if len(k0) != len(key):
                continue
            same = True
            for a0, a1, ha0, ha1 in zip(k0, key, h0, hashes):
                if a0 is a1 and self.equal(ha0, ha1) is True:
                    continue
                if not self.P.branch(self.truth(self.equal(ha0, ha1))):
                    same = False
                    break
                if a0 is a1:
                    continue
                if not self.P.branch(self.truth(self.equal(a0, a1, node))):
                    same = False
                    break
            if same:
                lf.events.append(("hit", key))
                return v0
        lf.events.append(("miss", key))
        v = self.call(lf.fn, list(args), dict(kwargs), node)
        lf.entries.append((key, hashes, v))
        return v

    def bind_args(self, a, args, kwargs, fr, defaults_env):
        params = [p.arg for p in a.posonlyargs + a.args]
        defaults = a.defaults
        n_no_default = len(params) - len(defaults)
        args = list(args)
        kwargs = dict(kwargs)
        for i, p in enumerate(params):
            if i < len(args):
                fr.vars[p] = args[i]
            elif p in kwargs:
                fr.vars[p] = kwargs.pop(p)
            elif i >= n_no_default:
                fr.vars[p] = self.eval(defaults[i - n_no_default], defaults_env)
            else:
                raise Unsupported("missing argument %s" % p)
        if len(args) > len(params):
            if a.vararg is None:
                raise Unsupported("too many positional arguments")
            fr.vars[a.vararg.arg] = tuple(args[len(params):])
        elif a.vararg is not None:
            fr.vars[a.vararg.arg] = ()
        for p, d in zip(a.kwonlyargs, a.kw_defaults):
            if p.arg in kwargs:
                fr.vars[p.arg] = kwargs.pop(p.arg)
            elif d is not None:
                fr.vars[p.arg] = self.eval(d, defaults_env)
        if a.kwarg is not None:
            fr.vars[a.kwarg.arg] = kwargs
        elif kwargs:
            raise Unsupported("unexpected keyword arguments %s" % list(kwargs))

    def cached_callable(self, fi):
        """the callable a memoising decorator produces for fi, built once per path by executing the REAL decorator code
        (list_of_np_cache / two_np_arr_cache from phyclone.utils.utils) or the lru_cache model"""
        table = self.P.ghost.setdefault("cached_callables", {})
        if fi.qualname in table:
            return table[fi.qualname]
        plain = PyBuiltin("undecorated:" + fi.qualname, lambda I_, *a, **k: I_.call_function(fi, list(a), k, None, force_inline=False, bypass_cache=True))
        if fi.cache == "lru_cache":
            c = LruFn(plain, fi.name)
        else:
            factory = fi.module.resolve(fi.cache)
            deco = self.call(factory, [], {})
            c = self.call(deco, [plain], {})
        table[fi.qualname] = c
        return c

    def call_function(self, fi, args, kwargs, node=None, force_inline=False, bypass_cache=False):
        """Call a repository function: by contract when one is registered (modular), else by executing its body."""
        if fi.cache is not None and not bypass_cache and not force_inline and self.registry is not None and getattr(self.registry, "model_caches", False):
            return self.call(self.cached_callable(fi), list(args), kwargs, node)
        if self.registry is not None and not force_inline:
            h = self.registry.call_contracts.get(fi.qualname)
            if h is not None:
                # a contract sees its arguments positionally in the callee's parameter order, whichever way the call spells them:
                # keyword arguments that name a parameter right after the positional ones are moved into place (the contract's
                # kwargs.get(name) still finds them: they stay in kwargs as well)
                args = list(args)
                params = [a.arg for a in fi.node.args.args]
                if fi.kind == "classmethod" and params and params[0] == "cls" and not (args and isinstance(args[0], ClassInfo)):
                    params = params[1:]
                k = len(args)
                while k < len(params) and params[k] in kwargs:
                    args.append(kwargs[params[k]])
                    k += 1
                return h(self, args, kwargs, node)
        if self.depth >= self.inline_depth + 12:
            raise Unsupported("inline depth exceeded at %s" % fi.qualname)
        if self.registry is not None:
            self.registry.note_executed(fi)
        fr = Frame(fi.module, fi, fi.cls)
        if fi.cls is not None and fi.kind == "function" and args:
            fr.self_obj = args[0]
        if fi.kind == "classmethod" and (not args or not isinstance(args[0], ClassInfo)):
            args = [fi.cls] + list(args)
        mod_fr = Frame(fi.module)
        self.bind_args(fi.node.args, args, kwargs, fr, mod_fr)
        self.depth += 1
        self.call_stack.append(fi.qualname)
        try:
            self.exec_block(fi.node.body, fr)
            return None
        except _Return as r:
            return r.value
        finally:
            self.depth -= 1
            self.call_stack.pop()

    # ============================================================== statements
    def exec_block(self, stmts, fr):
        for st in stmts:
            self.exec(st, fr)

    def exec(self, node, fr):
        self.cur_node = node
        m = getattr(self, "s_" + type(node).__name__, None)
        if m is None:
            self.unsupported(node, "statement %s" % type(node).__name__)
        m(node, fr)

    def s_Expr(self, node, fr):
        if isinstance(node.value, ast.Constant):
            return  # docstring
        self.eval(node.value, fr)

    def s_Pass(self, node, fr):
        pass

    def s_Return(self, node, fr):
        raise _Return(self.eval(node.value, fr) if node.value is not None else None)

    def s_Break(self, node, fr):
        raise _Break()

    def s_Continue(self, node, fr):
        raise _Continue()

    def s_Global(self, node, fr):
        pass

    def s_Import(self, node, fr):
        pass

    def s_ImportFrom(self, node, fr):
        pass

    def s_Assign(self, node, fr):
        v = self.eval(node.value, fr)
        for t in node.targets:
            self.assign_target(t, v, fr)

    def s_AnnAssign(self, node, fr):
        if node.value is not None:
            self.assign_target(node.target, self.eval(node.value, fr), fr)

    def assign_target(self, t, v, fr):
        if isinstance(t, ast.Name):
            fr.vars[t.id] = v
        elif isinstance(t, (ast.Tuple, ast.List)):
            vals = self.iterate(v, t) if not isinstance(v, (list, tuple)) else list(v)
            if len(vals) != len(t.elts):
                raise Unsupported("unpacking arity mismatch")
            for e, x in zip(t.elts, vals):
                self.assign_target(e, x, fr)
        elif isinstance(t, ast.Attribute):
            self.setattr(self.eval(t.value, fr), t.attr, v, t)
        elif isinstance(t, ast.Subscript):
            self.setitem(self.eval(t.value, fr), self.eval_slice(t.slice, fr), v, t)
        else:
            self.unsupported(t, "assignment target")

    def s_AugAssign(self, node, fr):
        t = node.target
        if isinstance(t, ast.Name):
            cur = self.e_Name(t, fr)
            if isinstance(cur, Model) and hasattr(cur, "iop"):
                fr.vars[t.id] = cur.iop(self, node.op, self.eval(node.value, fr))
                return
            if isinstance(cur, list) and isinstance(node.op, ast.Add):
                cur.extend(self.iterate(self.eval(node.value, fr)))
                return
            fr.vars[t.id] = self.binop(node.op, cur, self.eval(node.value, fr), node)
        elif isinstance(t, ast.Attribute):
            o = self.eval(t.value, fr)
            cur = self.getattr(o, t.attr, t)
            rhs = self.eval(node.value, fr)
            if isinstance(cur, Model) and hasattr(cur, "iop"):
                self.setattr(o, t.attr, cur.iop(self, node.op, rhs), t)
            else:
                self.setattr(o, t.attr, self.binop(node.op, cur, rhs, node), t)
        elif isinstance(t, ast.Subscript):
            o = self.eval(t.value, fr)
            idx = self.eval_slice(t.slice, fr)
            cur = self.getitem(o, idx, t)
            self.setitem(o, idx, self.binop(node.op, cur, self.eval(node.value, fr), node), t)
        else:
            self.unsupported(node, "augmented assignment target")

    def s_If(self, node, fr):
        if self.P.branch(self.truth(self.eval(node.test, fr))):
            self.exec_block(node.body, fr)
        else:
            self.exec_block(node.orelse, fr)

    def s_Assert(self, node, fr):
        c = self.truth(self.eval(node.test, fr))
        name = "assert[%s]" % self.site(node)
        if c is True:
            self.P.vcs.append(VC(name, "discharged", "concretely true"))
            return
        if c is False:
            self.P.vcs.append(VC(name, "refuted", "assert is false on this path", model=self._model_now()))
            raise PyRaise("AssertionError")
        self.P.check(name, c.e, ast.unparse(node.test)[:120])

    def s_Raise(self, node, fr):
        what = ast.unparse(node.exc)[:80] if node.exc is not None else "re-raise"
        allowed = self.registry.allowed_raise(self, node, what) if self.registry is not None else False
        if allowed:
            raise PyRaise(what)
        self.raise_py(node, what)

    def s_Delete(self, node, fr):
        for t in node.targets:
            if isinstance(t, ast.Subscript):
                base = self.eval(t.value, fr)
                idx = self.eval_slice(t.slice, fr)
                if isinstance(base, Model):
                    base.delitem(self, idx)
                elif isinstance(base, dict):
                    for k in list(base):
                        e = self.equal(k, idx)
                        if e is True or (e is not False and self.P.branch(e)):
                            del base[k]
                            break
                    else:
                        self.P.vcs.append(VC("key-present[%s]" % self.site(node), "refuted", "del of missing key"))
                        raise PyRaise("KeyError")
                else:
                    raise Unsupported("del on %r" % type(base).__name__)
            elif isinstance(t, ast.Name):
                fr.vars.pop(t.id, None)
            else:
                self.unsupported(node, "del target")

    def s_For(self, node, fr):
        inv = self.registry.loop_invariant(self, node, self.loop_ordinal(fr, node)) if self.registry is not None else None
        if inv is not None:
            inv(self, node, fr)
            return
        it = self.eval(node.iter, fr)
        if isinstance(it, Model) and hasattr(it, "for_loop"):
            it.for_loop(self, node, fr)
            return
        for v in self.iterate(it, node.iter):
            self.assign_target(node.target, v, fr)
            try:
                self.exec_block(node.body, fr)
            except _Break:
                break
            except _Continue:
                continue
        else:
            self.exec_block(node.orelse, fr)

    def loop_ordinal(self, fr, node):
        if fr.func is None:
            return None
        k = 0
        for n in ast.walk(fr.func.node):
            if isinstance(n, (ast.For, ast.While)):
                if n is node:
                    return k
                k += 1
        return None

    def s_While(self, node, fr):
        inv = self.registry.loop_invariant(self, node, self.loop_ordinal(fr, node)) if self.registry is not None else None
        if inv is not None:
            inv(self, node, fr)
            return
        n = 0
        while True:
            if not self.P.branch(self.truth(self.eval(node.test, fr))):
                self.exec_block(node.orelse, fr)  # the else block runs when the condition becomes false, not after a break
                break
            n += 1
            if n > 64:
                raise Unsupported("while loop needs an invariant (no concrete bound)")
            try:
                self.exec_block(node.body, fr)
            except _Break:
                break
            except _Continue:
                continue

    def s_With(self, node, fr):
        mgrs = []
        for item in node.items:
            m = self.eval(item.context_expr, fr)
            ent = self.getattr(m, "__enter__", node)
            v = self.call(ent, [], {}, node)
            if item.optional_vars is not None:
                self.assign_target(item.optional_vars, v, fr)
            mgrs.append(m)
        try:
            self.exec_block(node.body, fr)
        finally:
            pass
        for m in reversed(mgrs):
            self.call(self.getattr(m, "__exit__", node), [None, None, None], {}, node)

    def s_Try(self, node, fr):
        self.P.effects.append(("try", getattr(node, "lineno", 0)))

        def names(h):
            if h.type is None:
                return None
            ts = h.type.elts if isinstance(h.type, ast.Tuple) else [h.type]
            return tuple(_dotted_name(t).split(".")[-1] for t in ts)

        caught = [names(h) for h in node.handlers]
        stack = self.P.ghost.setdefault("try_stack", [])
        n_vcs = len(self.P.vcs)
        stack.extend(caught)
        try:
            try:
                self.exec_block(node.body, fr)
            finally:
                del stack[len(stack) - len(caught):]
        except PyRaise as e:
            for h, c in zip(node.handlers, caught):
                if exception_matches(e.what, c):
                    # the raise site recorded its exception-freedom obligation as refuted just before raising: the exception is handled, so it is not one
                    if len(self.P.vcs) > n_vcs and self.P.vcs[-1].status == "refuted" and self.P.vcs[-1].kind == "safety":
                        self.P.vcs.pop()
                    if h.name:
                        fr.vars[h.name] = ("exception", e.what)
                    try:
                        self.exec_block(h.body, fr)
                    except BaseException:
                        self.exec_block(node.finalbody, fr)
                        raise
                    break
            else:
                self.exec_block(node.finalbody, fr)
                raise
        except BaseException:
            # break / continue / return / end of path leave through the finally block as well
            if node.finalbody and not isinstance(sys.exc_info()[1], (PathInfeasible, Unsupported)):
                self.exec_block(node.finalbody, fr)
            raise
        else:
            try:
                self.exec_block(node.orelse, fr)
            except BaseException:
                if node.finalbody and not isinstance(sys.exc_info()[1], (PathInfeasible, Unsupported)):
                    self.exec_block(node.finalbody, fr)
                raise
        self.exec_block(node.finalbody, fr)

    def s_FunctionDef(self, node, fr):
        fn = Closure(node, fr, fr.module, kind="def")
        for d in reversed(node.decorator_list):
            name = _dotted_name(d.func if isinstance(d, ast.Call) else d).split(".")[-1]
            if name == "wraps":
                continue  # functools.wraps copies metadata only
            if name == "lru_cache":
                fn = LruFn(fn, node.name)
                continue
            self.unsupported(node, "decorator %s on a nested function" % name)
        fr.vars[node.name] = fn

    def s_ClassDef(self, node, fr):
        self.unsupported(node, "nested class")


def _dotted_name(node):
    if isinstance(node, ast.Name):
        return node.id
    if isinstance(node, ast.Attribute):
        return _dotted_name(node.value) + "." + node.attr
    return "?"


class SetVal:
    """A small set of symbolic values (identity by provable equality)."""

    def __init__(self, items):
        self.items = list(items)


class _SymComp(Exception):
    def __init__(self, model, gen):
        self.model = model
        self.gen = gen


def _coerce(a, b):
    if z3.is_int(a) and not z3.is_int(b):
        a = z3.ToReal(a)
    if z3.is_int(b) and not z3.is_int(a):
        b = z3.ToReal(b)
    return a, b


def _py_binop(op, a, b):
    import operator

    f = {ast.Add: operator.add, ast.Sub: operator.sub, ast.Mult: operator.mul, ast.Div: operator.truediv,
         ast.Mod: operator.mod, ast.FloorDiv: operator.floordiv, ast.Pow: operator.pow,
         ast.BitXor: operator.xor, ast.BitAnd: operator.and_, ast.BitOr: operator.or_, ast.LShift: operator.lshift, ast.RShift: operator.rshift}[type(op)]
    return f(a, b)


def _num_or_int(r):
    if isinstance(r, Num) and r.is_const():
        c = r.const_value()
        if c.denominator == 1:
            return int(c)
        return r
    return r
