"""Models of Python builtins, container methods and the library entry points (numpy, math, itertools, collections)
used by the functions under contract.  Every entry here is an *assumed contract on a dependency* (trusted base)."""
import ast
import itertools
import math
from fractions import Fraction

import z3

from pyvc import alg
from pyvc.alg import Num
from pyvc.interp import (VC, BoundModelMethod, Model, Obj, PathInfeasible, PyBuiltin, PyRaise, SBool, SetVal, Unsupported,
                         _num_or_int)
from pyvc.source import ClassInfo


# ----------------------------------------------------------------------------------------------------------- sequences


class NpArr(Model):
    """1-D numpy array (or fixed-length vector) with concrete length and symbolic elements."""

    def __init__(self, data):
        self.data = list(data)

    def __repr__(self):
        return "NpArr(%r)" % (self.data,)

    def _map(self, I, f):
        return NpArr([f(x) for x in self.data])

    def binop(self, I, op, other, swapped):
        if isinstance(other, NpArr):
            if len(other.data) != len(self.data):
                raise Unsupported("array length mismatch")
            pairs = zip(self.data, other.data)
            if swapped:
                return NpArr([I.binop(op, b, a) for a, b in pairs])
            return NpArr([I.binop(op, a, b) for a, b in pairs])
        if isinstance(other, Model):
            raise Unsupported("NpArr op %s" % type(other).__name__)
        if swapped:
            return NpArr([I.binop(op, other, a) for a in self.data])
        return NpArr([I.binop(op, a, other) for a in self.data])

    def iop(self, I, op, other):
        no_heap_mutation_in_summary(I, "a numpy vector")
        r = self.binop(I, op, other, False)
        self.data[:] = r.data  # in-place: aliases observe the update
        return self

    def neg(self, I):
        return NpArr([I.binop(ast.Sub(), 0, a) for a in self.data])

    def getitem(self, I, idx):
        if isinstance(idx, slice):
            return NpArr(self.data[idx])
        return I.getitem(self.data, idx)

    def setitem(self, I, idx, v):
        I.setitem(self.data, idx, v)

    def iterate(self, I):
        return list(self.data)

    def a_shape(self, I):
        return (len(self.data),)

    def a_size(self, I):
        return len(self.data)

    def m_sum(self, I, axis=None):
        acc = 0
        for x in self.data:
            acc = I.binop(ast.Add(), acc, x)
        return acc

    def m_copy(self, I):
        return NpArr(list(self.data))

    def m_tolist(self, I):
        return list(self.data)

    def m_max(self, I):
        return py_max(I, self.data)

    def m_argmax(self, I):
        return argmax(I, self.data)

    def m___len__(self, I):
        return len(self.data)

    def m_sort(self, I):
        """in-place ascending sort (insertion sort with symbolic comparisons: forks on the order)"""
        d = self.data
        for i in range(1, len(d)):
            j = i
            while j > 0 and I.P.branch(I.compare(ast.Lt(), d[j], d[j - 1])):
                d[j], d[j - 1] = d[j - 1], d[j]
                j -= 1


class SymSeq(Model):
    """Sequence of symbolic length: a core (key, core_len: Num Int >= 0, elem: index Num -> value) followed by a concrete
    tail of explicitly appended elements.  `length` is the total length."""

    def __init__(self, key, length, elem, facts=None, tail=None):
        self.key = key
        self.core_len = length if isinstance(length, Num) else Num.const(length)
        self.elem = elem
        self.facts = facts  # optional: fn(I, index Num) -> list of z3 facts about elem(index)
        self.tail = list(tail) if tail else []

    @property
    def length(self):
        return self.core_len + len(self.tail) if self.tail else self.core_len

    def core_at(self, I, idx):
        v = self.elem(idx)
        if self.facts is not None:
            for f in self.facts(I, idx):
                I.P.solver.add(f)
        return v

    def at(self, I, idx):
        if not self.tail:
            return self.core_at(I, idx)
        idx = I.to_num(idx)
        if alg.has_bound(idx):
            return self.core_at(I, idx)
        d = idx - self.core_len
        if d.is_const():
            k = d.const_value()
            if k.denominator == 1 and 0 <= k < len(self.tail):
                return self.tail[int(k)]
            if k < 0 and self.core_len.is_const():
                return self.core_at(I, idx)
        zi, zc = I.P.z(idx), I.P.z(self.core_len)
        if I.P.branch(SBool(zi < zc)):
            return self.core_at(I, idx)
        feas = [k for k in range(len(self.tail)) if I.P.feasible(zi == zc + k)]
        if not feas:
            raise PathInfeasible()
        j = I.P.decide(len(feas)) if len(feas) > 1 else 0
        I.P.solver.add(zi == zc + feas[j])
        return self.tail[feas[j]]

    def m___len__(self, I):
        return _num_or_int(self.length)

    def getitem(self, I, idx):
        if getattr(self, "order_unknown", False):
            raise Unsupported("positional access into sorted(<symbolic sequence>)")
        if isinstance(idx, slice) and idx.start is None and idx.step is None and idx.stop is not None:
            # prefix [:n]
            if self.tail:
                raise Unsupported("prefix slice of a symbolic sequence with appended elements")
            stop = I.to_num(idx.stop)
            I.P.check("slice-within-length[%s]" % I.site(None), z3.And(I.P.z(stop) >= 0, I.P.z(stop) <= I.P.z(self.length)), "[:%r] of %s" % (stop, self.key))
            return SymSeq("%s[:%s]" % (self.key, stop.key()), stop, self.elem, self.facts)
        if isinstance(idx, slice) and idx.start is None and idx.stop is None and idx.step is not None and I.equal(idx.step, -1) is True:
            return py_reversed(I, self)  # xs[::-1]
        if isinstance(idx, slice):
            if idx.step is not None or idx.stop is not None:
                raise Unsupported("slice of a symbolic sequence other than [k:]")
            k = idx.start or 0
            if not isinstance(k, int) or k < 0:
                raise Unsupported("slice start")
            if k == 0:
                return self
            if self.tail:
                raise Unsupported("slice of a symbolic sequence with appended elements")
            # python semantics: length max(n-k, 0); the sequences sliced here are proved to have n >= k
            I.P.check("slice-within-length[%s]" % I.site(None), I.P.z(self.length) >= k, "[%d:] of %s" % (k, self.key))
            outer = self
            return SymSeq("%s[%d:]" % (self.key, k), self.core_len - k, lambda j: outer.core_at(I, j + k))
        idx = I.to_num(idx)
        zi, zn = I.P.z(idx), I.P.z(self.length)
        if idx.is_const() and idx.const_value() < 0:
            idx = self.length + idx
            zi = I.P.z(idx)
        I.P.check("index-in-range[%s:%s]" % (self.key, I.site(None)), z3.And(zi >= 0, zi < zn), "index %r into %s" % (idx, self.key))
        return self.at(I, idx)

    def as_sorted(self, I, key=None, reverse=False):
        """sorted(seq): a permutation of the same elements. The result keeps the element function, so an ARBITRARY element of it is an arbitrary element of
        the original (what the independent-iterations rule and the big-sum summaries need); its order is unknown: positional access is refused."""
        if self.tail:
            raise Unsupported("sorted() of a symbolic sequence with appended elements")
        r = SymSeq("sorted(%s)" % self.key, self.core_len, self.elem, self.facts)
        r.order_unknown = True
        return r

    def fresh_index(self, I, base="i"):
        """an arbitrary valid index (forks between the core and each appended element)"""
        options = []
        if I.P.feasible(I.P.z(self.core_len) > 0):
            options.append("core")
        options += list(range(len(self.tail)))
        if not options:
            raise PathInfeasible()
        o = options[I.P.decide(len(options)) if len(options) > 1 else 0]
        if o == "core":
            i = alg.sym(I.P.fresh_name(base + "@" + str(self.key)), "Int")
            I.P.assume(z3.And(I.P.z(i) >= 0, I.P.z(i) < I.P.z(self.core_len)))
            return i
        return _num_or_int(self.core_len + o) if not isinstance(_num_or_int(self.core_len + o), int) else Num.const(_num_or_int(self.core_len + o))

    def map(self, I, key, f):
        return SymSeq(key, self.core_len, lambda idx: f(self.core_at(I, idx)), tail=[f(x) for x in self.tail])

    def comprehension(self, I, node, gen, fr):
        from pyvc.interp import Frame

        outer = self

        def keep(value):
            """(included?, frame) - the filter must be decided by the element's facts (no fork)"""
            sub = Frame(fr.module, fr.func, fr.cls)
            sub.vars = dict(fr.vars)
            sub.self_obj = fr.self_obj
            I.assign_target(gen.target, value, sub)
            for cond in gen.ifs:
                n = len(I.P.trail)
                r = I.P.branch(I.truth(I.eval(cond, sub)))
                if len(I.P.trail) != n:
                    raise Unsupported("comprehension filter over a symbolic sequence that is not decided by the element facts")
                if not r:
                    return False, sub
            return True, sub

        def on(value):
            ok, sub = keep(value)
            if not ok:
                raise Unsupported("comprehension filter is not uniform over the core of a symbolic sequence")
            return I.eval(node.elt, sub)

        core_len = self.core_len
        if gen.ifs:
            probe = alg.sym(I.P.fresh_name("probe@" + str(self.key)), "Int")
            if I.P.feasible(z3.And(I.P.z(probe) >= 0, I.P.z(probe) < I.P.z(self.core_len))):
                I.P.solver.push()
                I.P.solver.add(z3.And(I.P.z(probe) >= 0, I.P.z(probe) < I.P.z(self.core_len)))
                try:
                    ok, _ = keep(outer.core_at(I, probe))
                finally:
                    I.P.solver.pop()
                if not ok:
                    core_len = Num.const(0)  # the filter rejects every core element
        tail = []
        for x in self.tail:
            ok, sub = keep(x)
            if ok:
                tail.append(I.eval(node.elt, sub))
        return SymSeq("[%s for %s]" % (ast.unparse(node.elt)[:40], self.key), core_len, lambda idx: on(outer.core_at(I, idx)), tail=tail)

    def binop(self, I, op, other, swapped):
        if isinstance(other, SymSeq):
            if other.core_len.key() != self.core_len.key() or len(other.tail) != len(self.tail):
                raise Unsupported("element-wise operation on symbolic sequences of different length")
            if swapped:
                f = lambda a, b: I.binop(op, b, a)  # noqa
            else:
                f = lambda a, b: I.binop(op, a, b)  # noqa
            return SymSeq("(%s%s%s)" % (self.key, type(op).__name__, other.key), self.core_len,
                          lambda idx: f(self.core_at(I, idx), other.core_at(I, idx)), tail=[f(a, b) for a, b in zip(self.tail, other.tail)])
        if isinstance(other, (list, tuple)) and isinstance(op, ast.Add) and not swapped:
            return SymSeq(self.key + "+list", self.core_len, self.elem, self.facts, tail=self.tail + list(other))
        if isinstance(other, (list, tuple)) and isinstance(op, ast.Add) and swapped:
            raise Unsupported("list + symbolic sequence (a symbolic sequence has no concrete prefix)")
        if swapped:
            return self.map(I, "(c%s%s)" % (type(op).__name__, self.key), lambda v: I.binop(op, other, v))
        return self.map(I, "(%s%sc)" % (self.key, type(op).__name__), lambda v: I.binop(op, v, other))

    def iop(self, I, op, other):
        old = SymSeq(self.key, self.core_len, self.elem, self.facts, self.tail)
        r = old.binop(I, op, other, False)
        self.key, self.elem, self.facts, self.tail = r.key, r.elem, None, r.tail
        return self

    def m_sum(self, I, axis=None):
        return seq_sum(I, self)

    def m_copy(self, I):
        return SymSeq(self.key, self.core_len, self.elem, self.facts, self.tail)

    def m_append(self, I, x):
        self.tail.append(x)

    def m_extend(self, I, xs):
        self.tail.extend(I.iterate(xs))

    def contains(self, I, item):
        # membership in the core is an uninterpreted predicate keyed by the sequence; elements drawn from it carry it
        f = z3.Function("member[%s]" % self.key, z3.RealSort(), z3.BoolSort())
        it = I.P.z(I.to_num(item)) if not isinstance(item, (str, type(None))) else None
        if it is None:
            return False
        if z3.is_int(it):
            it = z3.ToReal(it)
        acc = SBool(f(it))
        for x in self.tail:
            acc = I.b_or(acc, I.equal(x, item))
        return acc

    def for_loop(self, I, node, fr):
        reg = I.registry
        fn = I.call_stack[-1] if I.call_stack else None
        if reg is not None and fn in getattr(reg, "generic_loops", ()):
            # independent-iterations rule: the body is executed once for an arbitrary index; sound when the body writes
            # only to a write-only accumulator (a recording model) -- the contract that enables this states that frame
            carried = loop_carried_names(node, getattr(reg, "generic_store_ok", ()), getattr(reg, "distinct_iterables", ()))
            if carried:
                raise Unsupported("independent-iterations rule does not apply: the loop body carries %s from one iteration to the next" % sorted(carried))
            if not self.tail and not I.P.branch(SBool(I.P.z(self.core_len) > 0)):
                return  # the empty sequence: no iteration at all (what follows the loop is explored for this case too)
            j = self.fresh_index(I, "j")
            I.P.ghost.setdefault("generic_indices", []).append(j)
            I.assign_target(node.target, self.at(I, j), fr)
            from pyvc.interp import _Break, _Continue
            try:
                I.exec_block(node.body, fr)
            except _Continue:
                pass  # the rest of this iteration is skipped; the other iterations are independent of it
            except _Break:
                raise Unsupported("break in a loop handled by the independent-iterations rule (the iterations after it depend on it)")
            return
        summarise_loop(I, self, node, fr)


def no_heap_mutation_in_summary(I, what):
    if I.P.ghost.get("summary_depth", 0) > 0:
        raise Unsupported("the body of a summarised loop mutates %s (needs a loop contract)" % what)


def loop_carried_names(loop, store_ok=(), distinct_calls=()):
    """Names assigned in the loop body that may be read before they are (definitely) assigned in the same iteration, plus
    attribute/subscript stores: such a body is not a set of independent iterations."""
    assigned_anywhere = set()
    comp_bound = set()  # ids of Name nodes bound by a comprehension: they live in the comprehension's own scope, nothing is carried through them
    for n in ast.walk(ast.Module(body=loop.body, type_ignores=[])):
        if isinstance(n, ast.comprehension):
            comp_bound.update(id(t) for t in ast.walk(n.target) if isinstance(t, ast.Name))
    for n in ast.walk(ast.Module(body=loop.body, type_ignores=[])):
        if isinstance(n, ast.Name) and isinstance(n.ctx, ast.Store) and id(n) not in comp_bound:
            assigned_anywhere.add(n.id)
    targets = {n.id for n in ast.walk(loop.target) if isinstance(n, ast.Name)}
    carried = set()
    cells = per_iteration_cells(loop, assigned_anywhere, distinct_calls)

    def reads(expr, definite):
        for n in ast.walk(expr):
            if isinstance(n, ast.Name) and isinstance(n.ctx, ast.Load) and n.id in assigned_anywhere and n.id not in definite and n.id not in targets:
                carried.add(n.id)

    def block(stmts, definite):
        definite = set(definite)
        for st in stmts:
            if isinstance(st, ast.Assign):
                reads(st.value, definite)
                for t in st.targets:
                    if isinstance(t, ast.Name):
                        definite.add(t.id)
                    elif isinstance(t, (ast.Tuple, ast.List)) and all(isinstance(e, ast.Name) or (isinstance(e, ast.Subscript) and ast.unparse(e.value) in cells) for e in t.elts):
                        definite.update(e.id for e in t.elts if isinstance(e, ast.Name))  # names are (re)defined; X[i] elements are per-iteration cells
                    elif isinstance(t, ast.Subscript) and ast.unparse(t.value) in store_ok:
                        reads(t.slice, definite)  # a store into the designated write-only accumulator
                    elif isinstance(t, ast.Subscript) and ast.unparse(t.value) in cells:
                        pass  # X[i] = ... where iteration i is the only one touching cell i of X
                    elif isinstance(t, ast.Subscript) and isinstance(t.value, ast.Name) and t.value.id in targets:
                        reads(t.slice, definite)  # a store INTO the element of this iteration (elements of the sequence are distinct objects)
                    elif isinstance(t, ast.Attribute) and isinstance(t.value, ast.Name) and t.value.id in targets:
                        pass  # an attribute of the element of this iteration: no other iteration sees it (elements are distinct objects)
                    else:
                        carried.add("<store to %s>" % ast.unparse(t)[:30])
            elif isinstance(st, ast.AugAssign):
                reads(st.value, definite)
                if isinstance(st.target, ast.Name):
                    if st.target.id not in definite and st.target.id not in targets:  # the loop statement itself (re)binds its targets in every iteration
                        carried.add(st.target.id)
                elif isinstance(st.target, ast.Subscript) and ast.unparse(st.target.value) in cells:
                    pass
                else:
                    carried.add("<store to %s>" % ast.unparse(st.target)[:30])
            elif isinstance(st, ast.If):
                reads(st.test, definite)
                a = block(st.body, definite)
                b = block(st.orelse, definite)
                definite |= (a & b)
            elif isinstance(st, (ast.For, ast.While)):
                reads(st.iter if isinstance(st, ast.For) else st.test, definite)
                inner_t = {n.id for n in ast.walk(st.target) if isinstance(n, ast.Name)} if isinstance(st, ast.For) else set()
                block(st.body, definite | inner_t)
            elif isinstance(st, (ast.Expr, ast.Assert, ast.Return)):
                if getattr(st, "value", None) is not None:
                    reads(st.value, definite)
                if isinstance(st, ast.Assert):
                    reads(st.test, definite)
            elif isinstance(st, (ast.Pass, ast.Continue, ast.Break)):
                pass
            else:
                for n in ast.walk(st):
                    if isinstance(n, ast.expr):
                        reads(n, definite)
                        break
        return definite

    block(loop.body, set())
    return carried


def per_iteration_cells(loop, assigned_in_body, distinct_calls=()):
    """Sources of expressions X such that, in `for i in range(...)`, every occurrence of X in the body is exactly `X[i]`
    and X does not depend on i or on anything assigned in the body: iteration i reads and writes cell i of X only, and the
    indices of a range are pairwise distinct, so stores to X[i] carry nothing from one iteration to another.  (Aliasing
    between X and another object read in the body is outside this static rule; the harness models are distinct objects and
    log the cells they are asked for.)"""
    is_range = isinstance(loop.iter, ast.Call) and isinstance(loop.iter.func, ast.Name) and loop.iter.func.id == "range"
    # a harness may declare library calls whose results are pairwise distinct (e.g. PyDiGraph.node_indices())
    is_distinct = isinstance(loop.iter, ast.Call) and isinstance(loop.iter.func, ast.Attribute) and loop.iter.func.attr in distinct_calls
    # `for i, x in enumerate(...)`: the positions i are pairwise distinct
    is_enum = isinstance(loop.iter, ast.Call) and isinstance(loop.iter.func, ast.Name) and loop.iter.func.id == "enumerate" \
        and isinstance(loop.target, ast.Tuple) and len(loop.target.elts) == 2 and isinstance(loop.target.elts[0], ast.Name)
    if isinstance(loop.target, ast.Name) and (is_range or is_distinct):
        t = loop.target.id
    elif is_enum:
        t = loop.target.elts[0].id
    else:
        return set()

    def indexed_by_t(sl):
        if isinstance(sl, ast.Name):
            return sl.id == t
        return isinstance(sl, ast.Tuple) and any(isinstance(e, ast.Name) and e.id == t for e in sl.elts)

    body = ast.Module(body=loop.body, type_ignores=[])
    cands = set()
    for n in ast.walk(body):
        if isinstance(n, ast.Subscript) and isinstance(n.ctx, ast.Store) and indexed_by_t(n.slice):
            cands.add(ast.unparse(n.value))
    parents = {}
    for n in ast.walk(body):
        for c in ast.iter_child_nodes(n):
            parents[c] = n
    out = set()
    for src in cands:
        ok = True
        base = ast.parse(src, mode="eval").body
        for n in ast.walk(base):
            if isinstance(n, ast.Name) and (n.id == t or n.id in assigned_in_body):
                ok = False
        for n in ast.walk(body):
            if isinstance(n, ast.expr) and not isinstance(n, ast.Constant) and ast.unparse(n) == src:
                p = parents.get(n)
                if not (isinstance(p, ast.Subscript) and p.value is n and indexed_by_t(p.slice)):
                    ok = False
        if ok:
            out.add(src)
    return out


def seq_sum(I, seq):
    i = alg.fresh_bound()
    total = alg.bigsum(str(seq.key), seq.core_len, I.to_num(seq.core_at(I, i)), bound=i)
    for x in seq.tail:
        total = total + I.to_num(x)
    return _num_or_int(total)


def summarise_loop(I, seq, node, fr):
    """`for x in seq: acc += f(x); lst.append(g(x))` over a symbolic-length sequence: the body is executed once on a
    generic core element; numeric accumulators become big sums, appended lists become mapped sequences; explicitly
    appended tail elements are then executed concretely.  Anything else in the body (escaping control flow, branching on
    the element, stores that are not accumulations) is outside the subset -> Unsupported."""
    from pyvc.interp import _Break, _Continue

    i = alg.fresh_bound()
    before = dict(fr.vars)
    lists = {k: (v, len(v)) for k, v in before.items() if isinstance(v, list)}
    zl = I.P.z(seq.core_len)
    if not I.P.branch(SBool(zl > 0)):
        # empty core: only the explicitly appended elements are iterated
        for x in seq.tail:
            I.assign_target(node.target, x, fr)
            try:
                I.exec_block(node.body, fr)
            except _Continue:
                continue
            except _Break:
                break
        return
    # the generic element's index is arbitrary in range
    I.P.assume(z3.And(I.P.z(i) >= 0, I.P.z(i) < zl))
    I.assign_target(node.target, seq.core_at(I, i), fr)
    trail_before = len(I.P.trail)
    # a summarised body may only accumulate into local numbers / append to local lists: any other heap mutation is outside the rule
    I.P.ghost["summary_depth"] = I.P.ghost.get("summary_depth", 0) + 1
    I.P.ghost.setdefault("summary_local_lists", []).append([id(v) for v in before.values() if isinstance(v, list)])
    try:
        I.exec_block(node.body, fr)
    except (_Break, _Continue):
        raise Unsupported("break/continue in a summarised loop")
    finally:
        I.P.ghost["summary_depth"] -= 1
        I.P.ghost["summary_local_lists"].pop()
    if len(I.P.trail) != trail_before:
        raise Unsupported("branching on the loop element inside a summarised loop (needs a loop contract)")
    target_names = set(n.id for n in ast.walk(node.target) if isinstance(n, ast.Name))
    for k, v in list(fr.vars.items()):
        if k in target_names:
            continue
        old = before.get(k, None)
        if isinstance(v, list) and k in lists and v is lists[k][0]:
            n0 = lists[k][1]
            added = v[n0:]
            if not added:
                continue
            if n0 != 0 or len(added) != 1:
                raise Unsupported("summarised loop appends to a non-empty list or more than once per iteration")
            expr = added[0]
            del v[n0:]

            def elem(idx, captured=expr):
                if seq.facts is not None and not (isinstance(idx, Num) and alg.has_bound(idx)):
                    seq.core_at(I, idx)  # for its side effect: the source element's facts hold at this index
                return _subst_index(captured, i, idx)

            fr.vars[k] = SymSeq("map[%s|%s]" % (seq.key, _val_key(expr)), seq.core_len, elem)
            continue
        if v is old:
            continue
        if isinstance(v, (Num, int, Fraction, float)) and isinstance(old, (Num, int, Fraction, float)) and not isinstance(old, bool):
            delta = I.to_num(v) - I.to_num(old)
            if delta.is_zero():
                continue
            fr.vars[k] = _num_or_int(I.to_num(old) + alg.bigsum(str(seq.key), seq.core_len, delta, bound=i))
            continue
        if k not in before:
            # loop-local temporary: dropped (a later read fails as an unresolved name rather than seeing a stale value)
            del fr.vars[k]
            continue
        raise Unsupported("summarised loop modifies %s in an unsupported way" % k)
    for tn in target_names:
        fr.vars.pop(tn, None)
    # explicitly appended elements: ordinary execution
    for x in seq.tail:
        I.assign_target(node.target, x, fr)
        try:
            I.exec_block(node.body, fr)
        except _Continue:
            continue
        except _Break:
            break


def _subst_index(v, i, idx):
    if isinstance(v, Num):
        return _num_or_int(v.subst({list(i.atoms())[0]: idx}))
    if isinstance(v, tuple):
        return tuple(_subst_index(x, i, idx) for x in v)
    if isinstance(v, list):
        return [_subst_index(x, i, idx) for x in v]
    if isinstance(v, Model) and hasattr(v, "subst_index"):
        return v.subst_index(lambda x: _subst_index(x, i, idx))
    return v


def _val_key(v):
    if isinstance(v, Num):
        return v.key()
    if isinstance(v, Model) and hasattr(v, "val_key"):
        return v.val_key()
    if isinstance(v, (list, tuple)):
        return "[" + ",".join(_val_key(x) for x in v) + "]"
    if isinstance(v, Model):
        return type(v).__name__
    return repr(v)


# ----------------------------------------------------------------------------------------------------------- helpers


def py_len(I, x):
    if isinstance(x, (list, tuple, dict, str, set, frozenset)):
        return len(x)
    if isinstance(x, SetVal):
        return len(x.items)
    if isinstance(x, Model):
        return x.call(I, "__len__", [], {})
    if isinstance(x, Obj):
        m = x.cls.find("methods", "__len__")
        if m:
            return I.call_function(m, [x], {})
    raise Unsupported("len of %r" % type(x).__name__)


def py_max(I, *args, **kw):
    vals = list(args[0]) if len(args) == 1 and isinstance(args[0], (list, tuple)) else (I.iterate(args[0]) if len(args) == 1 else list(args))
    if not vals:
        raise Unsupported("max of empty")
    best = vals[0]
    for v in vals[1:]:
        if I.P.branch(I.compare(ast.Gt(), v, best)):
            best = v
    return best


def py_min(I, *args, **kw):
    vals = list(args[0]) if len(args) == 1 and isinstance(args[0], (list, tuple)) else (I.iterate(args[0]) if len(args) == 1 else list(args))
    best = vals[0]
    for v in vals[1:]:
        if I.P.branch(I.compare(ast.Lt(), v, best)):
            best = v
    return best


def argmax(I, vals):
    best, bi = vals[0], 0
    for k, v in enumerate(vals[1:], 1):
        if I.P.branch(I.compare(ast.Gt(), v, best)):
            best, bi = v, k
    return bi


def py_sum(I, xs, start=0):
    if isinstance(xs, SymSeq):
        return I.binop(ast.Add(), start, seq_sum(I, xs))
    acc = start
    for x in I.iterate(xs):
        acc = I.binop(ast.Add(), acc, x)
    return acc


def py_isinstance(I, obj, cls):
    classes = cls if isinstance(cls, tuple) else (cls,)
    for c in classes:
        if isinstance(c, ClassInfo):
            if isinstance(obj, Obj) and obj.cls.is_subclass_of(c.name):
                return True
            if isinstance(obj, Model) and c.name in obj.py_classes:
                return True
        elif isinstance(c, PyBuiltin):
            n = c.name
            if n == "str" and isinstance(obj, str):
                return True
            if n == "int" and (isinstance(obj, int) and not isinstance(obj, bool) or isinstance(obj, Num) and obj.sort() == "Int"):
                return True
            if n == "float" and (isinstance(obj, float) or isinstance(obj, Num) and obj.sort() == "Real"):
                return True
            if n in ("list", "tuple", "dict") and type(obj).__name__ == n:
                return True
        elif isinstance(c, ExternalClass):
            if isinstance(obj, Model) and c.name in obj.py_classes:
                return True
    return False


class ExternalClass:
    """a class of a library, known by name only (isinstance against the py_classes of models)"""

    def __init__(self, name):
        self.name = name


def py_range(I, *args):
    vals = []
    for a in args:
        if isinstance(a, Num):
            if not a.is_const():
                return SymRange(I, *args)
            a = int(a.const_value())
        vals.append(a)
    return range(*vals)


def SymRange(I, *args):
    if len(args) == 3:
        step = args[2]
        if isinstance(step, Num) and step.is_const():
            step = int(step.const_value())
        if step == -1:
            # range(lo, hi, -1): lo, lo-1, ..., hi+1   (length max(lo - hi, 0); the harness' facts decide emptiness)
            lo, hi = I.to_num(args[0]), I.to_num(args[1])
            return SymSeq("range(%s,%s,-1)" % (lo.key(), hi.key()), lo - hi, lambda idx: _num_or_int(lo - idx))
        if step != 1:
            raise Unsupported("symbolic range with step %r" % (step,))
        args = args[:2]
    if len(args) == 1:
        lo, hi = 0, args[0]
    elif len(args) == 2:
        lo, hi = args
    else:
        raise Unsupported("symbolic range with a step")
    lo, hi = I.to_num(lo), I.to_num(hi)
    n = hi - lo
    I.P.assume(I.P.z(n) >= 0) if False else None
    return SymSeq("range(%s,%s)" % (lo.key(), hi.key()), n, lambda idx: _num_or_int(lo + idx))


def py_list(I, x=None):
    if x is None:
        return []
    if isinstance(x, SymSeq):
        return x
    return list(I.iterate(x))


def py_enumerate(I, xs, start=0):
    if isinstance(xs, SymSeq):
        return SymSeq("enumerate(%s)" % xs.key, xs.core_len, lambda i: (_num_or_int(I.to_num(i) + start), xs.core_at(I, i)),
                      tail=[(_num_or_int(xs.core_len + k + start), v) for k, v in enumerate(xs.tail)])
    return [(k + start, v) for k, v in enumerate(I.iterate(xs))]


def py_reversed(I, x):
    if isinstance(x, SymSeq):
        if x.tail:
            raise Unsupported("reversed() of a symbolic sequence with appended elements")
        n = x.core_len
        return SymSeq("reversed(%s)" % x.key, n, lambda i: x.core_at(I, n - 1 - I.to_num(i)))
    return list(reversed(I.iterate(x)))


def py_zip(I, *xs):
    if all(isinstance(x, SymSeq) for x in xs) and xs:
        a = xs[0]
        length = a.length
        if any(b.length.key() != a.length.key() for b in xs[1:]):
            # zip truncates to the shortest: length is the minimum of the lengths
            length = alg.sym(I.P.fresh_name("ziplen"), "Int")
            zl = I.P.z(length)
            I.P.assume(z3.And(*[zl <= I.P.z(x.length) for x in xs]))
            I.P.assume(z3.Or(*[zl == I.P.z(x.length) for x in xs]))
        return SymSeq("zip(%s)" % ",".join(str(x.key) for x in xs), length, lambda idx: tuple(x.at(I, idx) for x in xs))
    its = [I.iterate(x) for x in xs]
    return list(zip(*its))


def py_abs(I, x):
    if isinstance(x, (int, float, Fraction)):
        return abs(x)
    x = I.to_num(x)
    if I.P.branch(I.compare(ast.GtE(), x, 0)):
        return x
    return -x


def py_float(I, x=0.0):
    if isinstance(x, str):
        return float(x)
    return x


def py_int(I, x=0):
    if isinstance(x, (int, str, float, Fraction)):
        return int(x)
    if isinstance(x, Num) and x.is_const():
        return int(x.const_value())  # truncation towards zero, as CPython
    if isinstance(x, Num) and x.sort() == "Int":
        return x
    if isinstance(x, (bool, SBool)):
        return I.to_num(x)
    raise Unsupported("int() of a symbolic real")


def py_round(I, x, nd=None):
    if isinstance(x, Num) and x.is_const():
        x = x.const_value()
    if isinstance(x, (int, float, Fraction)) and (nd is None or isinstance(nd, int)):
        return round(x) if nd is None else round(x, nd)  # Fraction / int / float: CPython's own rounding (half to even)
    # a symbolic argument: the rounded value is an opaque number (only printing uses it in the code under contract), never the argument itself
    return alg.raw_app("py_round", I.to_num(x), I.to_num(0 if nd is None else nd), sort="Real" if nd is not None else "Int")


def py_hash(I, x):
    if isinstance(x, Obj):
        m = x.cls.find("methods", "__hash__")
        if m:
            return I.call_function(m, [x], {})
        return id(x)  # identity hash
    if isinstance(x, (tuple, list)):
        return alg.raw_app("tuplehash", *[I.to_num(py_hash(I, e)) for e in x], sort="Int") if x else 0
    if isinstance(x, SetVal):
        tot = Num.const(0)
        for e in x.items:
            tot = tot + I.to_num(py_hash(I, e))
        return alg.raw_app("sethash", tot, Num.const(len(x.items)), sort="Int")
    if isinstance(x, (frozenset, set)):
        return alg.raw_app("sethash", I.to_num(sum(hash(e) for e in x)), Num.const(len(x)), sort="Int")
    if x is None or isinstance(x, (int, str, bool)):
        return hash(x)
    if isinstance(x, Model) and hasattr(x, "hash"):
        return x.hash(I)
    if isinstance(x, Num):
        return alg.raw_app("hash", x, sort="Int")
    return alg.raw_app("hash", alg.sym("obj!%d" % id(x)), sort="Int")


def py_print(I, *a, **k):
    I.P.effects.append(("print",))
    return None


def py_sorted(I, xs, key=None, reverse=False):
    if isinstance(xs, Model) and hasattr(xs, "as_sorted"):
        return xs.as_sorted(I, key, reverse)
    items = I.iterate(xs)
    try:
        if key is None:
            return sorted(items, reverse=reverse)
    except TypeError:
        pass
    raise Unsupported("sorted() of symbolic values")


def py_any(I, xs):
    acc = False
    for x in I.iterate(xs):
        acc = I.b_or(acc, x)
    return acc


def py_all(I, xs):
    acc = True
    for x in I.iterate(xs):
        acc = I.b_and(acc, x)
    return acc


class DequeVal(Model):
    def __init__(self, maxlen=None):
        self.items = []
        self.maxlen = maxlen

    def m_append(self, I, x):
        self.items.append(x)
        if self.maxlen is not None and len(self.items) > self.maxlen:
            self.items.pop(0)

    def m_pop(self, I):
        if not self.items:
            I.P.vcs.append(VC("deque-nonempty[%s]" % I.site(None), "refuted", "pop from an empty deque"))
            raise PyRaise("IndexError: pop from an empty deque")
        return self.items.pop()

    def m___len__(self, I):
        return len(self.items)


class DefaultDictVal(Model):
    def __init__(self, factory):
        self.factory = factory
        self.d = {}

    def getitem(self, I, key):
        for k in self.d:
            e = I.equal(k, key)
            if e is True or (e is not False and I.P.branch(e)):
                return self.d[k]
        v = I.call(self.factory, [], {})
        self.d[key] = v
        return v

    def setitem(self, I, key, v):
        I.setitem(self.d, key, v)

    def contains(self, I, item):
        return I.contains(self.d, item)

    def iterate(self, I):
        return list(self.d.keys())

    def m_items(self, I):
        return list(self.d.items())

    def m_values(self, I):
        return list(self.d.values())

    def m_keys(self, I):
        return list(self.d.keys())

    def m_copy(self, I):
        n = DefaultDictVal(self.factory)
        n.d = dict(self.d)
        return n

    def m_update(self, I, other):
        for k, v in (other.items() if isinstance(other, dict) else other.d.items()):
            I.setitem(self.d, k, v)

    def m___len__(self, I):
        return len(self.d)

    def delitem(self, I, key):
        for k in list(self.d):
            e = I.equal(k, key)
            if e is True or (e is not False and I.P.branch(e)):
                del self.d[k]
                return
        I.P.vcs.append(VC("key-present[%s]" % I.site(None), "refuted", "del of a missing key"))
        raise PyRaise("KeyError")


# ----------------------------------------------------------------------------------------------------------- numpy / math


def _elementwise(f):
    def g(I, x, *a, **k):
        if isinstance(x, NpArr):
            return NpArr([f(I, v) for v in x.data])
        if isinstance(x, SymSeq):
            return x.map(I, "%s(%s)" % (f.__name__, x.key), lambda v: f(I, v))
        if isinstance(x, list):
            return NpArr([f(I, v) for v in x])
        return f(I, x)

    return g


def _log(I, x):
    if isinstance(x, float) and x == float("inf"):
        return x
    x = I.to_num(x)
    if x.is_const():
        c = x.const_value()
        if c <= 0:
            I.P.vcs.append(VC("log-domain[%s]" % I.site(None), "refuted", "log of the constant %s" % c, model=I._model_now()))
            if c == 0:
                return float("-inf")
            raise PyRaise("log of a negative number")
        return _num_or_int(alg.log_const(c))
    I.P.check("log-domain[%s]" % I.site(None), I.P.z(x) > 0, "argument %r" % (x,))
    return alg.slog(x)


def _exp(I, x):
    if isinstance(x, float) and x == float("-inf"):
        return 0
    return _num_or_int(alg.sexp(I.to_num(x)))


def _log1p(I, x):
    return _log(I, I.binop(ast.Add(), 1, x))


def _lgamma(I, x):
    x = I.to_num(x)
    if x.is_const():
        c = x.const_value()
        if c.denominator == 1 and 1 <= c <= 20:
            return _num_or_int(alg.log_const(math.factorial(int(c) - 1)))
        if c.denominator == 1 and c <= 0:
            return float("inf")
    return alg.raw_app("LGamma", x)


def _square(I, x):
    return I.binop(ast.Mult(), x, x)


np_log = _elementwise(_log)
np_exp = _elementwise(_exp)
np_log1p = _elementwise(_log1p)
np_square = _elementwise(_square)


def np_array(I, x, dtype=None, order=None, **k):
    if isinstance(x, (NpArr, SymSeq)):
        return x.m_copy(I)
    if isinstance(x, (list, tuple)):
        return NpArr(list(x))
    if isinstance(x, Model) and "ndarray" in getattr(x, "py_classes", ()) + tuple(getattr(type(x), "py_classes", ())) or (isinstance(x, Model) and hasattr(x, "m_copy") and k.get("copy", True) is not False):
        if hasattr(x, "m_copy") and k.get("copy", True) is not False:
            return x.m_copy(I)  # np.array(a) of an array is a copy of it
    raise Unsupported("np.array of %r" % type(x).__name__)


def np_asarray(I, x, **k):
    if isinstance(x, (NpArr, SymSeq)):
        return x
    return np_array(I, x)


def np_sum(I, x, axis=None):
    if isinstance(x, (NpArr, SymSeq)):
        return x.m_sum(I)
    return py_sum(I, x)


def np_const_array(value):
    def f(I, n, dtype=None, order=None):
        if isinstance(n, tuple):
            raise Unsupported("np.zeros/ones with a shape tuple")
        if isinstance(n, Num):
            if not n.is_const():
                return SymSeq("const(%s)" % value, n, lambda i: value)
            n = int(n.const_value())
        return NpArr([value] * n)

    return f


def np_fromiter(I, x, dtype=None, count=-1):
    if isinstance(x, SymSeq):
        return x
    return NpArr(list(I.iterate(x)))


def np_isneginf(I, x):
    if isinstance(x, float):
        return x == float("-inf")
    return False  # A-REAL: symbolic reals are finite


def np_isinf(I, x):
    if isinstance(x, float):
        return abs(x) == float("inf")
    return False


def np_max(I, x, axis=None, keepdims=False):
    if isinstance(x, NpArr):
        return py_max(I, x.data)
    if isinstance(x, SymSeq):
        # the maximum of a non-empty sequence: some real M with M >= every element (only that is used)
        I.P.check("max-nonempty[%s]" % I.site(None), I.P.z(x.length) > 0, "np.max of an empty array raises ValueError")
        # the maximum is a function of the sequence: it depends on whatever outer bound indices the elements mention
        probe = alg.fresh_bound()
        v = x.core_at(I, probe)
        outer = sorted((a for a in (v.all_atoms_free() if isinstance(v, Num) else []) if alg.is_bound_atom(a) and a != list(probe.atoms())[0]), key=lambda a: a.key)
        if outer:
            return alg.raw_app(I.P.fresh_name("max[%s]" % x.key), *[Num.of_atom(a) for a in outer])
        return alg.sym(I.P.fresh_name("max[%s]" % x.key))
    raise Unsupported("np.max of %r" % type(x).__name__)


def it_repeat(I, x, n=None):
    if isinstance(n, Num):
        if not n.is_const():
            raise Unsupported("repeat with a symbolic count")
        n = int(n.const_value())
    return [x] * n


def it_combinations(I, xs, r):
    if isinstance(r, Num):
        r = int(r.const_value())
    return [tuple(c) for c in itertools.combinations(I.iterate(xs), r)]


def it_chain_from_iterable(I, xs):
    out = []
    for x in I.iterate(xs):
        out.extend(I.iterate(x))
    return out


def co_defaultdict(I, factory=None):
    return DefaultDictVal(factory)


def co_deque(I, iterable=(), maxlen=None):
    d = DequeVal(maxlen)
    for x in iterable:
        d.m_append(I, x)
    return d


BUILTINS = {n: PyBuiltin(n, f) for n, f in {
    "len": py_len, "max": py_max, "min": py_min, "sum": py_sum, "isinstance": py_isinstance, "range": py_range,
    "list": py_list, "enumerate": py_enumerate, "zip": py_zip, "abs": py_abs, "float": py_float, "int": py_int,
    "round": py_round, "hash": py_hash, "print": py_print, "sorted": py_sorted, "any": py_any, "all": py_all,
    "tuple": lambda I, x=(): tuple(I.iterate(x)), "dict": lambda I, x=None, **k: (x.m_copy(I) if isinstance(x, Model) and hasattr(x, "m_copy") and not k else dict(x or {}, **k)),
    "set": lambda I, x=(): _mkset(I, x, frozen=False), "frozenset": lambda I, x=(): _mkset(I, x),
    "str": lambda I, x="": py_str(I, x), "reversed": lambda I, x: py_reversed(I, x),
    "map": lambda I, f, *xs: (xs[0].map(I, "map(%s)" % xs[0].key, lambda v: I.call(f, [v], {})) if len(xs) == 1 and isinstance(xs[0], SymSeq)
                              else [I.call(f, list(a), {}) for a in zip(*[I.iterate(x) for x in xs])]),
    "id": lambda I, x: id(x), "bool": lambda I, x=False: I.truth(x), "repr": lambda I, x: "<repr>",
    "callable": lambda I, x: True, "Exception": lambda I, *a: ("Exception",) + a,
}.items()}


def _mkset(I, x, frozen=True):
    if isinstance(x, Model) and hasattr(x, "as_set"):
        return x.as_set(I, frozen)
    items = I.iterate(x)
    res = []
    for v in items:
        I.set_insert(res, v)  # an element that may equal an earlier one forks the path
    if any(isinstance(v, (Num, Obj, Model)) for v in res):
        return SetVal(res)
    try:
        return frozenset(res) if frozen else SetVal(res)
    except TypeError:
        return SetVal(res)


EXTERNAL = {n: PyBuiltin(n, f) for n, f in {
    "numpy.log": np_log, "numpy.exp": np_exp, "numpy.log1p": np_log1p, "numpy.square": np_square, "numpy.array": np_array,
    "numpy.asarray": np_asarray, "numpy.sum": np_sum, "numpy.fromiter": np_fromiter, "numpy.isneginf": np_isneginf,
    "numpy.isinf": np_isinf, "numpy.max": np_max, "numpy.zeros": np_const_array(0), "numpy.ones": np_const_array(1), "math.lgamma": lambda I, x: _lgamma(I, x), "math.log": lambda I, x: _log(I, x),
    "math.exp": lambda I, x: _exp(I, x),
    "itertools.repeat": it_repeat, "itertools.combinations": it_combinations, "itertools.chain.from_iterable": it_chain_from_iterable,
    "collections.defaultdict": co_defaultdict, "collections.deque": co_deque,
}.items()}
class _FInfo(Model):
    def a_tiny(self, I):
        return Num.const(Fraction(2.2250738585072014e-308))

    def a_eps(self, I):
        return Num.const(Fraction(2.220446049250313e-16))

    def a_max(self, I):
        return Num.const(Fraction(1.7976931348623157e308))


EXTERNAL["numpy.finfo"] = PyBuiltin("numpy.finfo", lambda I, *a: _FInfo())
EXTERNAL["numpy.float64"] = "float64"
EXTERNAL["numpy.inf"] = float("inf")
EXTERNAL["math.inf"] = float("inf")


# ----------------------------------------------------------------------------------------------------------- methods of python values


class StrExpr(Model):
    """a string kept as the term that built it (enabled per contract by registry.structured_strings)"""

    def __init__(self, term):
        self.term = term

    def binop(self, I, op, other, swapped):
        if not isinstance(op, ast.Add):
            raise Unsupported("operation on a structured string")
        return StrExpr(("concat", other, self) if swapped else ("concat", self, other))

    def eq(self, I, other):
        return isinstance(other, StrExpr) and _term_eq(self.term, other.term)

    def __repr__(self):
        return "StrExpr%r" % (self.term,)


class OpaqueStr(Model):
    """a string built from values the engine does not know concretely (and the contract did not ask for structured strings): it can be passed on,
    concatenated and printed, but nothing may depend on its content - comparing it, using it as a key or taking its length is refused"""

    def __init__(self, why=""):
        self.why = why

    def binop(self, I, op, other, swapped):
        if not isinstance(op, ast.Add):
            raise Unsupported("operation on a string of unknown content")
        return OpaqueStr("concat")

    def eq(self, I, other):
        if other is self:
            return True
        raise Unsupported("comparison of a string built from symbolic values (%s); the contract must ask for structured strings" % self.why)

    def truth(self, I):
        raise Unsupported("truth value of a string built from symbolic values")

    def m___len__(self, I):
        raise Unsupported("length of a string built from symbolic values")

    def __repr__(self):
        return "<opaque str %s>" % self.why


def concrete_text(v):
    """(True, python value) when v is a value whose str()/format() CPython result the engine knows exactly"""
    if isinstance(v, bool) or v is None or isinstance(v, (str, int)):
        return True, v
    if isinstance(v, Num) and v.is_const():
        c = v.const_value()
        return (True, int(c)) if c.denominator == 1 and v.sort() == "Int" else (False, None)  # exact rationals stand for floats: their repr is not reproduced
    if isinstance(v, (tuple, list)):
        parts = [concrete_text(x) for x in v]
        if all(ok for ok, _ in parts):
            return True, type(v)(x for _, x in parts)
    return False, None


def py_str(I, x=""):
    if isinstance(x, (str, StrExpr, OpaqueStr)):
        return x
    ok, v = concrete_text(x)
    if ok:
        return str(v)
    if getattr(I.registry, "structured_strings", False):
        return StrExpr(("str", x))
    return OpaqueStr("str() of a symbolic value")


def _term_eq(a, b):
    if isinstance(a, StrExpr) and isinstance(b, StrExpr):
        return _term_eq(a.term, b.term)
    if isinstance(a, Num) and isinstance(b, Num):
        return (a - b).is_zero()
    if isinstance(a, (tuple, list)) and isinstance(b, (tuple, list)):
        return len(a) == len(b) and all(_term_eq(x, y) for x, y in zip(a, b))
    return a is b or (type(a) is type(b) and not isinstance(a, Model) and a == b)


def py_getattr(I, obj, name, node=None):
    if isinstance(obj, list):
        return PyBuiltin("list." + name, _list_method(obj, name))
    if isinstance(obj, dict):
        return PyBuiltin("dict." + name, _dict_method(obj, name))
    if isinstance(obj, tuple) and name in ("index", "count"):
        return PyBuiltin("tuple." + name, lambda I_, *a: getattr(obj, name)(*a))
    if isinstance(obj, str):
        if name in ("format", "join") and getattr(I.registry, "structured_strings", False):
            # strings built by the function under contract are kept as terms: ("format", template, args, kwargs) / ("join", sep, parts)
            if name == "format":
                return PyBuiltin("str.format", lambda I_, *a, **k: StrExpr(("format", obj, tuple(a), tuple(sorted(k.items(), key=lambda kv: kv[0])))))
            return PyBuiltin("str.join", lambda I_, parts: StrExpr(("join", obj, parts)))
        if name == "format":
            def fmt(I_, *a, **k):
                ca = [concrete_text(x) for x in a]
                ck = {kk: concrete_text(x) for kk, x in k.items()}
                if all(ok for ok, _ in ca) and all(ok for ok, _ in ck.values()):
                    return obj.format(*[v for _, v in ca], **{kk: v for kk, (_, v) in ck.items()})
                return OpaqueStr("format() of symbolic values")

            return PyBuiltin("str.format", fmt)
        if name == "join":
            def join(I_, parts):
                try:
                    ps = list(I_.iterate(parts))
                except Unsupported:
                    return OpaqueStr("join() over a collaborator's sequence")
                if all(isinstance(x, str) for x in ps):
                    return obj.join(ps)
                return OpaqueStr("join() of strings of unknown content")

            return PyBuiltin("str.join", join)
        return PyBuiltin("str." + name, lambda I_, *a, **k: getattr(obj, name)(*a, **k))
    if isinstance(obj, (set, frozenset, SetVal)):
        return PyBuiltin("set." + name, _set_method(obj, name))
    if isinstance(obj, Num):
        if name == "copy":
            return PyBuiltin("num.copy", lambda I_: obj)
        if name == "shape":
            return ()
    if isinstance(obj, (int, float)) and name == "copy":
        return PyBuiltin("num.copy", lambda I_: obj)
    if obj is None:
        # a concrete None on a feasible path: CPython raises here - an exception-freedom obligation that fails (or control flow, inside a matching try)
        I.P.check("no-exception[%s]" % I.site(node), False, "attribute %s of None: AttributeError" % name)
        raise PyRaise("AttributeError")
    raise Unsupported("attribute %s of %r (line %s)" % (name, type(obj).__name__, getattr(node, "lineno", "?")))


def _list_method(lst, name):
    def _guard(I):
        if I.P.ghost.get("summary_depth", 0) > 0 and id(lst) not in I.P.ghost["summary_local_lists"][-1]:
            raise Unsupported("the body of a summarised loop mutates a list that is not a local accumulator")

    def append(I, x):
        _guard(I)
        lst.append(x)

    def extend(I, xs):
        _guard(I)
        lst.extend(I.iterate(xs))

    def pop(I, idx=-1):
        if isinstance(idx, Num):
            idx = int(idx.const_value())
        if not lst:
            I.P.vcs.append(VC("list-nonempty[%s]" % I.site(None), "refuted", "pop from an empty list"))
            raise PyRaise("IndexError: pop from empty list")
        return lst.pop(idx)

    def copy(I):
        return list(lst)

    def remove(I, x):
        for k, v in enumerate(lst):
            e = I.equal(v, x)
            if e is True or (e is not False and I.P.branch(e)):
                del lst[k]
                return
        I.P.vcs.append(VC("list-remove-present[%s]" % I.site(None), "refuted", "list.remove(x): x not in list"))
        raise PyRaise("ValueError: list.remove(x): x not in list")

    def index(I, x):
        for k, v in enumerate(lst):
            e = I.equal(v, x)
            if e is True or (e is not False and I.P.branch(e)):
                return k
        I.P.vcs.append(VC("list-index-present[%s]" % I.site(None), "refuted", "list.index(x): x not in list"))
        raise PyRaise("ValueError: not in list")

    def insert(I, k, x):
        _guard(I)
        if isinstance(k, Num) and k.is_const():
            k = int(k.const_value())
        if not isinstance(k, int):
            raise Unsupported("list.insert at a symbolic position")
        lst.insert(k, x)

    def _plain(v):
        if isinstance(v, Num) and v.is_const():
            return v.const_value()
        if isinstance(v, (bool, int, float, Fraction, str)):
            return v
        if isinstance(v, tuple):
            return tuple(_plain(x) for x in v)
        raise Unsupported("list.sort() over values whose order is not known concretely")

    def sort(I, key=None, reverse=False):
        _guard(I)
        if key is not None:
            raise Unsupported("list.sort(key=...)")
        order = sorted(range(len(lst)), key=lambda i: _plain(lst[i]), reverse=bool(reverse))  # stable, like CPython
        lst[:] = [lst[i] for i in order]

    def count(I, x):
        n = 0
        for v in lst:
            e = I.equal(v, x)
            if e is True or (e is not False and I.P.branch(e)):
                n += 1
        return n

    def reverse(I):
        _guard(I)
        lst.reverse()

    def clear(I):
        _guard(I)
        del lst[:]

    table = {"append": append, "extend": extend, "pop": pop, "copy": copy, "remove": remove, "index": index,
             "insert": insert, "sort": sort, "count": count, "reverse": reverse, "clear": clear}
    if name not in table:
        raise Unsupported("list.%s" % name)
    return table[name]


def _dict_method(d, name):
    def items(I):
        return list(d.items())

    def keys(I):
        return list(d.keys())

    def values(I):
        return list(d.values())

    def get(I, k, default=None):
        return I.dict_get(d, k, None, default, True)

    def copy(I):
        return dict(d)

    def update(I, other=None, **kw):
        if other is not None:
            for k, v in (other.items() if isinstance(other, dict) else other):
                I.setitem(d, k, v)
        for k, v in kw.items():
            d[k] = v

    def pop(I, k, *default):
        for kk in list(d):
            e = I.equal(kk, k)
            if e is True or (e is not False and I.P.branch(e)):
                return d.pop(kk)
        if default:
            return default[0]
        I.P.vcs.append(VC("key-present[%s]" % I.site(None), "refuted", "dict.pop of a missing key without default"))
        raise PyRaise("KeyError")

    def setdefault(I, k, v=None):
        if I.P.branch(I.contains(d, k)):
            return I.dict_get(d, k)
        d[k] = v
        return v

    def clear(I):
        d.clear()

    table = {"items": items, "keys": keys, "values": values, "get": get, "copy": copy, "update": update, "pop": pop,
             "setdefault": setdefault, "clear": clear}
    if name not in table:
        raise Unsupported("dict.%s" % name)
    return table[name]


def _set_method(s, name):
    items = list(s.items) if isinstance(s, SetVal) else list(s)

    def copy(I):
        return SetVal(list(items)) if isinstance(s, SetVal) else type(s)(s)

    def isdisjoint(I, other):
        acc = True
        for x in items:
            acc = I.b_and(acc, I.b_not(I.contains(other, x)))
        return acc

    def issuperset(I, other):
        acc = True
        for x in I.iterate(other):
            acc = I.b_and(acc, I.contains(s if not isinstance(s, SetVal) else s.items, x))
        return acc

    def add(I, x):
        no_heap_mutation_in_summary(I, "a set")
        if isinstance(s, SetVal):
            I.set_insert(s.items, x)
        elif isinstance(x, (Num, SBool)) and not (isinstance(x, Num) and x.is_const()):
            raise Unsupported("a symbolic value added to a concrete set")
        else:
            s.add(x)

    def discard(I, x):
        if isinstance(s, SetVal):
            keep = []
            for w in s.items:
                e = I.equal(x, w)
                if e is True or (e is not False and I.P.branch(e)):
                    continue  # removed (the items are pairwise different, but each may-equal item is decided on its own branch)
                keep.append(w)
            s.items[:] = keep
        else:
            s.discard(x)

    def update(I, other):
        for x in I.iterate(other):
            add(I, x)

    table = {"copy": copy, "isdisjoint": isdisjoint, "issuperset": issuperset, "add": add, "discard": discard, "update": update}
    if name not in table:
        raise Unsupported("set.%s" % name)
    return table[name]


# ----------------------------------------------------------------------------------------------------------- 2-D arrays


class Arr2(Model):
    """numpy float array of symbolic shape (D, G): elem(d, k) -> Num.  The object is mutable: in-place operators, `out=`,
    mask stores and row-view stores replace the element function, so aliases observe the update (as in numpy)."""

    py_classes = ("ndarray",)
    counter = [0]

    def __init__(self, D, G, elem, name=None):
        Arr2.counter[0] += 1
        self.id = Arr2.counter[0]
        self.D = D if isinstance(D, Num) else Num.const(D)
        self.G = G if isinstance(G, Num) else Num.const(G)
        self.elem = elem
        self.name = name or "arr%d" % self.id
        self.frozen = False  # set for arrays that must not be written (values handed out by a cache)
        self.writes = 0

    @staticmethod
    def symbolic(name, D, G):
        return Arr2(D, G, lambda d, k: alg.raw_app(name, d, k), name)

    def at(self, I, d, k):
        return self.elem(I.to_num(d), I.to_num(k))

    def _write(self, I, what):
        no_heap_mutation_in_summary(I, "array " + self.name)
        self.writes += 1
        if self.frozen:
            I.P.vcs.append(VC("no-write-to-cached-array[%s@%s]" % (self.name, I.site(None)), "refuted", "%s writes into an array that was obtained from a cache" % what))

    def a_shape(self, I):
        return (_num_or_int(self.D), _num_or_int(self.G))

    def a_size(self, I):
        return _num_or_int(self.D) * _num_or_int(self.G)

    def a_ndim(self, I):
        return 2

    def _bcast(self, I, other, f):
        me = self.elem
        if isinstance(other, Arr2):
            oe = other.elem
            od1 = other.D.is_const() and other.D.const_value() == 1 and not (self.D.is_const() and self.D.const_value() == 1)
            og1 = other.G.is_const() and other.G.const_value() == 1 and not (self.G.is_const() and self.G.const_value() == 1)
            if not og1 and other.G.key() != self.G.key() or not od1 and other.D.key() != self.D.key():
                raise Unsupported("broadcast of shapes (%r,%r) and (%r,%r)" % (self.D, self.G, other.D, other.G))
            return lambda d, k: f(me(d, k), oe(Num.const(0) if od1 else d, Num.const(0) if og1 else k))
        if isinstance(other, Model):
            raise Unsupported("Arr2 op %s" % type(other).__name__)
        return lambda d, k: f(me(d, k), other)

    def binop(self, I, op, other, swapped):
        f = (lambda a, b: I.binop(op, b, a)) if swapped else (lambda a, b: I.binop(op, a, b))
        return Arr2(self.D, self.G, self._bcast(I, other, f))

    def iop(self, I, op, other):
        self._write(I, "an in-place operator")
        self.elem = self._bcast(I, other, lambda a, b: I.binop(op, a, b))
        return self

    def compare(self, I, op, other):
        return Mask2(self, op, other)

    def map(self, I, f, out=None):
        me = self.elem
        tgt = out if out is not None else Arr2(self.D, self.G, None)
        if out is not None:
            out._write(I, "an out= argument")
        tgt.elem = lambda d, k: f(me(d, k))
        return tgt

    def getitem(self, I, idx):
        if isinstance(idx, tuple) and len(idx) == 2:
            d, k = idx
            if d is Ellipsis and isinstance(k, slice):
                d = slice(None)
            if isinstance(k, slice) and isinstance(d, slice):
                if k.start is None and k.step is None and d == slice(None):
                    stop = self.G if k.stop is None else I.to_num(k.stop)
                    return Arr2(self.D, stop, self.elem)
                raise Unsupported("2-D slice")
            if isinstance(k, slice):
                if k != slice(None):
                    raise Unsupported("row slice other than [i, :]")
                return RowView(self, I.to_num(d))
            if isinstance(d, slice):
                raise Unsupported("column view")
            d, k = I.to_num(d), I.to_num(k)
            if k.is_const() and k.const_value() < 0:
                k = self.G + k
            zd, zk = I.P.z(d), I.P.z(k)
            I.P.check("array-index-in-range[%s]" % I.site(None), z3.And(zd >= 0, zd < I.P.z(self.D), zk >= 0, zk < I.P.z(self.G)), "index [%r, %r] into shape (%r, %r)" % (d, k, self.D, self.G))
            return self.elem(d, k)
        if isinstance(idx, Mask2):
            raise Unsupported("boolean-mask read")
        d = I.to_num(idx)
        return RowView(self, d)

    def setitem(self, I, idx, value):
        if isinstance(idx, Mask2):
            if idx.arr is not self:
                raise Unsupported("mask store with a mask of another array")
            self._write(I, "a mask store")
            old = self.elem
            mask = idx

            def new(d, k, old=old):
                v = old(d, k)
                c = mask.decide(I, v)
                if c is False:
                    return v
                if c is True:
                    return value
                raise Unsupported("mask store whose condition is not decided on the element (%r)" % (v,))

            self.elem = new
            return
        if isinstance(idx, tuple) and len(idx) == 2 and not any(isinstance(x, slice) for x in idx):
            self._write(I, "an element store")
            d0, k0 = I.to_num(idx[0]), I.to_num(idx[1])
            old = self.elem
            if alg.has_bound(d0) or alg.has_bound(k0):
                raise Unsupported("element store at a bound index outside a generic loop")
            P = I.P

            def new(d, k, old=old):
                if (d - d0).is_zero() and (k - k0).is_zero():
                    return value
                zc = z3.And(P.z(d) == P.z(d0), P.z(k) == P.z(k0))
                if not P.feasible(zc):
                    return old(d, k)
                if not P.feasible(z3.Not(zc)):
                    return value
                return alg.z3atom(z3.If(zc, P.z(I.to_num(value)), P.z(I.to_num(old(d, k)))))

            self.elem = new
            return
        raise Unsupported("array store at %r" % (idx,))

    def m_copy(self, I):
        return Arr2(self.D, self.G, self.elem)

    def m_max(self, I, axis=None, keepdims=False):
        return np_max(I, self, axis=axis, keepdims=keepdims)


class Mask2:
    def __init__(self, arr, op, other):
        self.arr, self.op, self.other = arr, op, other

    def decide(self, I, v):
        """True / False when the comparison is decided for the element value v under the path facts, else None"""
        v = I.to_num(v)
        if isinstance(self.op, (ast.LtE, ast.Lt)) and isinstance(self.other, (int, float)) and self.other == 0 and alg.is_positive(v):
            return False
        c = I.compare(self.op, v, self.other)
        if c is True or c is False:
            return c
        if not I.P.feasible(c.e):
            return False
        if not I.P.feasible(z3.Not(c.e)):
            return True
        return None


class RowView(Model):
    """arr[i, :] - reads give the row as a sequence; `out=` stores define the row"""

    def __init__(self, arr, d):
        self.arr, self.d = arr, d

    def seq(self, I):
        arr, d = self.arr, self.d
        return SymSeq("%s[%s,:]" % (arr.name, d.key()), arr.G, lambda k: arr.elem(d, k))

    def assign(self, I, rowfn):
        """rowfn(k) -> value; defines row d.  Inside a generic loop over all rows (index d is the loop's generic index) the
        definition holds for every row once the loop is finished."""
        arr, d0 = self.arr, self.d
        arr._write(I, "a row store")
        gens = I.P.ghost.get("generic_indices", [])
        old = arr.elem
        d0_atoms = d0.atoms()
        gen_atoms = set()
        for g in gens:
            gen_atoms |= g.atoms()
        if len(d0.terms) == 1 and d0_atoms and d0_atoms <= gen_atoms and list(d0.terms.values()) == [1]:
            # row index is exactly the generic index of an enclosing independent-iterations loop over the rows
            g_atom = list(d0_atoms)[0]
            arr.elem = lambda d, k: _subst_atom(rowfn(k), g_atom, d)
            arr.all_rows_defined_by_loop = True
            return
        P = I.P

        def new(d, k, old=old):
            if (d - d0).is_zero():
                return rowfn(k)
            if not P.feasible(P.z(d) == P.z(d0)):
                return old(d, k)
            raise Unsupported("row store at a symbolic row read back at another symbolic row")

        arr.elem = new

    def getitem(self, I, idx):
        return self.seq(I).getitem(I, idx)

    def m___len__(self, I):
        return _num_or_int(self.arr.G)

    def iterate(self, I):
        raise Unsupported("iteration over a symbolic row")


def _subst_atom(v, atom, repl):
    if isinstance(v, Num):
        return _num_or_int(v.subst({atom: repl}))
    return v


def np_max2(I, x, axis=None, keepdims=False):
    if isinstance(x, Arr2):
        if axis in (-1, 1) and keepdims:
            name = I.P.fresh_name("rowmax[%s]" % x.name)
            return Arr2(x.D, 1, lambda d, k: alg.raw_app(name, d))
        if axis is None:
            return alg.sym(I.P.fresh_name("max[%s]" % x.name))
        raise Unsupported("np.max(axis=%r, keepdims=%r)" % (axis, keepdims))
    return None


_np_max_1d = np_max


def np_max(I, x, axis=None, keepdims=False):  # noqa: F811
    r = np_max2(I, x, axis, keepdims)
    if r is not None:
        return r
    if isinstance(x, RowView):
        x = x.seq(I)
    return _np_max_1d(I, x, axis, keepdims)


def _elementwise2(f1):
    def g(I, x, *a, out=None, **k):
        if isinstance(x, Arr2):
            return x.map(I, lambda v: f1_scalar[f1](I, v), out=out)
        return f1(I, x, *a, **k)

    return g


f1_scalar = {}


def np_convolve(I, a, b):
    """np.convolve(a, b)[k] = sum_{j=0..k} a[j] b[k-j] for k < min(len a, len b)  (full convolution, leading part)"""
    if isinstance(a, RowView):
        a = a.seq(I)
    if isinstance(b, RowView):
        b = b.seq(I)
    if not (isinstance(a, SymSeq) and isinstance(b, SymSeq)):
        raise Unsupported("np.convolve of %r, %r" % (type(a).__name__, type(b).__name__))
    n = a.length + b.length - 1

    def elem(k):
        j = alg.fresh_bound()
        return alg.bigsum("", I.to_num(k) + 1, I.to_num(a.core_at(I, j)) * I.to_num(b.core_at(I, I.to_num(k) - j)), bound=j)

    s = SymSeq("convolve(%s,%s)" % (a.key, b.key), n, elem)
    s.valid_prefix = a.length  # elem(k) is the stated sum only for k < len(a) = len(b)
    return s


def sp_fftconvolve(I, a, b, axes=None, mode="full"):
    """scipy.signal.fftconvolve along the last axis = row-wise np.convolve (exact in the real model; its error is a bounded clause of C02)"""
    if not (isinstance(a, Arr2) and isinstance(b, Arr2)):
        raise Unsupported("fftconvolve of %r" % type(a).__name__)

    def elem(d, k):
        j = alg.fresh_bound()
        return alg.bigsum("", I.to_num(k) + 1, I.to_num(a.elem(d, j)) * I.to_num(b.elem(d, I.to_num(k) - j)), bound=j)

    return Arr2(a.D, a.G + b.G - 1, elem)


def np_ascontiguousarray(I, x, dtype=None):
    if isinstance(x, Arr2):
        return x
    if isinstance(x, SymSeq):
        # a sequence of rows
        probe = x.core_at(I, alg.fresh_bound())
        if isinstance(probe, RowView):
            probe = probe.seq(I)
        if isinstance(probe, SymSeq):
            G = probe.length

            def elem(d, k):
                row = x.core_at(I, d)
                if isinstance(row, RowView):
                    row = row.seq(I)
                return row.core_at(I, k)

            return Arr2(x.length, G, elem)
    raise Unsupported("ascontiguousarray of %r" % type(x).__name__)


def np_empty_like(I, x):
    if isinstance(x, Arr2):
        name = I.P.fresh_name("uninit")
        return Arr2(x.D, x.G, lambda d, k: alg.raw_app(name, d, k))
    raise Unsupported("empty_like")


def np_copyto(I, dst, src):
    if isinstance(dst, Arr2) and isinstance(src, Arr2):
        dst._write(I, "np.copyto")
        se = src.elem
        dst.elem = lambda d, k: se(d, k)
        return None
    raise Unsupported("copyto")


def np_add(I, a, b, out=None, order=None):
    r = a.binop(I, ast.Add(), b, False) if isinstance(a, Arr2) else (b.binop(I, ast.Add(), a, True) if isinstance(b, Arr2) else I.binop(ast.Add(), a, b))
    if out is not None:
        if not isinstance(out, Arr2):
            raise Unsupported("np.add out=")
        out._write(I, "np.add(out=)")
        out.elem = r.elem
        return out
    return r


def np_logaddexp_accumulate(I, x, out=None):
    if isinstance(x, RowView):
        x = x.seq(I)
    if not isinstance(x, SymSeq):
        raise Unsupported("logaddexp.accumulate of %r" % type(x).__name__)

    def rowfn(k):
        j = alg.fresh_bound()
        return alg.slog(alg.bigsum("", I.to_num(k) + 1, alg.sexp(I.to_num(x.core_at(I, j))), bound=j))

    if out is None:
        return SymSeq("logcumsum(%s)" % x.key, x.length, rowfn)
    if not isinstance(out, RowView):
        raise Unsupported("accumulate(out=%r)" % type(out).__name__)
    out.assign(I, rowfn)
    return out


def np_full(I, shape, value, order=None, dtype=None):
    if isinstance(shape, tuple) and len(shape) == 2:
        return Arr2(I.to_num(shape[0]), I.to_num(shape[1]), lambda d, k: value)
    raise Unsupported("np.full shape")


def _np_log_any(I, x, out=None, **kw):
    if isinstance(x, Arr2):
        return x.map(I, lambda v: _log(I, v), out=out)
    return np_log(I, x)


def _np_exp_any(I, x, out=None, **kw):
    if isinstance(x, Arr2):
        return x.map(I, lambda v: _exp(I, v), out=out)
    return np_exp(I, x)


class _LogAddExp(Model):
    def m_accumulate(self, I, x, out=None, **k):
        return np_logaddexp_accumulate(I, x, out=out)


EXTERNAL.update({n: PyBuiltin(n, f) for n, f in {
    "numpy.max": np_max, "numpy.convolve": np_convolve, "scipy.signal.fftconvolve": sp_fftconvolve, "numpy.ascontiguousarray": np_ascontiguousarray,
    "numpy.empty_like": np_empty_like, "numpy.copyto": np_copyto, "numpy.add": np_add, "numpy.full": np_full, "numpy.log": _np_log_any, "numpy.exp": _np_exp_any,
}.items()})
EXTERNAL["numpy.logaddexp"] = _LogAddExp()
