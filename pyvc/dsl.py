"""Contract registry and the driver that turns one contract harness into named, discharged obligations."""
import ast
import time
import traceback

import z3

from pyvc import alg
from pyvc.alg import Num
from pyvc.interp import Interp, Model, Obj, Path, PathEnd, PathInfeasible, PyRaise, SBool, VC, explore
from pyvc.source import FuncInfo, Repo, Unsupported


class Registry:
    def __init__(self):
        self.call_contracts = {}  # qualname -> handler(I, args, kwargs, node): the callee's contract (assumed here)
        self.class_models = {}  # class name -> constructor(I, *args, **kwargs)
        self.globals_override = {}
        self.top_level_inline = True
        self.executed = {}
        self.allowed_raises = []
        self.loop_invariants = {}
        self.generic_loops = set()
        self.assumed = []  # human-readable list of assumed callee contracts / models in force

    def note_executed(self, fi):
        self.executed[fi.qualname] = fi

    def allowed_raise(self, I, node, what):
        for pred in self.allowed_raises:
            if pred(I, node, what):
                return True
        return False

    def loop_invariant(self, I, node, ordinal):
        """loop contracts are keyed by (function qualname, ordinal of the loop inside the function in source order)"""
        return self.loop_invariants.get((I.call_stack[-1] if I.call_stack else None, ordinal))

    def copy(self):
        r = Registry()
        r.call_contracts = dict(self.call_contracts)
        r.class_models = dict(self.class_models)
        r.globals_override = dict(self.globals_override)
        r.allowed_raises = list(self.allowed_raises)
        r.loop_invariants = dict(self.loop_invariants)
        r.assumed = list(self.assumed)
        r.generic_loops = set(self.generic_loops)
        return r


class Covers:
    def __init__(self):
        self.required = set()
        self.reached = set()


def verify(ctx, repo, registry, prefix, qualnames, harness, expect_covers=(), max_paths=4000, timeout_ms=20000,
           concretise=None, prop_funcs=True):
    """Run `harness(I, funcs)` on every feasible path.  harness builds the symbolic pre-state (assumptions = requires),
    calls the real function(s) through I.call_function(..., force_inline=True) and states the postconditions with
    I.P.check(name, goal, kind='post').  Every VC recorded on any path becomes the obligation `<prefix>.<vc name>`.
    """
    from vcheck import core

    funcs = []
    for q in ([qualnames] if isinstance(qualnames, str) else qualnames):
        try:
            fi = repo.lookup(q)
        except Unsupported as e:
            ctx.engine_error("%s: engine cannot process the current source of %s: %s" % (prefix, q, e))
            return
        except SyntaxError as e:
            ctx.engine_error("%s: the current source of %s does not parse: %s" % (prefix, q, e))
            return
        if fi is None:
            ctx.engine_error("contract refers to %s which does not exist in the current source" % q)
            return
        funcs.append(fi)
    if concretise is None:
        try:
            from replay import oracles as _or

            concretise = _or.for_functions([f.qualname for f in funcs])  # native replay oracle registered for these functions, if any
        except Exception:  # noqa
            concretise = None
    agg = {}
    reached = set()
    n_paths = 0
    n_ok = 0
    t0 = time.time()
    try:
        def run_harness(P):
            from pyvc.interp import PathEnd, PathInfeasible, PyRaise

            try:
                return harness(_mk(repo, P, registry), *funcs)
            except (PathEnd, PathInfeasible, PyRaise, Unsupported):
                raise
            except Exception:
                # a harness that stumbles over the state it has just found wrong (e.g. indexes an empty call log after the obligation about that log failed)
                # must not lose the refutation: the path ends here and keeps its obligations. Without a refuted obligation the exception is the engine's problem.
                if any(vc.status == "refuted" for vc in P.vcs):
                    raise PathEnd()
                raise

        for p in explore(run_harness, max_paths=max_paths, timeout_ms=timeout_ms):
            n_paths += 1
            if p.outcome[0] in ("ok", "cut") or any(vc.status == "refuted" for vc in p.vcs):
                n_ok += 1
            reached |= set(p.ghost.get("covers", ()))
            for vc in p.vcs:
                a = agg.setdefault(vc.name, {"status": "discharged", "paths": 0, "time": 0.0, "detail": vc.detail, "model": None, "kind": vc.kind})
                a["paths"] += 1
                a["time"] += vc.time_s
                if vc.status == "refuted":
                    if a["status"] != "refuted":
                        a["model"] = vc.model
                        a["detail"] = vc.detail
                        a["pc"] = list(p.pc_text)
                    a["status"] = "refuted"
                elif vc.status == "undecided" and a["status"] == "discharged":
                    a["status"] = "undecided"
                    a["detail"] = vc.detail
            if p.outcome[0] == "raise" and not p.ghost.get("raise_expected"):
                pass  # already recorded as a refuted no-exception VC
    except Unsupported as e:
        ctx.engine_error("%s: engine cannot process the current source: %s" % (prefix, e))
        return
    except Exception as e:  # noqa  -- a crash of the engine on unexpected source is "cannot decide", never a pass or a violation
        import traceback

        tb = traceback.format_exc().strip().splitlines()
        ctx.engine_error("%s: engine failed on the current source: %r [%s]" % (prefix, e, " | ".join(tb[-3:])[:300]))
        return
    # functions whose real body was executed symbolically
    for q, fi in registry.executed.items():
        ctx.function_under_contract(q, fi.module.path, fi.lines(), fi.sha256())
    if n_ok == 0:
        ctx.engine_error("%s: no feasible completed path (vacuous contract)" % prefix)
        return
    for c in expect_covers:
        ctx.covers["checked"] += 1
        if c in reached:
            ctx.covers["reachable"] += 1
        else:
            ctx.engine_error("%s: cover %s not reachable (contradictory precondition or dead contract clause)" % (prefix, c))
    if not agg:
        ctx.engine_error("%s: zero obligations generated" % prefix)
        return
    keep = getattr(ctx, "vc_filter", None)
    for name, a in sorted(agg.items()):
        full = "%s.%s" % (prefix, name)
        if keep is not None and not keep(full, a["kind"]):
            # a contract shared with another property: obligations that this property does not claim are that property's, not this one's
            ctx.extra.setdefault("obligations_left_to_their_own_property", 0)
            ctx.extra["obligations_left_to_their_own_property"] += 1
            continue
        if a["kind"] == "term" and a["status"] == "refuted":
            # a term-level obligation compares the library expression the code builds with the expected one: a mismatch may be an equivalent spelling,
            # so it is not a violation by itself - the native stand-in of the property (real pandas) decides; reported as undecided (exit 2)
            a["status"] = "undecided"
            a["detail"] = "term-level mismatch (the code builds a different library expression than the contract expects; equivalent spelling or defect - see the bounded stand-in): " + a["detail"]
        status = {"discharged": core.DISCHARGED, "refuted": core.REFUTED, "undecided": core.UNDECIDED}[a["status"]]
        ctx.add_obligation(full, status, "z3" if a["kind"] != "term" else "term", a["time"], "%s (%d path occurrence(s))" % (a["detail"], a["paths"]))
        if a["status"] == "refuted":
            payload = {"obligation": full, "solver": "z3 sat", "model": a["model"], "detail": a["detail"], "functions": [f.qualname for f in funcs]}
            found = False
            if concretise is not None:
                try:
                    rep = concretise(name, a["model"] or {})
                    if rep is not None:
                        payload["native_replay"] = rep
                        found = bool(rep.get("reproduced"))
                except Exception as e:  # noqa
                    payload["native_replay_error"] = repr(e)
            ctx.fail(full, "%s; counter-model %s" % (a["detail"], _short(a["model"])), payload, found_input=found)
    ctx.extra.setdefault("paths_explored", 0)
    ctx.extra["paths_explored"] += n_paths
    if hasattr(ctx, "checkpoint"):
        ctx.stage = "after the contracts of %s" % ", ".join(f.qualname for f in funcs)
        ctx.checkpoint(True)


def _short(m):
    if not m:
        return "{}"
    items = sorted(m.items())[:12]
    return "{" + ", ".join("%s=%s" % kv for kv in items) + "}"


def _mk(repo, P, registry):
    return Interp(repo, P, registry)


def cover(I, label):
    I.P.ghost.setdefault("covers", set()).add(label)


# ----------------------------------------------------------------------------------------------------------- small helpers for harnesses


def real(I, name, *facts):
    v = alg.sym(name, "Real")
    return v


def integer(I, name):
    return alg.sym(name, "Int")


def assume(I, *conds):
    for c in conds:
        if isinstance(c, bool):
            if not c:
                raise PathInfeasible()
            continue
        I.P.assume(c.e if isinstance(c, SBool) else c)


def conj(*parts):
    """conjunction of Python truth values and z3 formulas that never asks a z3 formula for its truth value
    (`formula and x` evaluates bool(formula), which is a structural comparison and silently drops x when it is False)"""
    zs = []
    for p_ in parts:
        if isinstance(p_, SBool):
            p_ = p_.e
        if isinstance(p_, z3.ExprRef):
            zs.append(p_)
        elif not p_:
            return False
    return z3.And(*zs) if zs else True


def zz(I, x):
    return I.P.z(x)


def loop_cut(I, node, fr, name, havoc, inv, after_body=None):
    """Hoare-style cut of a `while` loop: inv holds on entry; from an arbitrary state satisfying inv and the guard one
    iteration re-establishes inv (that path then ends); execution continues from inv and not guard."""
    from pyvc.interp import _Break, _Continue
    I.P.check("%s.inv-on-entry" % name, inv(I, fr), "loop invariant holds when the loop is reached", kind="post")
    havoc(I, fr)
    g = inv(I, fr)
    I.P.assume(g)
    if I.P.branch(I.truth(I.eval(node.test, fr))):
        cover(I, name + ".body")
        try:
            I.exec_block(node.body, fr)
        except (_Break, _Continue):
            raise Unsupported("break/continue inside a cut loop")
        if after_body is not None:
            after_body(I, fr)
        I.P.check("%s.inv-preserved" % name, inv(I, fr), "one iteration from an arbitrary invariant state re-establishes the invariant", kind="post")
        raise PathEnd()
    cover(I, name + ".exit")


def fold_loop(name, terms, totals=None):
    """Loop contract for `for x in seq: ... acc += f(x) ...` with arbitrary branching in the body (inductive invariant):
    from an arbitrary accumulated value a, one iteration on an arbitrary element e turns acc into a + term(e).
    terms: {variable: fn(I, element) -> Num}.  After the loop acc = acc0 + sum_i term(e_i) (+ tail elements), where the sum is
    totals[var](I, seq) when given (an opaque ghost total, defined by this very induction) and a BigSum of term otherwise."""
    from pyvc.builtins_model import SymSeq
    from pyvc.interp import _Break, _Continue

    def handler(I, node, fr):
        seq = I.eval(node.iter, fr)
        if not isinstance(seq, SymSeq):
            raise Unsupported("fold_loop over %r" % type(seq).__name__)
        P = I.P
        olds = {v: I.to_num(fr.vars[v]) for v in terms}
        mode = P.decide(2)
        if mode == 0:
            # inductive step on an arbitrary element (core or appended)
            i = seq.fresh_index(I, "e")
            for v in terms:
                fr.vars[v] = alg.sym(P.fresh_name("acc_" + v))
            start = {v: fr.vars[v] for v in terms}
            elem = seq.at(I, i)
            I.assign_target(node.target, elem, fr)
            cover(I, name + ".step")
            try:
                I.exec_block(node.body, fr)
            except _Continue:
                pass
            except _Break:
                raise Unsupported("break inside a fold loop")
            for v, tf in terms.items():
                P.check("%s.step[%s]" % (name, v), P.z(I.to_num(fr.vars[v])) == P.z(start[v] + I.to_num(tf(I, elem, fr))),
                        "one iteration adds exactly the specified term to %s" % v, kind="post")
            raise PathEnd()
        cover(I, name + ".after")
        for v, tf in terms.items():
            if totals and v in totals:
                tot = I.to_num(totals[v](I, seq, fr))
            else:
                b = alg.fresh_bound()
                tot = alg.bigsum("", seq.core_len, I.to_num(tf(I, seq.core_at(I, b), fr)), bound=b)
                for x in seq.tail:
                    tot = tot + I.to_num(tf(I, x, fr))
            fr.vars[v] = olds[v] + tot
        for n_ in [n.id for n in ast.walk(node.target) if isinstance(n, ast.Name)]:
            fr.vars.pop(n_, None)

    return handler
