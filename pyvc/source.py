"""Loading the real source: every function under contract is read from /repo at check time and parsed with `ast`.
Nothing here copies repository code into /verif; evidence records file, line span and sha256 of each verified segment."""
import ast
import hashlib
import os

REPO = os.environ.get("PHYCLONE_REPO", "/repo")

# decorators and how they are treated (anything else is an engine error: "cannot decide")
IDENTITY_DECORATORS = {"numba.jit", "numba.vectorize", "numba.experimental.jitclass", "wraps"}
INTERPRETED_DECORATORS = {"staticmethod", "classmethod", "property"}
CACHE_DECORATORS = {"lru_cache", "list_of_np_cache", "two_np_arr_cache"}


class Unsupported(Exception):
    """The engine cannot process this source: exit 3, never a pass and never a violation."""


class FuncInfo:
    def __init__(self, module, qualname, node, cls=None):
        self.module = module
        self.qualname = qualname  # e.g. phyclone.smc.kernels.base.Kernel.create_particle
        self.node = node
        self.cls = cls
        self.kind = "function"
        self.decorators = []
        self.prop_role = None  # 'getter' | 'setter' for properties
        self.cache = None
        for d in node.decorator_list:
            name = _dotted(d.func if isinstance(d, ast.Call) else d)
            self.decorators.append(name)
            base = name.split(".")[-1]
            if name in IDENTITY_DECORATORS or base == "jit" or base == "vectorize" or base == "jitclass":
                continue
            if base == "staticmethod":
                self.kind = "staticmethod"
            elif base == "classmethod":
                self.kind = "classmethod"
            elif base == "property" or base == "getter":
                self.prop_role = "getter"
            elif base == "setter":
                self.prop_role = "setter"
            elif base in CACHE_DECORATORS:
                self.cache = base
            elif base == "dataclass":
                pass
            else:
                raise Unsupported("decorator %s on %s" % (name, qualname))

    @property
    def name(self):
        return self.node.name

    def segment(self):
        src = self.module.source
        return ast.get_source_segment(src, self.node)

    def sha256(self):
        return hashlib.sha256(self.segment().encode()).hexdigest()

    def lines(self):
        return [self.node.lineno, self.node.end_lineno]


class ClassInfo:
    def __init__(self, module, node):
        self.module = module
        self.node = node
        self.name = node.name
        self.qualname = module.name + "." + node.name
        self.methods = {}
        self.getters = {}
        self.setters = {}
        self.class_attrs = {}
        self.base_names = [_dotted(b) for b in node.bases]
        for st in node.body:
            if isinstance(st, ast.FunctionDef):
                fi = FuncInfo(module, self.qualname + "." + st.name, st, cls=self)
                if fi.prop_role == "getter":
                    self.getters[st.name] = fi
                elif fi.prop_role == "setter":
                    self.setters[st.name] = fi
                else:
                    self.methods[st.name] = fi
            elif isinstance(st, ast.Assign) and len(st.targets) == 1 and isinstance(st.targets[0], ast.Name):
                try:
                    self.class_attrs[st.targets[0].id] = ast.literal_eval(st.value)
                except Exception:
                    pass

    def bases(self):
        out = []
        for b in self.base_names:
            r = self.module.resolve(b.split(".")[-1]) if b not in ("object",) else None
            if isinstance(r, ClassInfo):
                out.append(r)
        return out

    def mro(self):
        out = [self]
        for b in self.bases():
            for c in b.mro():
                if c not in out:
                    out.append(c)
        return out

    def find(self, table, name):
        for c in self.mro():
            t = getattr(c, table)
            if name in t:
                return t[name]
        return None

    def is_subclass_of(self, other_name):
        return any(c.name == other_name or c.qualname == other_name for c in self.mro())


class ExternalRef:
    """A name that resolves outside the repository (numpy, scipy, rustworkx, stdlib)."""

    def __init__(self, dotted):
        self.dotted = dotted

    def __repr__(self):
        return "<ext %s>" % self.dotted


class ModuleInfo:
    def __init__(self, repo, name, path):
        self.repo = repo
        self.name = name
        self.path = path
        with open(path) as fh:
            self.source = fh.read()
        self.tree = ast.parse(self.source)
        self.functions = {}
        self.classes = {}
        self.imports = {}  # local name -> ('module', dotted) | ('from', module, name)
        self.constants = {}
        self.const_exprs = {}
        pkg = name if path.endswith("__init__.py") else name.rsplit(".", 1)[0]
        for st in self.tree.body:
            if isinstance(st, ast.FunctionDef):
                self.functions[st.name] = FuncInfo(self, name + "." + st.name, st)
            elif isinstance(st, ast.ClassDef):
                self.classes[st.name] = ClassInfo(self, st)
            elif isinstance(st, ast.Import):
                for a in st.names:
                    self.imports[a.asname or a.name.split(".")[0]] = ("module", a.name if a.asname else a.name.split(".")[0])
            elif isinstance(st, ast.ImportFrom):
                mod = st.module or ""
                if st.level:
                    base = pkg.split(".")
                    base = base[: len(base) - (st.level - 1)]
                    mod = ".".join(base + ([mod] if mod else []))
                for a in st.names:
                    self.imports[a.asname or a.name] = ("from", mod, a.name)
            elif isinstance(st, ast.Assign) and len(st.targets) == 1 and isinstance(st.targets[0], ast.Name):
                try:
                    self.constants[st.targets[0].id] = ast.literal_eval(st.value)
                except Exception:
                    # a module-level display over names (e.g. {"mutation_id": str}): kept as an expression, evaluated by the interpreter on use
                    if isinstance(st.value, (ast.Dict, ast.Tuple, ast.List, ast.Set)):
                        self.const_exprs[st.targets[0].id] = st.value

    def resolve(self, name, _seen=None):
        if name in self.functions:
            return self.functions[name]
        if name in self.classes:
            return self.classes[name]
        if name in self.constants:
            return ("const", self.constants[name])
        if name in self.imports:
            imp = self.imports[name]
            if imp[0] == "module":
                m = self.repo.module(imp[1])
                return m if m is not None else ExternalRef(imp[1])
            _, mod, nm = imp
            m = self.repo.module(mod)
            if m is None:
                return ExternalRef(mod + "." + nm)
            if nm == "*":
                return None
            _seen = _seen or set()
            if (m.name, nm) in _seen:
                return None
            _seen.add((m.name, nm))
            r = m.resolve(nm, _seen)
            if r is None:
                sub = self.repo.module(mod + "." + nm)
                if sub is not None:
                    return sub
                # star re-exports
                for k, v in m.imports.items():
                    pass
                for st in m.tree.body:
                    if isinstance(st, ast.ImportFrom) and any(a.name == "*" for a in st.names):
                        smod = st.module or ""
                        if st.level:
                            base = (m.name if m.path.endswith("__init__.py") else m.name.rsplit(".", 1)[0]).split(".")
                            base = base[: len(base) - (st.level - 1)]
                            smod = ".".join(base + ([smod] if smod else []))
                        sm = self.repo.module(smod)
                        if sm is not None:
                            r = sm.resolve(nm, _seen)
                            if r is not None:
                                return r
            return r
        return None


class Repo:
    def __init__(self, root=None):
        self.root = root or REPO
        self._modules = {}

    def module(self, name):
        if name in self._modules:
            return self._modules[name]
        if not name.startswith("phyclone"):
            return None
        base = os.path.join(self.root, *name.split("."))
        path = None
        if os.path.isfile(base + ".py"):
            path = base + ".py"
        elif os.path.isfile(os.path.join(base, "__init__.py")):
            path = os.path.join(base, "__init__.py")
        if path is None:
            self._modules[name] = None
            return None
        m = ModuleInfo(self, name, path)
        self._modules[name] = m
        return m

    def lookup(self, qualname):
        """phyclone.a.b.func or phyclone.a.b.Class.method (also Class.prop:getter / :setter)."""
        role = None
        if ":" in qualname:
            qualname, role = qualname.split(":")
        parts = qualname.split(".")
        for cut in range(len(parts) - 1, 0, -1):
            m = self.module(".".join(parts[:cut]))
            if m is None:
                continue
            rest = parts[cut:]
            if len(rest) == 1:
                if rest[0] in m.functions:
                    return m.functions[rest[0]]
                if rest[0] in m.classes:
                    return m.classes[rest[0]]
            elif len(rest) == 2 and rest[0] in m.classes:
                c = m.classes[rest[0]]
                if role == "setter":
                    return c.setters.get(rest[1])
                if role == "getter":
                    return c.getters.get(rest[1])
                return c.methods.get(rest[1]) or c.getters.get(rest[1])
        return None


def _dotted(node):
    if isinstance(node, ast.Name):
        return node.id
    if isinstance(node, ast.Attribute):
        return _dotted(node.value) + "." + node.attr
    if isinstance(node, ast.Call):
        return _dotted(node.func)
    return "?"
