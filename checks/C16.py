"""C16 - consensus tree contains exactly the clades with majority support."""


def run(ctx):
    ctx.level = "other"
    ctx.extra["explanation"] = ("No deductive obligation yet (set-of-sets reasoning over networkx graphs). Bounded stand-in: the real consensus command on families of trees over "
                                "3-4 data points (and the six-point family of finding F10), both weightings, thresholds {0.5,0.6,0.75,1}; result clades must equal the clades "
                                "whose independently computed support strictly exceeds the threshold; uncovered points must carry clone id -1; at support == threshold the command "
                                "must still complete.")
    ctx.trust("M-LAMINAR: clades with support > 1/2 are pairwise nested or disjoint (pen and paper)")
    from bounded import commands as BC

    r = BC.run_c16(ctx.tier, ctx.seed)
    ctx.add_bounded("real consensus command vs independently computed majority clades", "families of 1-5 trees over 3-4 points + the 6-point F10 family, 2 weightings x 4 thresholds", r["cases"], r["cases"], not r["problems"])
    for p in r["problems"][:5]:
        ctx.fail("C16.bounded.consensus[%s]" % p[:90], p, {"problem": p}, True)
    ctx.samples.append({"bounded_cases": r["cases"]})
