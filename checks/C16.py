"""C16 - consensus tree contains exactly the clades with majority support."""


def run(ctx):
    ctx.level = "other"
    from contracts import c16_consensus as K
    from pyvc.source import Repo

    K.verify_all(ctx, Repo(), "C16")
    if ctx.tier == "thorough":
        from vcheck import lean as L

        L.check_file(ctx, "MLaminar.lean", "C16")
    ctx.extra["explanation"] = ("Deductive (any number of trees, clades, any threshold): clade_probabilities gives an arbitrary clade the support sum_i w_i [c in clades(tree_i)] "
                                "(divided by the number of trees in counts mode); key_above_threshold keeps exactly the keys whose value strictly exceeds the threshold; "
                                "find_smallest_superset returns a smallest strict superset among the candidates or None when there is none, and cannot raise when the supersets of the query form a chain; "
                                "consensus adds every retained clade exactly once as a node (child of its smallest superset) and nothing else; get_consensus_tree chains the stages with the caller's threshold. "
                                "Lean (thorough tier): two clade supports above 1/2 share a tree (counts and weights), nested-or-disjoint supersets of a common non-empty clade have different sizes. "
                                "get_clades / _clades: clade(node) = own data indices U clades of the children, one frozen clade per clone; get_tree_from_consensus_graph labels uncovered points as outliers. relabel / clean_tree / from_dict_nx and the table are not under contract. Bounded stand-in: the real consensus command on families of trees over "
                                "3-4 data points (and the six-point family of finding F10), both weightings, thresholds {0.5,0.6,0.75,1}; result clades must equal the clades "
                                "whose independently computed support strictly exceeds the threshold; uncovered points must carry clone id -1; at support == threshold the command "
                                "must still complete.")
    ctx.trust("M-LAMINAR: the clades of ONE tree are pairwise nested or disjoint and non-empty (tree structure: every data point is held by exactly one clone and clade(node) = own indices U clades of the children, which is the contract of get_clades / _clades); the counting half is Lean-checked in the thorough tier (MLaminar.lean)")
    ctx.trust("networkx DiGraph; relabel, clean_tree and from_dict_nx are outside the contracts (bounded stand-in only)")
    from bounded import commands as BC

    r = BC.run_c16(ctx.tier, ctx.seed)
    ctx.add_bounded("real consensus command vs independently computed majority clades", "families of 1-5 trees over 3-4 points + the 6-point F10 family, 2 weightings x 4 thresholds", r["cases"], r["cases"], not r["problems"])
    for p in r["problems"][:5]:
        ctx.fail("C16.bounded.consensus[%s]" % p[:90], p, {"problem": p}, True)
    ctx.samples.append({"bounded_cases": r["cases"]})
