"""C12 - result tables list every mutation once per sample, consistent with the tree."""


def run(ctx):
    ctx.level = "other"
    from contracts import c12_tables as K
    from pyvc.source import Repo

    K.verify_all(ctx, Repo(), "C12")
    from contracts import c12_newick as NW

    NW.verify_all(ctx, Repo(), "C12")
    from contracts import c11_pandas as PD

    PD.verify_c12(ctx, Repo(), "C12")
    ctx.trust("pandas (DataFrame, sort_values, explode, groupby, concat, to_csv) and the clustered branch of get_labels_table / get_clone_table are outside the contracts (bounded stand-in only)")
    ctx.assume("A-NAMES: data point names are unique and data[i].idx == i (established by the loader, C17)")
    ctx.extra["explanation"] = ("Deductive (any number of data points, any labelling): the unclustered branch of get_labels_table hands pandas one record (name, clone) per labelled point and one "
                                "(name, outlier node) record per input point whose name is not among the labelled ones, nothing else, sorted by clone and mutation. The Newick writer: every tree edge records the child's parent, every finished vertex produces name or (children)name and hands it to its parent exactly once, the root's string + ';' is returned. The rest of the tables is produced by pandas pipelines (explode / groupby / concat) whose semantics are outside the engine. "
                                "Bounded stand-in: the three real commands on traces holding every tree over <= 3 data points (including all-outlier trees), clustered and "
                                "unclustered, 1-2 samples; every output table and Newick tree is parsed back and checked against the property clause by clause.")
    from bounded import commands as BC

    r = BC.run_c12_all_trees(ctx.tier, ctx.seed)
    ctx.add_bounded("map / consensus / topology-archive outputs on every tree over <= 3 data points", "clustered (integer cluster ids) and unclustered, 1-2 samples, all outlier sets", r["cases"], r["cases"], not r["problems"])
    for p in r["problems"][:5]:
        ctx.fail("C12.bounded.tables[%s]" % p[:90], p, {"problem": p}, True)
    r2 = BC.run_c11_c12(ctx.tier, ctx.seed)
    ctx.add_bounded("tables and trees of MAP / archive on multi-chain traces (shared with C11)", "see C11", r2["cases"], r2["cases"], not [p for p in r2["problems"] if "table" in p or "archive" in p])
    for p in [p for p in r2["problems"] if "table" in p or "archive" in p][:5]:
        ctx.fail("C12.bounded.tables[%s]" % p[:90], p, {"problem": p}, True)
    r3 = BC.run_c16(ctx.tier, ctx.seed)
    raised = [p for p in r3["problems"] if "raised" in p]
    ctx.add_bounded("the consensus command completes on every family of trees (shared with C16; includes supports equal to the threshold)", "see C16", r3["cases"], r3["cases"], not raised)
    for p in raised[:4]:
        ctx.fail("C12.bounded.completes[%s]" % p[:90], p, {"problem": p}, True)
    r4 = BC.run_c12_deep_trees(ctx.tier, ctx.seed)
    bad = [x for x in r4 if x["exception"] or x["problems"]]
    ctx.add_bounded("the commands complete on linear trees (every clone the only child of the previous one)", "300 and 1100 clones, one sample, CPython's default recursion limit; map, consensus (both weightings), topology report with archive",
                    len(r4), len(r4), not bad, "1100 clones: recorded finding K02")
    for x in bad:
        if x["exception"]:
            ctx.fail("C12.bounded.deep-tree|clones=%d|%s|%s" % (x["clones"], x["command"], x["exception"]),
                     "the %s command on a linear tree of %d clones raised %s: %s" % (x["command"], x["clones"], x["exception"], x.get("text", "")),
                     {"defect": 1.0, "clones": x["clones"], "command": x["command"], "exception": x["exception"],
                      "replay": "bounded.commands.run_c12_deep_trees(depths=(%d,))" % x["clones"]}, True)
        else:
            ctx.fail("C12.bounded.deep-tree-table|clones=%d|%s" % (x["clones"], x["command"]), "; ".join(x["problems"]), {"problems": x["problems"]}, True)
    ctx.samples.append({"bounded_cases": r["cases"] + r2["cases"] + r3["cases"] + len(r4)})
