"""C11 - trace summaries pick the true maximum and count topologies exactly."""
from pyvc import dsl
from pyvc.source import Repo


def deductive(ctx, repo, prop):
    from contracts import c11_trace as C

    fx = C.Effects()
    r = C.map_registry(fx, None)
    r.fx = fx
    dsl.verify(ctx, repo, r, prop, C.PT + ".write_map_results", C.h_map, expect_covers=["map.step", "map.after"])
    dsl.verify(ctx, repo, dsl.Registry(), prop, C.PT + ".count_topology", C.h_count_topology, expect_covers=C.COUNT_COVERS)
    calls = []
    r2 = C.topology_registry(calls)
    r2.calls = calls
    dsl.verify(ctx, repo, r2, prop, C.PT + ".create_topology_dict_from_trace", C.h_topology_dict, expect_covers=["topology-dict"])
    from contracts import c11_pandas as PD

    PD.verify_c11(ctx, repo, "C11")
    ctx.trust(*r.assumed)
    ctx.trust(*r2.assumed)


def run(ctx):
    repo = Repo()
    deductive(ctx, repo, "C11")
    ctx.trust("Tree.__eq__/__hash__ identify trees by clades and outliers (C03)", "pandas sort_values / iloc / DataFrame construction, the tar archive writer: axioms, exercised by the bounded stand-in only")
    ctx.assume("witness technique: the obligations are proved for an arbitrary fixed entry / tree identity, which gives the universally quantified statement")
    ctx.extra["explanation"] = ("Deductive: for any number of chains stored in any order and any entries (ties, -inf) write_map_results returns an entry attaining the maximum "
                                "(inductive invariant over both loops), count_topology keeps exact counts, maxima and pointers per tree identity and touches no other record, "
                                "create_topology_dict_from_trace counts every entry once under its own tree. Bounded: the real commands (MAP both modes, topology report, archive) "
                                "on crafted and random multi-chain traces, outputs parsed back.")
    from bounded import commands as BC

    r = BC.run_c11_c12(ctx.tier, ctx.seed)
    ctx.add_bounded("real MAP / topology-report / archive commands on synthetic multi-chain traces", "crafted + %d random scenarios: <=3 chains in completion order, ties, renumbered copies, score noise" % (14 if ctx.tier == "quick" else 48),
                    r["cases"], r["cases"], not r["problems"])
    for p in r["problems"][:5]:
        ctx.fail("C11.bounded.commands[%s]" % p[:90], p, {"problem": p}, True)
    ctx.samples.append({"bounded_cases": r["cases"]})
