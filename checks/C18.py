"""C18 - a seeded run is reproducible regardless of scheduling and hash seed."""
import os
import subprocess
import sys
import tempfile

from pyvc import dsl
from pyvc.source import Repo
from vcheck import core

SMOKE = r'''
import sys, pickle, gzip, hashlib, os, contextlib, io
sys.path.insert(0, "/verif")
import numpy as np
from replay import trees as T
from phyclone.run import run_phyclone_chain
out = {}
for proposal in ("semi-adapted", "bootstrap"):
    base = T.make_data(5, dims=2, grid=11, seed=3)
    from phyclone.data.base import DataPoint
    data = [DataPoint(dp.idx, dp.value, name="mut_%d" % dp.idx, outlier_prob=float(np.log(0.2)), outlier_prob_not=float(np.log(0.8))) for dp in base]
    with contextlib.redirect_stdout(io.StringIO()):
        res = run_phyclone_chain(2, True, 1.0, data, float("inf"), 25, 4, 1, 1, 0.2, 100, proposal, 0.5, np.random.default_rng(77), ["a", "b"], 1, 0, 0.5)
    sig = [(e["iter"], round(e["alpha"], 12), round(e["log_p_one"], 9), sorted((str(k), sorted(dp.idx for dp in v)) for k, v in e["tree"]["node_data"].items()), sorted(map(tuple, e["tree"]["graph"]))) for e in res["trace"]]
    out[proposal] = hashlib.sha1(repr(sig).encode()).hexdigest()
print(out)
'''


LARGE = r'''
import sys, hashlib, json, io, contextlib
sys.path.insert(0, "/verif")
import numpy as np
from replay import trees as T
from phyclone.run import run_phyclone_chain
from phyclone.tree import Tree
data = T.make_data(14, dims=2, grid=21, seed=5)
for dp in data:
    dp.value[:] = dp.value * 40.0   # sharply peaked grids: the sampler keeps 12-14 clones, enough for colliding node indices in library sets
with contextlib.redirect_stdout(io.StringIO()):
    res = run_phyclone_chain(2, True, 1.0, data, float("inf"), ITERS, 8, 1, 1, 0.0, 100000, "semi-adapted", 0.5, np.random.default_rng(7), ["a", "b"], 1, 0, 0.3)
sig = []
for e in res["trace"]:
    t = Tree.from_dict(e["tree"])
    sig.append((e["iter"], repr(float(e["alpha"])), repr(float(e["log_p_one"])), sorted(sorted(c) for c in t.get_clades())))
print(hashlib.sha1(json.dumps(sig).encode()).hexdigest())
'''


HIST_DATA = "mutation_id\tsample_id\tref_counts\talt_counts\tmajor_cn\tminor_cn\tnormal_cn\n" + "".join(
    "%s\tS%d\t%d\t%d\t1\t1\t2\n" % (m, k, r, a) for m, rows in (("A0", ((152, 148), (155, 145), (140, 160))), ("B0", ((208, 92), (279, 21), (260, 40))), ("C0", ((248, 52), (159, 141), (229, 71))),
                                                             ("D0", ((256, 44), (291, 9), (286, 14))), ("E0", ((277, 23), (292, 8), (271, 29)))) for k, (r, a) in enumerate(rows))

HIST = r'''
import sys, hashlib, json, io, os, contextlib, gzip, pickle
from phyclone.run import run
from phyclone.tree import Tree
in_file, out_file = sys.argv[1], sys.argv[2]
fd = os.open(os.devnull, os.O_WRONLY); os.dup2(fd, 1)
for seed in PRE + (7,):
    run(in_file=in_file, out_file=out_file, num_iters=ITERS, burnin=1, seed=seed, num_chains=1, num_particles=10, print_freq=10**9, precision=400)
with gzip.GzipFile(out_file, "rb") as fh:
    res = pickle.load(fh)
sig = [(e["iter"], float(e["alpha"]).hex(), float(e["log_p_one"]).hex(), sorted(sorted(c) for c in Tree.from_dict(e["tree"]).get_clades())) for e in res[0]["trace"]]
sys.stderr.write("SIG " + hashlib.sha1(json.dumps(sig).encode()).hexdigest() + "\n")
'''


def history(iters):
    """the same seeded run (input file of finding F15: 5 mutations x 3 samples) in a fresh process and in processes that ran other seeds before it - what a
    pool worker that is handed several chains does: bit-identical traces demanded"""
    tmp = tempfile.mkdtemp(prefix="verif_c18_")
    outs = []
    try:
        inp = os.path.join(tmp, "in.tsv")
        open(inp, "w").write(HIST_DATA)
        procs = []
        for k, pre in enumerate(((), (2,), (1, 3))):
            procs.append(subprocess.Popen([sys.executable, "-c", HIST.replace("ITERS", str(iters)).replace("PRE", repr(pre)), inp, os.path.join(tmp, "out%d.pkl.gz" % k)],
                                          stdout=subprocess.DEVNULL, stderr=subprocess.PIPE, text=True))
        for p_ in procs:
            _, e = p_.communicate(timeout=1500)
            sig = [l for l in e.splitlines() if l.startswith("SIG ")]
            outs.append(sig[-1][4:] if sig else "ERROR: " + e[-300:])
    finally:
        import shutil

        shutil.rmtree(tmp, ignore_errors=True)
    return outs


def many_clones(n_proc, iters):
    """the same seeded chain with 12-14 clones in n_proc fresh processes: rustworkx's per-process hash state differs between them (finding F13)"""
    procs = [subprocess.Popen([sys.executable, "-c", LARGE.replace("ITERS", str(iters))], stdout=subprocess.PIPE, stderr=subprocess.PIPE, text=True) for _ in range(n_proc)]
    outs = []
    for p_ in procs:
        o, e = p_.communicate(timeout=1500)
        outs.append(o.strip().splitlines()[-1] if o.strip() else "ERROR: " + e[-300:])
    return outs


def smoke(hash_seeds):
    outs = []
    for hs in hash_seeds:
        env = dict(os.environ, PYTHONHASHSEED=str(hs))
        r = subprocess.run([sys.executable, "-c", SMOKE], env=env, capture_output=True, text=True, timeout=600)
        outs.append((hs, r.stdout.strip().splitlines()[-1] if r.stdout.strip() else "ERROR: " + r.stderr[-300:]))
    return outs


def run(ctx):
    repo = Repo()
    from contracts import c18_determinism as C

    lg = []
    r = C.run_registry(lg)
    r.log = lg
    dsl.verify(ctx, repo, r, "C18", C.RUN, C.h_run, expect_covers=["multi-chain", "single-chain"])
    dsl.verify(ctx, repo, dsl.Registry(), "C18", "phyclone.run.run_phyclone_chain", C.h_chain_isolation, expect_covers=["chain-isolation"])
    dsl.verify(ctx, repo, dsl.Registry(), "C18", "phyclone.run.instantiate_and_seed_RNG", C.h_seed_rng, expect_covers=["seed-given", "seed-none"])
    ctx.trust(*r.assumed)
    files = C.run_path_files(core.REPO)
    if len(files) < 20:
        ctx.engine_error("C18: only %d source files found on the run path" % len(files))
    for rel in files:
        for name, ok, detail in C.scan_file(core.REPO, rel):
            full = "C18." + name
            ctx.add_obligation(full, core.DISCHARGED if ok else core.REFUTED, "ast", 0.0, detail)
            if not ok:
                ctx.fail(full, detail, {"file": rel}, found_input=False)
    ctx.trust("UNCHECKED (no contract can decide them): interpreter behaviour under different PYTHONHASHSEED, OS scheduling of the worker processes, process spawning, BLAS "
              "threading, determinism of numpy / scipy / rustworkx given equal inputs (incl. successor order of rustworkx graphs)",
              "A-INTHASH: iteration order of a set of ints depends on its insertion history only (frozenset(children) in the semi-adapted kernel holds ints)",
              "the `time` field of trace entries and the max_time break are outside the claim (reproducibility is claimed for max_time = inf)")
    ctx.assume("structural obligations (back end 'ast') are syntactic: a random source reached through an alias the scan does not know would escape them")
    ctx.extra["explanation"] = ("Deductive: for every completion order of the worker futures results[c] is the result of chain c run with spawn(num_chains)[c] (symbolic execution of the real "
                                "run.run). Structural: on every module of the run path there is no numpy global RNG / stdlib random / clock read, every scipy rvs passes random_state, "
                                "the only unseeded generator is the documented seed=None branch, and no loop iterates a hash-ordered collection. Smoke check (not assurance): the same "
                                "seeded chain under several PYTHONHASHSEED values.")
    seeds = (1, 2) if ctx.tier == "quick" else (1, 2, 3, 4, 5)
    outs = smoke(seeds)
    same = len({o for _, o in outs}) == 1 and not outs[0][1].startswith("ERROR")
    ctx.add_bounded("smoke check: one seeded chain (string mutation ids, outliers, subtree updates) under different PYTHONHASHSEED values", "hash seeds %s, 25 iterations, 2 proposals - a test, not assurance" % (seeds,),
                    len(outs), len(outs), same)
    if not same:
        ctx.fail("C18.smoke.hash-seed", "traces differ across PYTHONHASHSEED values: %s" % outs, {"outputs": outs}, True)
    ctx.samples.append({"smoke": outs[0][1][:120]})
    hist = history(100 if ctx.tier == "quick" else 300)
    same_h = len(set(hist)) == 1 and not hist[0].startswith("ERROR")
    ctx.add_bounded("one seeded chain in a fresh process and after other chains in the same process (as in a pool worker that runs several chains)", "3 processes, 6 data points x 3 samples - a test, not assurance", len(hist), len(hist), same_h)
    if not same_h:
        ctx.fail("C18.smoke.process-history", "the trace of a seeded chain depends on what its process computed before: %s" % hist, {"outputs": hist}, True)
    n_proc, iters = (6, 40) if ctx.tier == "quick" else (12, 80)
    big = many_clones(n_proc, iters)
    same_big = len(set(big)) == 1 and not big[0].startswith("ERROR")
    ctx.add_bounded("one seeded chain with 12-14 clones (prune-regraft and subtree moves on) in several fresh processes", "%d processes, %d iterations, 14 data points - a test, not assurance" % (n_proc, iters),
                    len(big), len(big), same_big)
    if not same_big:
        ctx.fail("C18.smoke.process-state", "the same seeded chain gives different traces in different processes: %s" % sorted(set(big)), {"outputs": big}, True)
