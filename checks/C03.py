"""C03 - joint log-density implements the FS-CRP model and depends only on the tree."""
from pyvc import dsl
from pyvc.source import Repo


def _concretise(name, model):
    from bounded import joint as BJ

    r = BJ.run("quick", 0)
    if r["problems"]:
        return {"reproduced": True, "problems": r["problems"][:5]}
    return {"reproduced": False, "note": "real densities agree with the independent reference on all trees over <= 3 points"}


def run(ctx):
    repo = Repo()
    from contracts import c03_joint as C

    dsl.verify(ctx, repo, dsl.Registry(), "C03", [C.FS + ".log_p", C.FS + ".log_p_one", C.FS + ".compute_both_log_p_and_log_p_one_priors"], C.h_prior,
               expect_covers=C.PRIOR_COVERS, concretise=_concretise)
    dsl.verify(ctx, repo, C.oprior_registry(), "C03", C.TJ + ".outlier_prior", C.h_outlier_prior,
               expect_covers=["outlier-key", "no-outlier-key", "outlier_prior.inner.step", "outlier_prior.outer.step"], concretise=_concretise)
    dsl.verify(ctx, repo, C.joint_registry(), "C03", [C.TJ + ".log_p", C.TJ + ".log_p_one", C.TJ + ".compute_both_log_p_and_log_p_one"], C.h_joint,
               expect_covers=C.JOINT_COVERS, concretise=_concretise)
    dsl.verify(ctx, repo, dsl.Registry(), "C03", "phyclone.data.pyclone.compute_outlier_prob", C.h_compute_outlier_prob, expect_covers=["p=0", "p>0"])
    from contracts import c03_clades as CL

    CL.verify_all(ctx, repo, "C03")
    rdp = dsl.Registry()
    rdp.generic_loops.add("phyclone.tree.utils._sub_compute_S")
    dsl.verify(ctx, repo, rdp, "C03", ["phyclone.data.base.DataPoint.__init__", "phyclone.tree.utils._sub_compute_S"], C.h_datapoint_init, expect_covers=["datapoint.named", "datapoint.unnamed"])
    ctx.trust("scipy.special.logsumexp(x, axis=1)[d] = log sum_k exp x[d, k] (library)")
    ctx.trust(*C.joint_registry().assumed)
    ctx.trust(*C.oprior_registry().assumed)
    ctx.trust("A-POW: c^-R := exp(-R log c); M-GEOM: sum_{i<R} c^-i = (1 - c^-R)/(1 - c^-1) (the normalised 1/1000-per-additional-top-level-clone penalty)",
              "Tree.__eq__/__hash__/get_clades, DataPoint.outlier_marginal_prob and the label-invariance of the Tree observers: bounded stand-in only")
    ctx.assume("A-REAL; lgamma/log/exp uninterpreted with term-directed axiom instances",
               "boundary excluded by decision (DESIGN 7.11): outlier probability exactly 1 makes size*log p == 0, the same value as the 'outlier modelling off' sentinel")
    ctx.extra["explanation"] = ("Deductive: both prior forms, the outlier prior (nested loops by inductive loop contracts), both joint forms and their fused computation "
                                "equal the FS-CRP formulas for any K, R, D, G, outliers. Bounded: independent reference implementation on all trees over <=3 (4) points, "
                                "five construction histories each, equality/hash.")
    if ctx.tier == "thorough":
        from vcheck import lean as L

        for f_ in ("MGeom.lean",):
            L.check_file(ctx, f_, "C03")
    from bounded import joint as BJ

    r = BJ.run(ctx.tier, ctx.seed)
    ctx.add_bounded("independent FS-CRP reference + construction histories + eq/hash", "all trees on <= %d data points, D in {1,2}, G=4, alpha in {0.6, 2.5}, outliers on/off" % (3 if ctx.tier == "quick" else 4),
                    r["cases"], r["trees"], not r["problems"])
    for p in r["problems"][:5]:
        ctx.fail("C03.bounded.reference[%s]" % p[:80], p, {"problem": p}, True)
    ctx.samples.append({"bounded": "trees=%d cases=%d" % (r["trees"], r["cases"])})
