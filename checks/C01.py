"""C01 - particle-Gibbs tree update leaves the clone-tree posterior invariant."""
from pyvc import dsl
from pyvc.source import Repo

from checks import common


def run(ctx):
    repo = Repo()
    from contracts import c01_pg as G
    from contracts import c08_bootstrap as B

    # ---- deductive part (L1-L8 local conditions of particle Gibbs)
    common.smc_contracts(ctx, repo, "C01")
    dsl.verify(ctx, repo, G.base_registry(), "C01.wiring", [G.SETUP_KERNEL, G.SETUP_SAMPLERS], G.h_wiring, expect_covers=G.WIRING_COVERS)
    log = []
    r = G.pg_registry(log)
    r.log = log
    dsl.verify(ctx, repo, r, "C01.pg.sample_swarm", G.PG + ".sample_swarm", G.h_sample_swarm, expect_covers=["sample_swarm"])
    dsl.verify(ctx, repo, G.base_registry(), "C01.pg.select", G.PG + "._sample_tree_from_swarm", G.h_select, expect_covers=["selected"])
    tr = []
    r = G.sample_registry(tr)
    r.trace = tr
    dsl.verify(ctx, repo, r, "C01.smc.sample", G.SAMPLE, G.h_sample_schedule,
               expect_covers=["conditional", "unconditional", "after-loop", "sample.loop.body", "sample.loop.exit"])
    ctx.trust(*r.assumed)
    from contracts import c01_std as STD

    dsl.verify(ctx, repo, STD.std_registry(), "C01.pg", STD.PG + ".sample_tree", STD.h_pg_sample_tree, expect_covers=["pg.sample_tree"])
    # L2: one arbitrary step of the retained path
    dsl.verify(ctx, repo, G.base_registry(), "C01.csmc.constrained_path", G.CSMC + "._get_constrained_path", G.h_constrained_path, expect_covers=G.PATH_COVERS)
    # L4: proposals faithful (imported from C08)
    dsl.verify(ctx, repo, B.registry(), "C01.L4.boot", [B.SAMPLE, B.LOGP], B.harness, expect_covers=B.COVERS, concretise=B.concretise)
    common.adapted_contracts(ctx, repo, "C01.L4")
    ctx.trust(*B.registry().assumed)
    # the target: the weights use the fused joint computation, the trace records the stand-alone log_p_one - both must be the same function of the tree
    from contracts import c03_joint as J

    prev = getattr(ctx, "vc_filter", None)
    ctx.vc_filter = lambda name, kind: "joint." in name
    try:
        dsl.verify(ctx, repo, J.joint_registry(), "C01.target", [J.TJ + ".log_p", J.TJ + ".log_p_one", J.TJ + ".compute_both_log_p_and_log_p_one"], J.h_joint,
                   expect_covers=J.JOINT_COVERS)
    finally:
        ctx.vc_filter = prev
    ctx.trust("M-PG (Andrieu, Doucet, Holenstein 2010, Thm 5 with an auxiliary permutation variable): the local conditions L1-L8 imply invariance "
              "of the conditional SMC update; a theorem about Markov kernels, trusted, cross-checked by the exact-kernel oracle (bounded)",
              "L2: every step of _get_constrained_path is under contract (placement as in the conditioned tree, proposal / density / particle of the previous state); that the "
              "tree after the last step is the conditioned tree up to clone names (the function's own rustworkx isomorphism assert) is modelled as true and exercised by the bounded oracle")
    ctx.assume("A-REAL: floats as reals", "the density of the permutation distribution is C09's obligation; proposals' candidate sets are C08's")
    ctx.extra["explanation"] = ("Deductive: local conditions L1-L8 of particle Gibbs as obligations on the real source for all N, T, thresholds, parent states. "
                                "Bounded stand-in: exact transition matrix of the real ParticleGibbsTreeSampler.sample_tree over all trees on n<=3 points, N=2.")

    if ctx.tier == "thorough":
        from vcheck import lean as L

        for f_ in ("MGibbs.lean", "MTelescope.lean"):
            L.check_file(ctx, f_, "C01")
    # ---- bounded stand-in: exact-kernel oracle
    from bounded import kernels as BK

    cfgs = BK.pg_configs(ctx.tier, ctx.seed)
    res = common.run_parallel(BK.pg_task, cfgs)
    res += common.run_parallel(BK.pg_alpha_task, [(2, 0.0, p, ctx.seed) for p in ("bootstrap", "semi-adapted", "fully-adapted")] + [(2, 0.2, "semi-adapted", ctx.seed)])
    ok = all(r_["ok"] for r_ in res)
    ctx.add_bounded("exact-kernel oracle (particle Gibbs)", "all trees on n<=3 data points, N=2 particles, 3 proposals x {run, library} wiring x outliers on/off x thresholds {0.5,1}",
                    sum(r_["n_paths"] for r_ in res), sum(r_["n_states"] for r_ in res), ok,
                    note="max |piP-pi| = %.2e" % max([r_["defect"] or 0 for r_ in res]))
    for r_ in res:
        if not r_["ok"]:
            ctx.fail("C01.exact-kernel.%s" % r_["move"], "particle-Gibbs update not invariant: |piP-pi|=%s at %s %s" % (r_.get("defect"), r_.get("worst_state"), r_.get("error", "")),
                     r_, found_input=True)
    ctx.samples.append({"oracle_case": res[0]["move"], "states": res[0]["n_states"], "paths": res[0]["n_paths"], "defect": res[0]["defect"]})
