"""C14 - memoised recursion and proposal results equal unmemoised computation."""
from pyvc import dsl
from pyvc.source import Repo


def run(ctx):
    repo = Repo()
    from contracts import c14_memo as C

    dsl.verify(ctx, repo, C.registry(), "C14", C.UT + ".list_of_np_cache", C.h_list_cache, expect_covers=C.LIST_COVERS)
    dsl.verify(ctx, repo, C.registry(), "C14", C.UT + ".two_np_arr_cache", C.h_pair_cache, expect_covers=C.PAIR_COVERS, concretise=C.replay_pair_cache)
    dsl.verify(ctx, repo, C.new_tree_registry(), "C14", C.SA + ".get_cached_new_tree", C.h_new_tree, expect_covers=["alpha-changed", "alpha-same"])
    dsl.verify(ctx, repo, C.new_tree_registry(), "C14.semi", [C.SA + ".SemiAdaptedKernel.get_proposal_distribution", C.SA + "._get_cached_semi_proposal_dist"], C.h_proposal_cache,
               expect_covers=["proposal-cache"])
    dsl.verify(ctx, repo, C.new_tree_registry(), "C14.full", [C.FA + ".FullyAdaptedKernel.get_proposal_distribution", C.FA + "._get_cached_full_proposal_dist"], C.h_proposal_cache,
               expect_covers=["proposal-cache"])
    dsl.verify(ctx, repo, C.new_tree_registry(), "C14", "phyclone.utils.dev.clear_proposal_dist_caches", C.h_clear, expect_covers=["clear"])
    # frame obligation: arrays handed out by the convolution caches are never written (2-D array model of the C02 contracts)
    from contracts import c02_recursion as R

    dsl.verify(ctx, repo, R._generic(R.TU + "._sub_compute_S"), "C14.frame", R.TU + ".compute_log_S", R.h_compute_log_S, expect_covers=["S-empty", "S-nonempty"])
    dsl.verify(ctx, repo, R._generic(R.TU + "._sub_compute_S"), "C14.frame", R.TU + "._sub_compute_S", R.h_sub_compute_S, expect_covers=["prefix-sum"])
    dsl.verify(ctx, repo, dsl.Registry(), "C14.frame", R.TN + ".update_node_from_child_r_vals", R.h_update_node, expect_covers=["leaf", "inner"])
    dsl.verify(ctx, repo, dsl.Registry(), "C14.frame", [R.TU + "._np_conv_dims", R.MA + ".fft_convolve_two_children"], R.h_conv, expect_covers=["direct", "fft"])
    ctx.trust(*C.new_tree_registry().assumed)
    ctx.trust("frame obligation 'no function mutates an array it obtained from a cache': proved for compute_log_S / _sub_compute_S / update_node_from_child_r_vals / the two convolution "
              "functions (inputs untouched, result is a new object); compute_log_D returns a cache entry unchanged by construction",
              "the key components parent_particle / data_point / kernel of the proposal caches are compared by their own __eq__/__hash__ (Particle: stored tree dictionary; DataPoint: name; "
              "kernel: identity) - their adequacy is covered by the shadow run only", "floating-point non-associativity of reordered children (tolerance 1e-8 in the shadow run)")
    ctx.extra["explanation"] = ("Deductive: the REAL decorator code of list_of_np_cache / two_np_arr_cache and the hashers is executed symbolically over array digests (lru_cache by its contract): "
                                "hit exactly on equal multisets / unordered pairs, misses recompute from this call's arrays; get_cached_new_tree's key determines alpha (in-place change on the "
                                "same object misses), the proposal caches get the current alpha explicitly, clear_proposal_dist_caches empties exactly the three proposal caches. "
                                "Bounded: shadow runs comparing every memoised call with its undecorated original / an independent recomputation over call histories.")
    if ctx.tier == "thorough":
        from vcheck import lean as L

        for f_ in ("MGeom.lean",):
            L.check_file(ctx, f_, "C14")
    from bounded import memo as M

    n1, p1 = M.convolution_histories(ctx.seed)
    n2, p2 = M.sampler_histories(ctx.tier, ctx.seed)
    n3, p3 = M.new_tree_after_alpha_change(ctx.seed)
    ctx.add_bounded("shadow run: convolution caches over call histories (growing, permuted, duplicated children)", "4 histories x 2 grid shapes + 6 pairwise calls", n1, n1, not p1)
    ctx.add_bounded("shadow run: proposal caches during sampler sweeps with in-place concentration changes", "semi/fully adapted kernels x with/without cache clears x 4-7 alpha values, 5 data points with outliers", n2, n2, not p2)
    ctx.add_bounded("new-clone tree cache across alpha changes without clears", "4 alpha values x all children subsets of a 2-root parent", n3, n3, not p3)
    for p in (p1 + p2 + p3)[:6]:
        ctx.fail("C14.bounded.shadow[%s]" % p[:90], p, {"problem": p}, True)
