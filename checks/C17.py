"""C17 - input loading is order-independent and filters exactly as documented."""
from pyvc import dsl
from pyvc.source import Repo


def run(ctx):
    repo = Repo()
    from contracts import c05_emission as C

    dsl.verify(ctx, repo, dsl.Registry(), "C17", C.PYC + ".get_major_cn_prior", C.h_major_cn_prior, expect_covers=["major=1,accepted", "major=3,accepted", "major=1,rejected"])
    from contracts import c17_loader as LD

    LD.verify_all(ctx, repo, "C17")
    ctx.trust("pandas (read_table/read_csv, groupby-transform('size'), boolean filtering, unique, sort_values, set_index/at) and the CSV parser: the filtering and ordering rules "
              "are relational statements over pandas operations, outside the engine; covered by the bounded stand-in only",
              "M-PIGEON (Lean, lemmas/lean/MPigeon.lean): counts over S samples summing to S with no (>=2, 0) pair are all 1 - turns the code's row-count rule into the statement's rule")
    ctx.extra["explanation"] = ("Deductive: a major copy number below the minor one is rejected with MajorCopyNumberError and accepted otherwise; the pure-Python part of the loader for any number of mutations / samples / clusters: "
                                "rows are sorted by mutation id and grouped in that order, every (mutation, sample) pair is built from its own row, the i-th mutation becomes data point i with its own grid, name and singleton outlier probabilities, "
                                "clustered input sums the member grids per cluster in sorted cluster-id order with that cluster's stored prior and size. The row filters themselves are pandas (bounded). Bounded: the real loader on generated "
                                "tables (missing / duplicated / zero-copy-number mutations, optional columns, numeric and string sample ids, tab and comma) under row permutations, with "
                                "and without cluster files, against an independent expectation computed from the raw rows.")
    if ctx.tier == "thorough":
        from vcheck import lean as LN

        for f_ in ("MPigeon.lean",):
            LN.check_file(ctx, f_, "C17")
    from bounded import loader as L

    r = L.run(ctx.tier, ctx.seed)
    ctx.add_bounded("real load_data on generated tables under row permutations", "9 scenarios x 4-8 row orders x {tab, comma} x 2 densities + 3 cluster-file layouts each", r["cases"], r["cases"], not r["problems"])
    for p in r["problems"][:5]:
        ctx.fail("C17.bounded.loader[%s]" % p[:90], p, {"problem": p}, True)
    ctx.samples.append({"loader_cases": r["cases"]})
