"""C09 - data orders are drawn uniformly from those compatible with the tree."""
from pyvc import dsl
from pyvc.source import Repo


def _concretise(name, model):
    from bounded import orders as BO

    def geti(k, d):
        try:
            return max(0, min(3, int(model.get(k, d))))
        except Exception:
            return d

    cases = [(geti("R", 1), geti("n_out", 2)), (1, 2), (2, 2), (0, 2), (2, 0)]
    for R, n_out in cases:
        if R + n_out == 0:
            continue
        r = BO.replay_case(R, n_out, K=R + (1 if R else 0))
        if r["problems"]:
            return {"reproduced": True, "tree": r["tree"], "problems": r["problems"]}
    return {"reproduced": False, "note": "log_count agrees with brute force on the replayed trees"}


def run(ctx):
    repo = Repo()
    from contracts import c09_perm as C

    dsl.verify(ctx, repo, C.registry(), "C09", C.RPD + ".log_count", C.h_log_count, expect_covers=["top", "inner"], concretise=_concretise)
    dsl.verify(ctx, repo, C.registry(), "C09", C.RPD + ".log_pdf", C.h_log_pdf, expect_covers=["log_pdf"], concretise=_concretise)
    dsl.verify(ctx, repo, C.sample_registry(), "C09", C.RPD + ".sample", C.h_sample, expect_covers=["sample.top", "sample.inner"], concretise=_concretise)
    dsl.verify(ctx, repo, dsl.Registry(), "C09", "phyclone.smc.utils.interleave_lists", C.h_interleave, expect_covers=["interleave.ran"], concretise=_concretise)
    from contracts import c06_graph as G

    # log_count reads the sizes through Tree.get_subtree_data_len / get_data_len / get_descendants: their contracts are part of C09's chain
    G.verify_readers_for(ctx, repo, "C09", ("subtree-data-len", "read.get-data", "read.descendants"))
    ctx.trust(*C.registry().assumed)
    ctx.trust(*C.sample_registry().assumed)
    ctx.assume("A-REAL; lgamma uninterpreted (log n! = lgamma(n+1))")
    ctx.extra["explanation"] = ("Deductive: log_count/log_pdf equal the closed form for the number of compatible orders for any number of top-level clones, "
                                "children and outliers (loops summarised as big sums, recursion by its own contract). sample(): with a ghost log-density (shuffle = -log n!, "
                                "interleave = -log multinomial, recursive draws by induction) the draw is the interleaved child orders followed by the shuffled own data, outliers "
                                "interleaved anywhere, and its log-density equals -log_count for every tree shape; interleave_lists builds the sentinel word with len(lists[i]) copies "
                                "of i, shuffles it once and pops the fronts in word order. The two counting steps (M-RIFFLE, M-INJ) are trusted. Bounded: brute-force orders and exact "
                                "enumeration of sample() on every tree with <= 4 (thorough 5) data points.")
    from bounded import orders as BO

    res = BO.run_all(ctx.tier, ctx.seed)
    bad = [r for r in res if r["problems"]]
    und = [r for r in res if r.get("undecided")]
    if und:
        ctx.engine_error("C09 exact enumeration cannot drive the current sample(): %s" % und[0]["undecided"])
    ctx.add_bounded("orders brute force + exact enumeration of sample()", "every tree on <= %d data points (any outliers; <=2 outliers from 4 points)" % (4 if ctx.tier == "quick" else 5),
                    sum(r["paths"] for r in res), len(res), not bad)
    for r in bad[:6]:
        ctx.fail("C09.bounded.orders[%s]" % r["tree"], "; ".join(r["problems"]), r, True)
    stat = BO.large_interleave_stat(ctx.seed)
    ctx.add_bounded("large-size statistical smoke check (interleave of 16-30 items; NOT a proof, 6.5-sigma threshold)", "5 list shapes x 20000 draws + sample() on a 20-point tree x 5000 draws",
                    5 * 20000 + 5000, 6, not stat)
    for r in stat[:4]:
        ctx.fail("C09.stat.%s" % r["case"], r["problem"], r, True)
    ctx.samples.append({"tree": res[-1]["tree"], "orders": res[-1]["orders"], "sample_paths": res[-1]["paths"]})
