"""C08 - SMC proposals are normalised, faithfully sampled, complete, correctly weighted."""
from pyvc import dsl
from pyvc.source import Repo

from checks import common


def run(ctx):
    repo = Repo()
    from contracts import c01_smc as S
    from contracts import c08_bootstrap as B

    # ---- deductive part: real source, all parent states / all R, K, o
    dsl.verify(ctx, repo, B.registry(), "C08.boot", [B.SAMPLE, B.LOGP], B.harness, expect_covers=B.COVERS, concretise=B.concretise)
    dsl.verify(ctx, repo, S.base_registry(), "C08.kernel.create_particle", S.CREATE, S.h_create_particle, expect_covers=S.CREATE_COVERS)
    dsl.verify(ctx, repo, S.base_registry(), "C08.smc.get_log_w", S.GETLOGW, S.h_get_log_w, expect_covers=["last", "not-last"])
    common.adapted_contracts(ctx, repo, "C08")
    # the adapted proposals build their candidate trees through get_cached_new_tree: a hit must be a tree built under the CURRENT concentration value
    # (key adequacy is stated once, in the C14 contracts)
    from contracts import c14_memo as M14

    dsl.verify(ctx, repo, M14.new_tree_registry(), "C08.cache", M14.SA + ".get_cached_new_tree", M14.h_new_tree, expect_covers=["alpha-changed", "alpha-same"])
    ctx.extra["explanation"] = ("Deductive: real sample()/log_p() of the three proposals, Kernel.create_particle with the real Particle/TreeHolder code, "
                                "_get_log_w, log_normalize are symbolically executed from /repo's current source and every obligation is discharged by z3 for all "
                                "parent states (any R, K, o). Bounded stand-in (not proof): exact enumeration of the proposals on small parents.")
    ctx.trust(*B.registry().assumed)
    ctx.trust(*S.base_registry().assumed)
    ctx.assume("A-REAL: machine floats treated as mathematical reals; log/lgamma uninterpreted with term-directed axiom instances",
               "telescoping of weights along a path follows from the per-step obligation L3 (sum of differences): lemmas/lean/MTelescope.lean (telescope, path_weight), thorough tier",
               "normalisation of the bootstrap proposal follows from faithfulness + class injectivity + the generator axioms (each primitive is a probability distribution)")

    if ctx.tier == "thorough":
        from vcheck import lean as L

        L.check_file(ctx, "MTelescope.lean", "C08")  # telescoping of the per-step obligation L3 along a path
    # ---- bounded stand-in: exact enumeration of the three real proposals on small parents
    from bounded import proposals as BP

    cases = BP.run_all(ctx.tier)
    bad = [c for c in cases if c["problems"]]
    ctx.add_bounded("proposal-enumeration", "3 proposals x 10 parent configurations (<= 3 top-level clones, <= 2 outliers) x o in {0, 0.1} x with/without permutation distribution",
                    len(cases), sum(c["outcomes"] for c in cases), not bad)
    for c in bad:
        ctx.fail("C08.bounded.proposal[%s]" % c["case"], "; ".join(c["problems"]), {"case": c["case"], "problems": c["problems"]}, found_input=True)
    ctx.samples.append({"bounded_case": cases[0]["case"], "outcomes": cases[0]["outcomes"]})
