"""C04 - data-point, prune-regraft and subtree moves preserve the posterior."""
from pyvc import dsl
from pyvc.source import Repo

from checks import common


def _replay(kind):
    def concretise(name, model):
        from bounded import kernels as BK

        worst = None
        for n, outl in ((2, 0.2), (3, 0.0), (3, 0.2), (2, 0.0)):
            r = BK.aux_task((kind, n, outl, 1.3, 1, 0))
            if not r["ok"]:
                worst = r
                break
        if worst is None:
            return {"reproduced": False, "note": "exact kernel of the real move is invariant on all trees over n<=3 points"}
        return {"reproduced": True, "oracle": worst}

    return concretise


def run(ctx):
    repo = Repo()
    from contracts import c04_gibbs as G

    dsl.verify(ctx, repo, G.registry(), "C04.dp", G.DPS + ".sample_tree", G.h_dp, expect_covers=G.DP_COVERS, concretise=_replay("dp"))
    dsl.verify(ctx, repo, G.registry(), "C04.prg", G.PRG + ".sample_tree", G.h_prg, expect_covers=G.PRG_COVERS, concretise=_replay("prg"))
    ctx.trust(*G.registry().assumed)
    ctx.trust("ParticleGibbsSubtreeSampler: no block-Gibbs contract can be stated (the block choice is not constant on the block - see known finding K01); "
              "it is covered by the bounded oracle only")
    ctx.assume("A-REAL: floats as reals", "composition / uniformly shuffled scan of pi-invariant kernels is pi-invariant (standard)")
    ctx.extra["explanation"] = ("Deductive: G1-G3 obligations on the real DataPointSampler and PruneRegraphSampler code for any number of clones, with and without the "
                                "outlier option (block closure checked by running the real move again from its own result). Bounded: exact kernels on n<=4 points.")
    if ctx.tier == "thorough":
        from vcheck import lean as L

        L.check_file(ctx, "MGibbs.lean", "C04")
    from bounded import kernels as BK

    res = common.run_parallel(BK.aux_task, BK.aux_configs(ctx.tier, ctx.seed))
    sub = common.run_parallel(BK.pg_task, BK.subtree_configs(ctx.tier, ctx.seed))
    ctx.add_bounded("exact-kernel oracle (data-point / prune-regraft moves)", "all trees on n<=4 data points, outliers on/off", sum(r["n_paths"] for r in res),
                    sum(r["n_states"] for r in res), all(r["ok"] for r in res), note="max |piP-pi| = %.2e" % max([r["defect"] or 0 for r in res]))
    ctx.add_bounded("exact-kernel oracle (subtree particle Gibbs)", "all trees on n<=3 data points, N=2", sum(r["n_paths"] for r in sub), sum(r["n_states"] for r in sub),
                    all(r["ok"] for r in sub), note="max |piP-pi| = %.2e (known finding K01)" % max([r["defect"] or 0 for r in sub]))
    for r in res:
        if not r["ok"]:
            ctx.fail("C04.exact-kernel.%s" % r["move"], "move not invariant: |piP-pi|=%s at %s %s" % (r.get("defect"), r.get("worst_state"), r.get("error", "")), r, True)
    for r in sub:
        if not r["ok"]:
            if r.get("error"):
                ctx.fail("C04.exact-kernel-error.%s" % r["move"], "subtree move raised %s" % r["error"], r, True)
            else:
                ctx.fail("C04.exact-kernel.%s" % r["move"], "subtree move not invariant: |piP-pi|=%s at %s" % (r.get("defect"), r.get("worst_state")), r, True)
    ctx.samples.append({"oracle_case": res[0]["move"], "states": res[0]["n_states"], "paths": res[0]["n_paths"], "defect": res[0]["defect"]})
