"""C05 - emission likelihood grids implement the PyClone mutation model."""
from pyvc import dsl
from pyvc.source import Repo


def _replay_cn_prior(name, model):
    """the solver's counter-model of a cn-prior obligation (minor, normal, err; major = 1..3 is a case split of the harness) run on the real get_major_cn_prior"""
    if "cn-prior" not in name:
        return None
    from fractions import Fraction
    from phyclone.data.pyclone import get_major_cn_prior

    def val(k, default):
        v = model.get(k, default)
        try:
            return Fraction(str(v))
        except Exception:
            return Fraction(default)

    minor, normal, err = int(val("minor", 0)), int(val("normal", 2)), float(val("err", "1/1000"))
    for major in (1, 2, 3):
        if major < minor or not (0 < err < 0.5):
            continue
        total = major + minor
        cn, mu, log_pi = get_major_cn_prior(major, minor, normal, error_rate=err)
        want_cn = [(normal, normal, total)] * major
        want_mu = [(err, err, min(1 - err, x / total)) for x in range(1, major + 1)]
        if normal != total:
            want_cn.append((normal, total, total))
            want_mu.append((err, err, min(1 - err, 1 / total)))
        got_cn, got_mu = [tuple(int(v) for v in r) for r in cn], [tuple(float(v) for v in r) for r in mu]
        bad = got_cn != want_cn or len(got_mu) != len(want_mu) or any(abs(a - b) > 1e-12 for g, w in zip(got_mu, want_mu) for a, b in zip(g, w)) or len(log_pi) != len(want_cn)
        if bad:
            return {"reproduced": True, "input": {"major_cn": major, "minor_cn": minor, "normal_cn": normal, "error_rate": err},
                    "got": {"cn": got_cn, "mu": got_mu}, "expected": {"cn": want_cn, "mu": want_mu},
                    "cmd": "get_major_cn_prior(%d, %d, %d, error_rate=%r)" % (major, minor, normal, err)}
    return {"reproduced": False, "note": "the real get_major_cn_prior agrees with the PyClone genotype table at the counter-model's copy numbers for major = 1..3"}


def deductive(ctx, repo, prop):
    from contracts import c05_emission as C

    M, Pc = C.MATH, C.PYC
    dsl.verify(ctx, repo, dsl.Registry(), prop, M + ".log_binomial_likelihood", C.h_binomial_likelihood, expect_covers=["p=0", "p=1", "0<p<1"])
    dsl.verify(ctx, repo, dsl.Registry(), prop, [M + ".log_binomial_pdf", M + ".log_beta_binomial_pdf", M + ".log_binomial_coefficient", M + ".log_beta"], C.h_pdfs,
               expect_covers=["coef", "binomial", "beta-binomial", "beta"])
    dsl.verify(ctx, repo, C.mixture_registry(), prop, [Pc + ".log_pyclone_binomial_pdf", Pc + ".log_pyclone_beta_binomial_pdf"], C.h_mixture, expect_covers=C.MIX_COVERS)
    dsl.verify(ctx, repo, dsl.Registry(), prop, Pc + ".get_major_cn_prior", C.h_major_cn_prior, expect_covers=["major=1,accepted", "major=3,accepted", "major=1,rejected", "after-cn-change-genotype"],
               concretise=_replay_cn_prior)
    dsl.verify(ctx, repo, dsl.Registry(), prop, Pc + "._compute_liklihood_grid", C.h_likelihood_grid, expect_covers=C.GRID_COVERS)
    dsl.verify(ctx, repo, dsl.Registry(), prop, [Pc + ".DataPoint.to_likelihood_grid", Pc + ".DataPoint.get_ccf_grid"], C.h_to_likelihood_grid, expect_covers=["to_grid.case0", "to_grid.case1", "to_grid.case2"])
    ctx.trust(*C.mixture_registry().assumed)


def run(ctx):
    repo = Repo()
    deductive(ctx, repo, "C05")
    from contracts import c03_joint as J

    dsl.verify(ctx, repo, dsl.Registry(), "C05", "phyclone.data.pyclone.compute_outlier_prob", J.h_compute_outlier_prob, expect_covers=["p=0", "p>0"])
    ctx.trust("M-PMF: binomial and beta-binomial pmfs sum to one over x = 0..n (binomial theorem / Vandermonde-type identity): trusted, checked numerically by the bounded stand-in",
              "math.lgamma agrees with log Gamma (A-REAL)", "numba compiles the jitted functions with Python semantics (A-NUMBA); jitclass SampleDataPoint is a plain record",
              "the mixture functions are verified for 1 and 2 genotypes (loop over genotypes unrolled) and get_major_cn_prior for major copy number 1..3: bounded in these two counts, "
              "unbounded in every other quantity; the grid loop of _compute_liklihood_grid, the cluster aggregation and the loader are bounded-only")
    ctx.assume("A-REAL")
    ctx.extra["explanation"] = ("Deductive: pmf primitives equal their closed forms (incl. the p in {0,1} corners); the two mixture functions equal log sum_g pi_g pmf(alt; n, xi_g(f)) with "
                                "xi_g from the population weights, with the domain lemma (sum w c > 0, xi in (0,1), beta parameters > 0) discharged in cross-multiplied form; "
                                "get_major_cn_prior builds the stated genotypes with a uniform normalised prior and raises iff major < minor. Bounded: scipy reference on generated inputs "
                                "(both densities, zero and extreme depth, sums to one over alternate counts, cluster sums and outlier terms for minimal and per-sample cluster files).")
    if ctx.tier == "thorough":
        from vcheck import lean as LN

        LN.check_file(ctx, "MPmf.lean", "C05")  # binomial pmf sums to one; a normalised mixture of normalised pmfs sums to one
    from bounded import loader as L

    r = L.run_pmf(ctx.tier, ctx.seed)
    ctx.add_bounded("grids vs scipy mixture; sum over alternate counts == 1; extreme depth", "6 copy-number states x 2 tumour contents x 2 error rates x 3 densities x depths {0,1,7,40} + depths up to 2e6",
                    r["cases"], r["cases"], not r["problems"])
    for p in r["problems"][:5]:
        ctx.fail("C05.bounded.pmf[%s]" % p[:90], p, {"problem": p}, True)
    r2 = L.run(ctx.tier, ctx.seed)
    probs = [p for p in r2["problems"] if "grid differs" in p or "outlier terms" in p or "raised" in p]
    ctx.add_bounded("loaded grids and cluster aggregation vs the reference (shared with C17)", "9 table scenarios x row orders x separators x densities x 3 cluster-file layouts", r2["cases"], r2["cases"], not probs)
    for p in probs[:5]:
        ctx.fail("C05.bounded.loader[%s]" % p[:90], p, {"problem": p}, True)
    r3 = L.run_large_precision((1e4, 1e8, 1e13))
    bad = [x for x in r3 if x["defect"] > 1e-4 or not x["finite"]]
    ctx.add_bounded("beta-binomial grid summed over all alternate counts for growing precision", "depth 50, copy number (2,1,2), tumour content 0.8, precision in {1e4, 1e8, 1e13}; tolerance 1e-4",
                    len(r3), len(r3), not bad, "precision 1e13: recorded finding K04")
    for x in bad:
        ctx.fail("C05.bounded.large-precision|precision=%g|depth=%d" % (x["precision"], x["depth"]),
                 "the beta-binomial grid summed over all alternate counts is %s, not one (precision %g, depth %d)" % (x["sums"], x["precision"], x["depth"]),
                 dict(x, replay="bounded.loader.run_large_precision((%g,))" % x["precision"]), True)
