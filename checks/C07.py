"""C07 - every tree is a well-formed forest and no move loses or duplicates data."""
from checks import common
from checks.C06 import run_edits


def run(ctx):
    try:
        from contracts import c06_layer1 as L
        from pyvc.source import Repo

        L.verify_all(ctx, Repo(), "C07")
    except ImportError:
        pass
    from contracts import c04_gibbs as G
    from pyvc import dsl
    from pyvc.source import Repo

    repo = Repo()
    # data conservation of the Gibbs moves is part of their contracts (C07.dp.data-conserved, G.prg.result-is-candidate)
    dsl.verify(ctx, repo, G.registry(), "C07.dp", G.DPS + ".sample_tree", G.h_dp, expect_covers=G.DP_COVERS)
    dsl.verify(ctx, repo, G.registry(), "C07.prg", G.PRG + ".sample_tree", G.h_prg, expect_covers=G.PRG_COVERS)
    ctx.trust(*G.registry().assumed)
    ctx.extra["explanation"] = ("Deductive: the data-point and prune-regraft moves return a tree of their own candidate family (same data, the moved point in exactly one place). "
                                "Bounded: wf(tree) evaluated after every edit of the enumerated edit grammar and on every tree returned by every sampler on every random "
                                "outcome (n<=3) and along seeded sweeps (n=6).")
    run_edits(ctx, "C07", only=["wf", "operation raised"])
    from bounded import conservation as BC

    res = common.run_parallel(BC.enum_task, BC.enum_configs(ctx.tier))
    bad = [r for r in res if r["problems"]]
    ctx.add_bounded("every sampler outcome is well formed and data-conserving (enumerating generator)", "all start trees on n<=3 points, 5 samplers x 3 proposals x outliers on/off, N=2",
                    sum(r["paths"] for r in res), len(res), not bad)
    for r in bad[:4]:
        ctx.fail("C07.bounded.sampler[%s]" % r["case"], "; ".join(r["problems"][:2]), r, True)
    res = common.run_parallel(BC.sweep_task, BC.sweep_configs(ctx.tier, ctx.seed))
    bad = [r for r in res if r["problems"]]
    ctx.add_bounded("seeded sampler sweeps (real generator)", "6 data points, 2 samples, 3 proposals x outliers on/off, 12 sweeps from 2-4 start trees", sum(r["moves"] for r in res), len(res), not bad)
    for r in bad[:4]:
        ctx.fail("C07.bounded.sweep[%s]" % r["case"], "; ".join(r["problems"][:2]), r, True)
