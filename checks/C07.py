"""C07 - every tree is a well-formed forest and no move loses or duplicates data."""
from checks import common
from checks.C06 import run_edits


# The Layer-1 and Gibbs-move contracts are shared with C06 / C04.  C07 is about the SHAPE of the tree and the whereabouts of the data points;
# obligations about the cached likelihood vectors (C06) or about move probabilities (C04) are those properties' and are not claimed here.
NOT_C07 = (".log_p", ".log_r", "value-not-written", "add-list.step", "add-list.aliases", "update_node.", "graph.path.", "path-update", ".prior", "update.post-order",
           "update.depth-first", "from_dict.update-last", "likelihood-change", ".pairing", "G3.selection", "G1.subtree-root-uniform", "G1G3", "G2G3", "assert[_update_path_to_root",
           "index-in-range[root-path")


def run(ctx):
    ctx.vc_filter = lambda name, kind: not any(t in name for t in NOT_C07)
    try:
        from contracts import c06_layer1 as L
        from pyvc.source import Repo

        L.verify_all(ctx, Repo(), "C07")
    except ImportError:
        pass
    from contracts import c04_gibbs as G
    from pyvc import dsl
    from pyvc.source import Repo

    repo = Repo()
    # data conservation of the Gibbs moves is part of their contracts (C07.dp.data-conserved, G.prg.result-is-candidate)
    dsl.verify(ctx, repo, G.registry(), "C07.dp", G.DPS + ".sample_tree", G.h_dp, expect_covers=G.DP_COVERS)
    dsl.verify(ctx, repo, G.registry(), "C07.prg", G.PRG + ".sample_tree", G.h_prg, expect_covers=G.PRG_COVERS)
    ctx.trust(*G.registry().assumed)
    # the subtree move puts the resampled part back: no data point (the subtree's outliers included) may get lost on the way (the weight obligation is C04's business - K01)
    from contracts import c19_safety as SB

    prev = ctx.vc_filter
    ctx.vc_filter = lambda name, kind: prev(name, kind) and "correct.weight" not in name
    dsl.verify(ctx, repo, dsl.Registry(), "C07", SB.SUB + "._correct_weights", SB.h_correct_weights, expect_covers=SB.CORRECT_COVERS)
    ctx.vc_filter = prev
    ctx.assume("_correct_weights: the particles of the swarm it receives are pairwise distinct objects (each was created by the last propagation step of the subtree SMC pass)")
    ctx.extra["explanation"] = ("Deductive: the structural Layer-1 contracts shared with C06 (index sets of the nodes, data lists, name <-> index maps, create_root_node rewiring, copy shares nothing, "
                                "remove_subtree / add_subtree / relabelling keep maps, data lists and graph consistent, dictionary round trip); the data-point and prune-regraft moves return a tree of their own candidate family (same data, the moved point in exactly one place). "
                                "Obligations about cached likelihood vectors and move probabilities are left to C06 / C04. "
                                "Bounded: wf(tree) evaluated after every edit of the enumerated edit grammar and on every tree returned by every sampler on every random "
                                "outcome (n<=3) and along seeded sweeps (n=6).")
    run_edits(ctx, "C07", only=["wf", "operation raised"])
    from bounded import conservation as BC

    res = common.run_parallel(BC.enum_task, BC.enum_configs(ctx.tier))
    bad = [r for r in res if r["problems"]]
    ctx.add_bounded("every sampler outcome is well formed and data-conserving (enumerating generator)", "all start trees on n<=3 points, 5 samplers x 3 proposals x outliers on/off, N=2",
                    sum(r["paths"] for r in res), len(res), not bad)
    for r in bad[:4]:
        ctx.fail("C07.bounded.sampler[%s]" % r["case"], "; ".join(r["problems"][:2]), r, True)
    res = common.run_parallel(BC.sweep_task, BC.sweep_configs(ctx.tier, ctx.seed))
    bad = [r for r in res if r["problems"]]
    ctx.add_bounded("seeded sampler sweeps (real generator)", "6 data points, 2 samples, 3 proposals x outliers on/off, 12 sweeps from 2-4 start trees", sum(r["moves"] for r in res), len(res), not bad)
    for r in bad[:4]:
        ctx.fail("C07.bounded.sweep[%s]" % r["case"], "; ".join(r["problems"][:2]), r, True)
