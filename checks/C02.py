"""C02 - tree likelihood equals the exact CCF-grid marginal under the sum constraint."""
from pyvc import dsl
from pyvc.source import Repo


def run(ctx):
    repo = Repo()
    from contracts import c02_recursion as C

    C.verify_all(ctx, repo, "C02")
    # the recursion is evaluated through the convolution caches: a hit must be the value of THESE children (key adequacy is stated once, in the C14 contracts)
    from contracts import c14_memo as M14

    dsl.verify(ctx, repo, M14.registry(), "C02.cache", M14.UT + ".list_of_np_cache", M14.h_list_cache, expect_covers=M14.LIST_COVERS)
    dsl.verify(ctx, repo, M14.registry(), "C02.cache", M14.UT + ".two_np_arr_cache", M14.h_pair_cache, expect_covers=M14.PAIR_COVERS, concretise=M14.replay_pair_cache)
    ctx.assume("A-REAL: the deductive obligations are over the reals; every floating-point clause (underflow floor, never-below-exact, finiteness, FFT 1e-6) is bounded-only")
    ctx.trust("M-REC: the recursion R = P*S, S = prefix sums of D, D = iterated truncated convolution equals the flat sum over constrained index assignments (trusted; brute force, bounded)")
    ctx.extra["explanation"] = ("Deductive (real arithmetic): the convolution / prefix-sum / node-update functions equal their recursive specification for any number of samples, "
                                "grid points and children. Bounded: literal enumeration of all index assignments on every forest over <=4 clones, incl. identical siblings, rows on "
                                "very different scales, wide dynamic range; FFT-vs-direct at 1000 grid points.")
    if ctx.tier == "thorough":
        from vcheck import lean as L

        for f_ in ("MGeom.lean",):
            L.check_file(ctx, f_, "C02")
    from bounded import likelihood as BL

    r = BL.run(ctx.tier, ctx.seed)
    ctx.add_bounded("literal enumeration of index assignments vs Tree.data_log_likelihood + floating-point clauses", "every forest on <= 4 clones, G <= 5, D <= 2, 6 data sets; FFT at G = 1000",
                    r["trees"], r["trees"], not r["problems"])
    for p in r["problems"][:5]:
        ctx.fail("C02.bounded.enumeration[%s]" % p[:90], p, {"problem": p}, True)
    r2 = BL.constraint_at_switch()
    bad = [x for x in r2 if x["defect"] > 1e-6 or not x["finite"]]
    ctx.add_bounded("trees that violate the sum constraint, one grid point below the switch to the FFT path and at it, vs a log-space evaluation of the defining sums",
                    "2 tree shapes (two top-level clones with CCFs adding up to more than one; two children exceeding their parent) x 2 densities x G in {999, 1000}; "
                    "entries within 1e-6 of the exact row peak", len(r2), len(r2), not bad, "G = 1000: recorded finding K03")
    for x in bad:
        ctx.fail("C02.bounded.constraint-at-switch|%s|%s|G=%d" % (x["scenario"], x["density"], x["grid"]),
                 "root vector differs from the exact constrained sum by %.4g nats inside the 1e-6 window of the row peak (at the peak: reported %.6f, exact %.6f)%s"
                 % (x["defect"], x["reported_at_peak"], x["exact_peak"], "" if x["finite"] else "; non-finite values"),
                 dict(x, replay="bounded.likelihood.constraint_at_switch()"), True)
    ctx.samples.append({"bounded_trees": r["trees"] + len(r2)})
