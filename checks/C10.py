"""C10 - reported CCFs are feasible on the tree and jointly maximise the likelihood."""


def run(ctx):
    from contracts import c10_map as M
    from pyvc.source import Repo

    M.verify_all(ctx, Repo(), "C10")
    ctx.trust("M-MAXPLUS: optimal substructure of the (max,+) recursion (pen and paper)")
    ctx.extra["explanation"] = ("Deductive: the two (max,+) loops of map.py (_compute_log_D_n, compute_log_S) satisfy their max / arg-max specification for any grid size and number of "
                                "samples (witness-based inductive invariants on the real loop bodies, frame obligations on the arrays), get_map_ccfs reports grid points. Bounded stand-in: the real MAP computation is compared with a brute-force maximum over all feasible grid assignments on every forest over <= 4 clones "
                                "(both sibling orders, evaluated in one process), stars with 4 children / 5 top-level clones, an all-outlier tree: grid membership, feasibility, "
                                "optimality, clonal prevalence = ccf - children >= 0.")
    from bounded import mapccf as M2

    r = M2.run(ctx.tier, ctx.seed)
    ctx.add_bounded("brute-force feasible maximum vs get_map_node_ccfs_and_clonal_prev_dicts", "every forest on <= 4 clones x 4 data sets (G <= 5, D <= 2) x 2 clone orders + stars", r["trees"], r["trees"], not r["problems"])
    for p in r["problems"][:5]:
        ctx.fail("C10.bounded.map[%s]" % p[:90], p, {"problem": p}, True)
    ctx.samples.append({"bounded_trees": r["trees"]})
