"""Pieces shared by several property checks."""
from pyvc import dsl


def adapted_contracts(ctx, repo, prop):
    from contracts import c08_adapted as A

    dsl.verify(ctx, repo, A.registry(), prop + ".semi", [A.SEMI + ".sample", A.SEMI + ".log_p"], A.h_semi, expect_covers=A.SEMI_COVERS)
    dsl.verify(ctx, repo, A.registry(), prop + ".full", [A.FULL + ".sample", A.FULL + ".log_p"], A.h_full, expect_covers=["full-sampled"])
    dsl.verify(ctx, repo, A.registry(), prop + ".log_normalize", "phyclone.utils.math.log_normalize", A.h_log_normalize, expect_covers=["normalised"])
    ctx.trust(*A.registry().assumed)
    from contracts import c08_init as N

    N.verify_all(ctx, repo, prop)
    from contracts import c08_wiring as W

    W.verify_all(ctx, repo, prop)


def smc_contracts(ctx, repo, prop):
    """L3/L5/L6/L7 + ParticleSwarm (used by C01, C08, C19)."""
    from contracts import c01_smc as S

    dsl.verify(ctx, repo, S.base_registry(), prop + ".kernel.create_particle", S.CREATE, S.h_create_particle, expect_covers=S.CREATE_COVERS)
    dsl.verify(ctx, repo, S.base_registry(), prop + ".smc.get_log_w", S.GETLOGW, S.h_get_log_w, expect_covers=["last", "not-last"])
    dsl.verify(ctx, repo, S.base_registry(), prop + ".swarm", S.SWARM, S.h_swarm)
    dsl.verify(ctx, repo, S.base_registry(), prop + ".swarm", [S.SWARM + ".__init__", S.SWARM + ".add_particle"], S.h_swarm_add, expect_covers=["swarm.add"])
    dsl.verify(ctx, repo, S.update_registry(), prop + ".csmc.update_swarm", S.CSMC + "._update_swarm", S.h_update_swarm,
               expect_covers=["update-last", "update-not-last"])
    dsl.verify(ctx, repo, S.init_registry(), prop + ".csmc.init_swarm", S.CSMC + "._init_swarm", S.h_init_swarm, expect_covers=["init-T1", "init-T>1"])
    dsl.verify(ctx, repo, S.resample_registry(), prop + ".csmc.resample_swarm", S.CSMC + "._resample_swarm", S.h_resample,
               expect_covers=["resample-triggered", "resample-not-triggered"])
    ctx.trust(*S.update_registry().assumed)


def run_parallel(fn, argslist, workers=14):
    import multiprocessing as mp
    from concurrent.futures import ProcessPoolExecutor

    if not argslist:
        return []
    with ProcessPoolExecutor(max_workers=min(workers, len(argslist)), mp_context=mp.get_context("fork")) as ex:
        return list(ex.map(fn, argslist))
