"""C15 - trees survive serialisation; trace entries are self-consistent."""
import os
import shutil
import tempfile

from pyvc import dsl
from pyvc.source import Repo

from checks import common
from checks.C06 import run_edits


def gzip_roundtrip(seed):
    """real writer -> gzip file -> pickle -> Tree.from_dict for every entry of a few real chains"""
    import contextlib
    import gzip
    import io
    import math
    import pickle

    import numpy as np

    from bounded import edits as BE
    from phyclone.process_trace import create_main_run_output
    from phyclone.run import run_phyclone_chain
    from phyclone.tree import FSCRPDistribution, Tree, TreeJointDistribution
    from replay import trees as T

    problems = []
    n_entries = 0
    tmp = tempfile.mkdtemp(prefix="verif_c15_")
    try:
        data = T.make_data(5, dims=2, grid=11, seed=seed + 2, outlier_p=0.1)
        results = {}
        for chain, (proposal, sub) in enumerate((("semi-adapted", 0.5), ("bootstrap", 0.0), ("fully-adapted", 1.0))):
            with contextlib.redirect_stdout(io.StringIO()):
                results[chain] = run_phyclone_chain(2, True, 1.0, data, float("inf"), 12, 4, 1, 1, 0.1, 100, proposal, 0.5, np.random.default_rng(seed + chain), ["a", "b"], 3, chain, sub)
        path = os.path.join(tmp, "trace.pkl.gz")
        create_main_run_output(None, path, results)
        with gzip.GzipFile(path, "rb") as fh:
            back = pickle.load(fh)
        if sorted(back) != sorted(results):
            problems.append("chains read back %s, written %s" % (sorted(back), sorted(results)))
        for c in results:
            a, b = results[c]["trace"], back[c]["trace"]
            if [e["iter"] for e in a] != [e["iter"] for e in b] or [e["iter"] for e in a] != [0, 0, 3, 6, 9]:
                problems.append("chain %d: iterations written %s, read %s, expected [0, 0, 3, 6, 9]" % (c, [e["iter"] for e in a], [e["iter"] for e in b]))
            for ea, eb in zip(a, b):
                n_entries += 1
                ta, tb = Tree.from_dict(ea["tree"]), Tree.from_dict(eb["tree"])
                if not (ta == tb and ta.labels == tb.labels and ea["alpha"] == eb["alpha"] and ea["log_p_one"] == eb["log_p_one"]):
                    problems.append("chain %d iter %d: entry changed by the gzip/pickle round trip" % (c, ea["iter"]))
                ps = BE.check_wf(tb, set(range(5))) + BE.check_fresh(tb)
                if ps:
                    problems.append("chain %d iter %d: restored tree: %s" % (c, ea["iter"], "; ".join(ps[:2])))
                re = TreeJointDistribution(FSCRPDistribution(eb["alpha"])).log_p_one(tb)
                if not math.isfinite(re) or abs(re - eb["log_p_one"]) > 1e-8 * max(1.0, abs(re)):
                    problems.append("chain %d iter %d: recorded log_p_one %.10g, recomputed under the recorded alpha %.10g" % (c, ea["iter"], eb["log_p_one"], re))
    finally:
        shutil.rmtree(tmp, ignore_errors=True)
    return {"entries": n_entries, "problems": problems}


def run(ctx):
    repo = Repo()
    from contracts import c15_trace as C

    lg = C.Log()
    r = C.registry(lg)
    r.log = lg
    dsl.verify(ctx, repo, r, "C15", C.MAIN, C.h_main_iteration, expect_covers=["recorded", "skipped", "iteration"], max_paths=6000)
    dsl.verify(ctx, repo, dsl.Registry(), "C15", C.APPEND, C.h_append, expect_covers=["append"])
    dsl.verify(ctx, repo, dsl.Registry(), "C15", C.SETUP, C.h_setup, expect_covers=["setup"])
    ctx.trust(*r.assumed)
    from contracts import c06_graph as G

    G.verify_roundtrip(ctx, repo, "C15")
    ctx.trust("pickle / gzip round trip is the identity (library axiom)",
              "num_samples_data_point in {0,1,2} and num_samples_prune_regraph in {0,1} are enumerated concretely in the run-loop harness (defaults are 1)")
    ctx.extra["explanation"] = ("Deductive: one arbitrary iteration of the real _run_main_sampler for any num_iters / thin / print_freq / time limit: recorded iff i % thin == 0, once, "
                                "after the moves, relabel_nodes and the concentration update, with alpha / log_p_one / tree all read from that same state; setup_trace records the "
                                "post-burn-in tree first. Tree.to_dict copies the edge list, both index maps and every data list; Tree.from_dict copies them again, adds the dummy root first, rebuilds "
                                "one TreeNode per clone from its stored data list at its stored index, removes only unregistered indices and recomputes the recursion values last; copy() shares nothing. "
                                "Bounded: dict and pickle round trips after every enumerated edit (arrays, labels, densities, no sharing, one more edit); "
                                "real chains written by the real writer and read back.")
    run_edits(ctx, "C15", only=["roundtrip", "operation raised"])
    g = gzip_roundtrip(ctx.seed)
    ctx.add_bounded("real chains -> create_main_run_output -> gzip/pickle -> Tree.from_dict", "3 chains (3 proposals, subtree prob 0/.5/1, outliers on, concentration update on), 12 iterations, thin 3",
                    g["entries"], g["entries"], not g["problems"])
    for p in g["problems"][:5]:
        ctx.fail("C15.bounded.trace[%s]" % p[:90], p, {"problem": p}, True)
