"""C06 - incrementally maintained likelihoods equal a from-scratch rebuild."""
from checks import common


def edit_task(args):
    from bounded import edits as BE

    n, depth, dims, out, seed, max_states = args
    r = BE.explore(n, depth, dims=dims, outliers_ok=out, seed=seed, max_states=max_states)
    r["cfg"] = "n=%d depth=%d D=%d outliers=%s" % (n, depth, dims, out)
    return r


def edit_configs(tier, seed):
    if tier == "quick":
        return [(3, 4, 1, True, seed, 700), (3, 5, 2, False, seed, 500), (4, 4, 1, False, seed, 500), (4, 5, 1, True, seed, 350)]
    return [(3, 6, 1, True, seed, 4000), (3, 6, 2, False, seed, 3000), (4, 6, 1, False, seed, 3000), (4, 6, 1, True, seed, 3000), (4, 7, 2, False, seed + 1, 2500)]


def run_edits(ctx, prop, only=None):
    res = common.run_parallel(edit_task, edit_configs(ctx.tier, ctx.seed))
    ops = sum(r["ops"] for r in res)
    states = sum(r["states"] for r in res)
    bad = [(r["cfg"], p) for r in res for p in r["problems"] if only is None or any(p["problem"].startswith(o) or ("; " + o) in p["problem"] for o in only)]
    ctx.add_bounded("edit-grammar enumeration with executable Layer-1 contracts (wf, fresh, round trip) after every operation",
                    "breadth-first over add/move/new-clone/prune-regraft(+update)/relabel/copy/dict round trip, 3-4 data points, depth %s" % ("4-5" if ctx.tier == "quick" else "6-7"),
                    ops, states, not bad)
    for cfg, p in bad[:5]:
        ctx.fail("%s.bounded.edits[%s]" % (prop, " > ".join(p["history"])[:110]), "%s after %s (%s)" % (p["problem"], p["history"], cfg), p, True)
    ctx.samples.append({"edit_sequences_explored": ops, "distinct_states": states})
    return res


def run(ctx):
    # the snapshot dictionary (Tree.to_dict) is C15's subject: a change there does not touch the cached vectors of any tree
    ctx.vc_filter = lambda name, kind: ".graph.to_dict." not in name
    try:
        from contracts import c06_layer1 as L
        from pyvc.source import Repo

        L.verify_all(ctx, Repo(), "C06")
    except ImportError:
        pass
    ctx.assume("rounding drift of repeated add/remove is outside A-REAL; the bounded check uses rtol 1e-9 / atol 1e-8")
    ctx.extra["explanation"] = ("Deductive (Layer 1, any tree size): TreeNode edits keep log_p / log_r as specified (add: both, remove: log_p only, list add: every grid to both), Tree pairs each edit with the path update "
                                "from the right node, _update_node feeds a node exactly its children's log_r, _update_path_to_root walks the unique root path bottom-up, create_root_node / remove_subtree / add_subtree "
                                "rewire and re-register consistently and recompute from the attachment point upwards, copy() shares nothing, relabelling keeps the maps consistent, from_dict rebuilds every node and "
                                "recomputes last; the recursion itself is C02's. get_subtree and the library semantics of rustworkx are not under contract. Bounded: after every operation of every enumerated edit sequence each node's cached log_p/log_r is compared with an independent from-scratch "
                                "recomputation, both joint densities with a freshly built tree.")
    run_edits(ctx, "C06", only=["fresh", "operation raised"])
