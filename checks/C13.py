"""C13 - concentration update is an exact Gibbs step for the CRP concentration."""
from pyvc import dsl
from pyvc.source import Repo


def _concretise(name, model):
    from bounded import concentration as BC

    r = BC.run("quick", 0)
    e = BC.extraction("quick", 0)
    probs = r["problems"] + e["problems"]
    return {"reproduced": bool(probs), "problems": probs[:4]}


def run(ctx):
    repo = Repo()
    from contracts import c13_conc as C

    tr = []
    r = C.registry(tr)
    r.trace = tr
    dsl.verify(ctx, repo, r, "C13", C.SAMPLE, C.h_sample, expect_covers=["K=0", "K>=1"], concretise=_concretise)
    dsl.verify(ctx, repo, r, "C13", C.SAMPLE, C.h_sample_result, expect_covers=["result"], concretise=_concretise)
    dsl.verify(ctx, repo, dsl.Registry(), "C13", C.UPDATE, C.h_update, expect_covers=["outlier-key", "no-outlier-key"], concretise=_concretise)
    lg = []
    r2 = C.chain_registry(lg)
    r2.log = lg
    dsl.verify(ctx, repo, r2, "C13", C.CHAIN, C.h_chain, expect_covers=["chain"])
    ctx.trust(*r.assumed)
    ctx.trust("M-EW: with Gamma(s+1) = s Gamma(s) the density x^(s-1)(x+n)exp(-x r) is the mixture w1 Gamma(s+1, r) + w2 Gamma(s, r), w1/w2 = s/(n r) "
              "(the obligation gibbs.mixture-weight carries the recurrence as Gamma(s+1) = s*Gamma(s), rate^(s+1) = rate*rate^s)",
              "that this auxiliary-variable step leaves p(alpha | K, n) invariant is West (1992) / Escobar & West (1995): trusted",
              "Tree.node_data lists each clone once and the outlier list under -1 (CTree model, Layer 1)",
              "a positive floor below the smallest normal float (guard against underflow to 0.0) is allowed by the contract; anything higher distorts the mixture (finding F18: the former floor 1e-10 caught most draws under the run command's Gamma(0.01, 0.01) prior with one clone)")
    ctx.assume("A-REAL")
    ctx.extra["explanation"] = ("Deductive: the ghost draw trace of the real sample() is [Beta(alpha+1,n), Bernoulli(pi), Gamma(shape, 1/(b-log eta))] with pi the weight of the "
                                "x^(a+K-1) component (NRA), every draw uses the sampler's generator; run.py passes K, n without outliers and stores the value through the "
                                "setter; one shared TreeJointDistribution. Bounded: spying Generator on the real scipy calls + numeric mixture-vs-target comparison.")
    if ctx.tier == "thorough":
        from vcheck import lean as L

        L.check_file(ctx, "MTelescope.lean", "C13")  # escobar_west_weight: the mixture weight from the masses of the two Gamma components
    from bounded import concentration as BC

    b = BC.run(ctx.tier, ctx.seed)
    e = BC.extraction(ctx.tier, ctx.seed)
    ctx.add_bounded("spy generator on the real sampler + mixture density vs target", "3 priors x 5 (K,n) x 4 alpha x repetitions", b["cases"], b["cases"], not b["problems"])
    ctx.add_bounded("K/n extraction and alpha propagation on real trees", "all trees on <= 3 points incl. outliers", e["cases"], e["cases"], not e["problems"])
    for p in (b["problems"] + e["problems"])[:5]:
        ctx.fail("C13.bounded[%s]" % p[:70], p, {"problem": p}, True)
    ctx.samples.append({"bounded_cases": b["cases"] + e["cases"]})
