"""C19 - a run on valid input completes and records only finite, complete trees."""
from pyvc import dsl
from pyvc.source import Repo

from checks import common


def run(ctx):
    repo = Repo()
    from contracts import c01_pg as G
    from contracts import c04_gibbs as GB
    from contracts import c08_bootstrap as B
    from contracts import c09_perm as PM
    from contracts import c13_conc as CC
    from contracts import c19_safety as S

    # exception freedom (index / key / division / log-domain / assert / empty-choice obligations) of the sampler layer under its contracts.
    # The harnesses are shared with C01 / C04 / C08 / C09; their functional postconditions belong to those properties (a change that breaks
    # a weight formula does not make a run fail), so only the safety obligations are claimed here, plus the posts that are C19's own.
    own_posts = ("C19.resample-precondition", "C19.subtree.", "C19.conc.", "C19.smc.sample.", "C19.recorded.", "C19.finite.")
    ctx.vc_filter = lambda name, kind: kind != "post" or any(t in name for t in own_posts)
    common.smc_contracts(ctx, repo, "C19")
    tr = []
    r = G.sample_registry(tr)
    r.trace = tr
    dsl.verify(ctx, repo, r, "C19.smc.sample", G.SAMPLE, G.h_sample_schedule, expect_covers=["conditional", "unconditional", "after-loop", "sample.loop.body", "sample.loop.exit"])
    lg = []
    r2 = S.registry(lg)
    r2.log = lg
    dsl.verify(ctx, repo, r2, "C19.subtree", S.SUB + ".sample_tree", S.h_subtree_prefix, expect_covers=S.SUB_COVERS)
    dsl.verify(ctx, repo, dsl.Registry(), "C19.subtree", S.SUB + "._correct_weights", S.h_correct_weights, expect_covers=S.CORRECT_COVERS)
    dsl.verify(ctx, repo, B.registry(), "C19.boot", [B.SAMPLE, B.LOGP], B.harness, expect_covers=B.COVERS, concretise=B.concretise)
    common.adapted_contracts(ctx, repo, "C19")
    from contracts import c01_std as STD

    STD.verify_all(ctx, repo, "C19")
    from contracts import c15_trace as TRC

    for fn_, h_, cov_ in ((TRC.BURNIN, TRC.h_burnin, ["burnin.none", "burnin.after", "burnin.iteration"]), (TRC.MAIN, TRC.h_main_iteration, ["recorded", "skipped", "iteration"])):
        lgb = TRC.Log()
        rb = TRC.registry(lgb)
        rb.log = lgb
        dsl.verify(ctx, repo, rb, "C19.run", fn_, h_, expect_covers=cov_, max_paths=6000)
    dsl.verify(ctx, repo, GB.registry(), "C19.dp", GB.DPS + ".sample_tree", GB.h_dp, expect_covers=GB.DP_COVERS)
    dsl.verify(ctx, repo, GB.registry(), "C19.prg", GB.PRG + ".sample_tree", GB.h_prg, expect_covers=GB.PRG_COVERS)
    dsl.verify(ctx, repo, PM.registry(), "C19.perm", PM.RPD + ".log_count", PM.h_log_count, expect_covers=["top", "inner"])
    t2 = []
    r3 = CC.registry(t2)
    r3.trace = t2
    def conc_replay(name, model):
        from bounded import concentration as BCn

        rr = BCn.run("quick", 0)
        return {"reproduced": bool(rr["problems"]), "problems": rr["problems"][:3]}

    dsl.verify(ctx, repo, r3, "C19.conc", CC.SAMPLE, CC.h_sample, expect_covers=["K=0", "K>=1"], concretise=conc_replay)
    dsl.verify(ctx, repo, r3, "C19.conc", CC.SAMPLE, CC.h_sample_result, expect_covers=["result"], concretise=conc_replay)
    dsl.verify(ctx, repo, dsl.Registry(), "C19.conc", CC.UPDATE, CC.h_update, expect_covers=["outlier-key", "no-outlier-key"])
    # "every recorded entry is a well-formed tree over ALL data points": the recorded dictionary is a snapshot that later moves cannot reach
    from contracts import c06_graph as GR

    dsl.verify(ctx, repo, dsl.Registry(), "C19.recorded.graph", GR.TR + ".to_dict", GR.h_to_dict, expect_covers=["to_dict"])
    # "finite log_p_one": the genotype allele fractions stay inside [e, 1 - e], so no emission grid holds log 0 (the rest of the emission model is C05's)
    from contracts import c05_emission as EM

    prev = ctx.vc_filter
    ctx.vc_filter = lambda name, kind: kind != "post" or "cn-prior.mu" in name
    dsl.verify(ctx, repo, dsl.Registry(), "C19.finite", EM.PYC + ".get_major_cn_prior", EM.h_major_cn_prior, expect_covers=["major=1,accepted", "major=3,accepted", "major=1,rejected", "after-cn-change-genotype"])
    ctx.vc_filter = prev
    ctx.trust(*r.assumed)
    ctx.trust(*r2.assumed)
    ctx.trust("option ranges of phyclone.cli.run are the top-level precondition (N >= 1, thresholds and probabilities in [0,1], thin/burnin/num_iters >= 1, alpha > 0, grid >= 11); "
              "--print-freq is not among the options the property quantifies over (i %% print_freq needs print_freq != 0)",
              "the safety obligations of one arbitrary iteration of _run_burnin and _run_main_sampler are included (their functional posts are C15's); Tree mutators are C06/C07's",
              "finiteness of log_p_one: sum of finitely many finite terms given finite data grids (C05) and alpha > 0 (floored at the smallest normal float); outlier probability exactly one is stored as 'off' (DESIGN 7.11)")
    ctx.assume("A-REAL: numpy never raises on floating-point edge cases here (log of 0 gives -inf with a warning); such values are excluded by the log-domain obligations")
    ctx.extra["explanation"] = ("Deductive: every index, key, divisor, log argument, assert and empty-sequence draw in the functions under contract of the sampler layer is proved safe "
                                "under the contracts (callers establish callee preconditions, e.g. iteration < T before the conditional sampler resamples; the all-outlier tree in the "
                                "subtree move). Bounded: the real run_phyclone_chain over boundary option combinations on 1-3 data points.")
    from bounded import driver as D

    cfgs = D.option_grid(ctx.tier, ctx.seed)
    chunks = [cfgs[i::14] for i in range(14)]
    res = [x for b in common.run_parallel(D.run_batch, chunks) for x in b]
    bad = [x for x in res if x["problems"]]
    ctx.add_bounded("real run_phyclone_chain over boundary option combinations", "3 proposals x N{1,2,5} x threshold{0,.5,1} x outlier_prob{0,.1,1} x subtree_prob{0,.5,1} x thin{1,3} x burnin{1,2} x "
                    "conc. update x time limit{inf,0} x data{1,2,3 points; 1-2 samples}: %s" % ("full cross product" if ctx.tier == "thorough" else "265 combinations incl. all known corners"),
                    len(res), sum(x["entries"] for x in res), not bad)
    seen = set()
    for x in bad:
        for p in x["problems"][:1]:
            key = p.split(" at ")[-1] if "raised" in p else p[:50]
            if key in seen:
                continue
            seen.add(key)
            ctx.fail("C19.bounded.driver[%s]" % key[:80], "%s with %s" % (p, x["cfg"]), x, True)
    ctx.samples.append({"driver_runs": len(res), "entries_checked": sum(x["entries"] for x in res)})
    fr = D.file_runs(ctx.tier, ctx.seed)
    badf = [x for x in fr if x["problems"]]
    ctx.add_bounded("phyclone.run.run from input files (loader, emission grids and trace writer on the path)", "5 mutations x 2 samples covering minor copy number 0 / > 0, both densities, clustered / unclustered, 1-2 chains",
                    len(fr), len(fr), not badf)
    for x in badf[:6]:
        for p_ in x["problems"][:2]:
            ctx.fail("C19.bounded.file-run[%s]" % p_[:80], "%s with %s" % (p_, x["cfg"]), x, True)
