"""C20 - an interrupted or truncated trace file is never read as a valid result."""
from pyvc import dsl
from pyvc.source import Repo
from vcheck import core


def run(ctx):
    repo = Repo()
    from contracts import c11_trace as C
    from contracts import c20_effects as E

    # symbolic effect trace of the writer and of write_map_results
    fx = C.Effects()
    r = C.map_registry(fx, None)
    r.fx = fx
    dsl.verify(ctx, repo, r, "C20", C.PT + ".create_main_run_output", C.h_writer, expect_covers=["writer"])
    # structural (dominance) obligations on the three readers and on run.run
    for name in ("write_map_results", "write_consensus_results", "write_topology_report"):
        fi = repo.lookup(C.PT + "." + name)
        if fi is None:
            ctx.engine_error("C20: %s no longer exists" % name)
            continue
        ctx.function_under_contract(fi.qualname, fi.module.path, fi.lines(), fi.sha256())
        for oname, ok, detail in E.reader_obligations(fi):
            full = "C20.%s.%s" % (name, oname)
            ctx.add_obligation(full, core.DISCHARGED if ok else core.REFUTED, "ast", 0.0, detail)
            if not ok:
                ctx.fail(full, "effect-order obligation fails: %s" % detail, {"function": fi.qualname}, found_input=False)
    fi = repo.lookup("phyclone.run.run")
    ctx.function_under_contract(fi.qualname, fi.module.path, fi.lines(), fi.sha256())
    for oname, ok, detail in E.run_obligations(fi):
        full = "C20.run.%s" % oname
        ctx.add_obligation(full, core.DISCHARGED if ok else core.REFUTED, "ast", 0.0, detail)
        if not ok:
            ctx.fail(full, "effect-order obligation fails: %s" % detail, {"function": fi.qualname}, found_input=False)
    ctx.trust("A-GZIP: for every strict prefix p of a file written by one pickle.dump through gzip.GzipFile, pickle.load(GzipFile(p)) raises or returns the complete dumped object "
              "(pickle is accepted only once its STOP opcode has been inflated; the last <= 9 bytes - gzip trailer - may be missing without effect): library behaviour, "
              "validated exhaustively per file by the bounded stand-in")
    ctx.extra["explanation"] = ("Deductive/structural: one dump of the whole mapping; each reader's first effect is the un-guarded load of the whole stream and every output is "
                                "dominated by its return; run() writes after all chains returned. Bounded: every prefix length of real trace files fed to the three real commands: "
                                "error and no output file, or outputs byte-identical to those of the complete file.")
    from bounded import commands as BC

    r2 = BC.run_c20(ctx.tier, ctx.seed)
    ctx.add_bounded("every prefix of real trace files through the three commands", "traces of 1-2 (3) chains; every byte length (thorough) / dense sample + all of the last 40 bytes (quick)",
                    r2["cases"], r2["cases"], not r2["problems"], note="exhaustive over crash points of these files in the thorough tier")
    for p in r2["problems"][:5]:
        ctx.fail("C20.bounded.prefix[%s]" % p[:90], p, {"problem": p}, True)
    ctx.samples.append({"prefixes": r2["cases"]})
