"""C09 contracts: RootPermutationDistribution.log_count / log_pdf against the closed form for the number of data orders
compatible with a tree (M-LINEXT), for any number of top-level clones / children / outliers.

   orders(subtree at v) = n_v! * multinomial(sizes of child subtrees) * prod_c orders(c)
   orders(tree)         = N! / prod_r size(r)!  *  prod_r orders(r)          (N = all data points incl. outliers)
"""
import z3

from pyvc import alg, dsl
from pyvc.alg import Num
from pyvc.builtins_model import SymSeq
from pyvc.interp import Model

RPD = "phyclone.smc.utils.RootPermutationDistribution"


def lg(x):
    return alg.raw_app("LGamma", x if isinstance(x, Num) else Num.const(x))


class PTree(Model):
    py_classes = ("Tree",)

    def __init__(self, I):
        P = I.P
        self.R = alg.sym("R", "Int")
        self.N = alg.sym("N", "Int")
        self.n_out = alg.sym("n_out", "Int")
        P.assume(z3.And(P.z(self.R) >= 0, P.z(self.n_out) >= 0))

    def seq(self, name, n):
        def facts(I_, i):
            return [I_.P.z(alg.raw_app("sub", alg.raw_app(name, i, sort="Int"), sort="Int")) >= 1]

        return SymSeq(name, n, lambda i: alg.raw_app(name, i, sort="Int"), facts)

    def a_roots(self, I):
        return self.seq("root", self.R)

    def m_get_children(self, I, node):
        n = alg.raw_app("nch", I.to_num(node), sort="Int")
        I.P.assume(I.P.z(n) >= 0)
        self.last_children = (node, n)
        return self.seq("child", n)

    def m_get_subtree_data_len(self, I, node):
        return alg.raw_app("sub", I.to_num(node), sort="Int")

    def m_get_data_len(self, I, node):
        v = alg.raw_app("own", I.to_num(node), sort="Int")
        I.P.assume(I.P.z(v) >= 1)
        return v

    def a_data(self, I):
        return SymSeq("data", self.N, lambda i: ("dp", i))

    def a_outliers(self, I):
        return SymSeq("outliers", self.n_out, lambda i: ("out", i))


def registry():
    r = dsl.Registry()

    def rec(I, args, kwargs, node):
        src = kwargs.get("source", args[1] if len(args) > 1 else None)
        if src is None:
            return alg.sym("F_top")
        return alg.raw_app("F", I.to_num(src))

    r.call_contracts[RPD + ".log_count"] = rec
    r.assumed += ["Tree.roots/get_children/get_subtree_data_len/get_data_len/data/outliers (PTree model; N = sum of top-level subtree sizes + outliers)",
                  "M-LINEXT: the closed form counts the linear extensions (trusted; brute force on all trees with <= 5 points, bounded)",
                  "recursive calls of log_count by its own contract (induction over the tree)"]
    return r


def h_log_count(I, fi):
    P = I.P
    t = PTree(I)
    top = P.decide(2) == 1
    dsl.cover(I, "top" if top else "inner")
    b = alg.bound_index()
    if top:
        # wf: all data = data of the top-level subtrees + outliers
        P.assume(P.z(t.N) == P.z(alg.bigsum("", t.R, alg.raw_app("sub", alg.raw_app("root", b, sort="Int"), sort="Int")) + t.n_out))
        out = I.call_function(fi, [t], {}, force_inline=True)
        spec = lg(t.N + 1) - alg.bigsum("", t.R, lg(alg.raw_app("sub", alg.raw_app("root", b, sort="Int"), sort="Int") + 1)) \
            + alg.bigsum("", t.R, alg.raw_app("F", alg.raw_app("root", b, sort="Int")))
        P.check("log_count.top-level", P.z(I.to_num(out)) == P.z(spec), "log_count(tree) = log N! - sum_r log size(r)! + sum_r log_count(r)  [= log #orders]", kind="post")
    else:
        v = alg.sym("v", "Int")
        out = I.call_function(fi, [t], {"source": v}, force_inline=True)
        n = alg.raw_app("nch", v, sort="Int")
        sub = lambda: alg.raw_app("sub", alg.raw_app("child", b, sort="Int"), sort="Int")  # noqa
        spec = alg.bigsum("", n, alg.raw_app("F", alg.raw_app("child", b, sort="Int"))) + lg(alg.bigsum("", n, sub()) + 1) - alg.bigsum("", n, lg(sub() + 1)) \
            + lg(alg.raw_app("own", v, sort="Int") + 1)
        P.check("log_count.subtree", P.z(I.to_num(out)) == P.z(spec),
                "log_count(v) = sum_c log_count(c) + log multinomial(child subtree sizes) + log n_v!", kind="post")


def h_log_pdf(I, fi):
    P = I.P
    t = PTree(I)
    out = I.call_function(fi, [t], {}, force_inline=True)
    P.check("log_pdf.is-minus-log-count", P.z(I.to_num(out)) == P.z(-alg.sym("F_top")), "log_pdf(tree) = -log_count(tree)", kind="post")
    dsl.cover(I, "log_pdf")
