"""C09 contracts: RootPermutationDistribution.log_count / log_pdf against the closed form for the number of data orders
compatible with a tree (M-LINEXT), for any number of top-level clones / children / outliers.

   orders(subtree at v) = n_v! * multinomial(sizes of child subtrees) * prod_c orders(c)
   orders(tree)         = N! / prod_r size(r)!  *  prod_r orders(r)          (N = all data points incl. outliers)
"""
import z3

from pyvc import alg, dsl
from pyvc.alg import Num
from pyvc.builtins_model import SymSeq
from pyvc.interp import Model

RPD = "phyclone.smc.utils.RootPermutationDistribution"


def lg(x):
    return alg.raw_app("LGamma", x if isinstance(x, Num) else Num.const(x))


class PTree(Model):
    py_classes = ("Tree",)

    def __init__(self, I):
        P = I.P
        self.R = alg.sym("R", "Int")
        self.N = alg.sym("N", "Int")
        self.n_out = alg.sym("n_out", "Int")
        P.assume(z3.And(P.z(self.R) >= 0, P.z(self.n_out) >= 0))

    def seq(self, name, n):
        def facts(I_, i):
            return [I_.P.z(alg.raw_app("sub", alg.raw_app(name, i, sort="Int"), sort="Int")) >= 1]

        return SymSeq(name, n, lambda i: alg.raw_app(name, i, sort="Int"), facts)

    def a_roots(self, I):
        return self.seq("root", self.R)

    def m_get_children(self, I, node):
        n = alg.raw_app("nch", I.to_num(node), sort="Int")
        I.P.assume(I.P.z(n) >= 0)
        self.last_children = (node, n)
        return self.seq("child", n)

    def m_get_subtree_data_len(self, I, node):
        return alg.raw_app("sub", I.to_num(node), sort="Int")

    def m_get_data_len(self, I, node):
        v = alg.raw_app("own", I.to_num(node), sort="Int")
        I.P.assume(I.P.z(v) >= 1)
        return v

    def a_data(self, I):
        return SymSeq("data", self.N, lambda i: ("dp", i))

    def a_outliers(self, I):
        return SymSeq("outliers", self.n_out, lambda i: ("out", i))


def registry():
    r = dsl.Registry()

    def rec(I, args, kwargs, node):
        src = kwargs.get("source", args[1] if len(args) > 1 else None)
        if src is None:
            return alg.sym("F_top")
        return alg.raw_app("F", I.to_num(src))

    r.call_contracts[RPD + ".log_count"] = rec
    r.assumed += ["Tree.roots/get_children/get_subtree_data_len/get_data_len/data/outliers (PTree model; N = sum of top-level subtree sizes + outliers)",
                  "M-LINEXT: the closed form counts the linear extensions (trusted; brute force on all trees with <= 5 points, bounded)",
                  "recursive calls of log_count by its own contract (induction over the tree)"]
    return r


def h_log_count(I, fi):
    P = I.P
    t = PTree(I)
    top = P.decide(2) == 1
    dsl.cover(I, "top" if top else "inner")
    b = alg.bound_index()
    if top:
        # wf: all data = data of the top-level subtrees + outliers
        P.assume(P.z(t.N) == P.z(alg.bigsum("", t.R, alg.raw_app("sub", alg.raw_app("root", b, sort="Int"), sort="Int")) + t.n_out))
        out = I.call_function(fi, [t], {}, force_inline=True)
        spec = lg(t.N + 1) - alg.bigsum("", t.R, lg(alg.raw_app("sub", alg.raw_app("root", b, sort="Int"), sort="Int") + 1)) \
            + alg.bigsum("", t.R, alg.raw_app("F", alg.raw_app("root", b, sort="Int")))
        P.check("log_count.top-level", P.z(I.to_num(out)) == P.z(spec), "log_count(tree) = log N! - sum_r log size(r)! + sum_r log_count(r)  [= log #orders]", kind="post")
    else:
        v = alg.sym("v", "Int")
        out = I.call_function(fi, [t], {"source": v}, force_inline=True)
        n = alg.raw_app("nch", v, sort="Int")
        sub = lambda: alg.raw_app("sub", alg.raw_app("child", b, sort="Int"), sort="Int")  # noqa
        spec = alg.bigsum("", n, alg.raw_app("F", alg.raw_app("child", b, sort="Int"))) + lg(alg.bigsum("", n, sub()) + 1) - alg.bigsum("", n, lg(sub() + 1)) \
            + lg(alg.raw_app("own", v, sort="Int") + 1)
        P.check("log_count.subtree", P.z(I.to_num(out)) == P.z(spec),
                "log_count(v) = sum_c log_count(c) + log multinomial(child subtree sizes) + log n_v!", kind="post")


def h_log_pdf(I, fi):
    P = I.P
    t = PTree(I)
    out = I.call_function(fi, [t], {}, force_inline=True)
    P.check("log_pdf.is-minus-log-count", P.z(I.to_num(out)) == P.z(-alg.sym("F_top")), "log_pdf(tree) = -log_count(tree)", kind="post")
    dsl.cover(I, "log_pdf")


# ------------------------------------------------------------------------------------------------------------ sample / interleave_lists
#
# Ghost density: every random step adds its log-probability to rho.  Contracts of the random steps:
#   rng.shuffle(x)                 uniform over the len(x)! orders                       rho -= log len(x)!
#   interleave_lists(parts, rng)   uniform over the order-preserving interleavings       rho -= log multinomial(sizes)   (M-RIFFLE, below)
#   sample(tree, rng, source=c)    induction hypothesis: density exp(-log_count(c)), a compatible order of subtree c
# Post of sample(source=v):  the order is interleave(children's orders) followed by a shuffle of v's own data (own data after
# all descendants), and rho = -(sum_c F(c) + log multinomial(child sizes) + log own(v)!) = -log_count(v).
# Post of sample(source=None): interleave([interleave(top-level orders), shuffled outliers]), rho = -log_count(tree).
# Since distinct random outcomes give distinct final orders (the sub-orders and the interleaving pattern can be read back from
# the final order: M-INJ, trusted, exact enumeration as bounded stand-in), rho is the density of the order drawn.


class Order(Model):
    """an order expression: kind in {sub, shuffled, interleaved}; size = number of data points"""

    def __init__(self, kind, size, parts=None, what=None):
        self.kind, self.size, self.parts, self.what = kind, size, parts, what
        self.suffix = []

    def m___len__(self, I):
        tot = self.size
        for s_ in self.suffix:
            tot = tot + s_.size
        return tot

    def m_extend(self, I, other):
        if not isinstance(other, Order):
            raise Unsupported("extend with something that is not an order")
        self.suffix.append(other)


def sample_registry():
    r = dsl.Registry()
    r.assumed += ["numpy Generator.shuffle is uniform over the n! orders (A-RNG)",
                  "M-RIFFLE: interleave_lists' result is uniform over the order-preserving interleavings (structure of the function under contract; the counting step trusted, exact enumeration as bounded stand-in)",
                  "M-INJ: the final order determines the sub-orders and interleaving patterns, so the path density is the density of the order (trusted; bounded stand-in)",
                  "recursive calls of sample by its own contract (induction over the tree)"]
    return r


def h_sample(I, fi):
    from pyvc.interp import Unsupported
    P = I.P
    t = PTree(I)
    top = P.decide(2) == 1
    dsl.cover(I, "sample.top" if top else "sample.inner")
    st = {"rho": Num.const(0), "events": []}

    class Rng(Model):
        py_classes = ("Generator",)

        def m_shuffle(self, I_, x):
            if not isinstance(x, Order) or x.kind != "raw":
                raise Unsupported("shuffle of something that is not a fresh list of data points")
            x.kind = "shuffled"
            st["rho"] = st["rho"] - lg(x.size + 1)
            st["events"].append(("shuffle", x))

    rng = Rng()

    def sub_size(node):
        return alg.raw_app("sub", I.to_num(node), sort="Int")

    def rec(I_, args, kwargs, node):
        src = kwargs.get("source", args[2] if len(args) > 2 else None)
        if src is None or args[0] is not t or args[1] is not rng:
            raise Unsupported("recursive sample call outside the contract (tree, rng, source=child)")
        st["rho"] = st["rho"] - alg.raw_app("F", I_.to_num(src))
        return Order("sub", sub_size(src), what=I_.to_num(src))

    def interleave(I_, args, kwargs, node):
        parts, r_ = args[0], args[1]
        if r_ is not rng:
            raise Unsupported("interleave_lists with another generator")
        if isinstance(parts, SymSeq):
            b = alg.fresh_bound()
            e = parts.core_at(I_, b)
            if parts.tail or not isinstance(e, Order):
                raise Unsupported("interleave of a sequence that is not a sequence of orders")
            total = alg.bigsum("", parts.core_len, e.size, bound=b)
            st["rho"] = st["rho"] - (lg(total + 1) - alg.bigsum("", parts.core_len, lg(e.size + 1), bound=b))
            o = Order("interleaved", total, parts=parts)
        else:
            items = list(parts)
            if not all(isinstance(x, Order) and not x.suffix for x in items):
                raise Unsupported("interleave of a list that is not a list of orders")
            total = Num.const(0)
            for x in items:
                total = total + x.size
            lm = lg(total + 1)
            for x in items:
                lm = lm - lg(x.size + 1)
            st["rho"] = st["rho"] - (lm if items else Num.const(0))
            o = Order("interleaved", total, parts=items)
        st["events"].append(("interleave", o))
        return o

    I.registry.call_contracts[RPD + ".sample"] = rec
    I.registry.call_contracts["phyclone.smc.utils.interleave_lists"] = interleave

    # tree accessors returning fresh lists of data points
    def get_data(I_, node):
        v_ = alg.raw_app("own", I_.to_num(node), sort="Int")
        I_.P.assume(I_.P.z(v_) >= 1)
        return Order("raw", v_, what=("own", I_.to_num(node)))

    t.m_get_data = get_data
    outl = SymSeq("outliers", t.n_out, lambda i: ("out", i))
    t.a_outliers = lambda I_: outl
    I.registry.globals_override["list"] = lambda I_, x=(): Order("raw", x.length, what="outliers") if x is outl else list(I_.iterate(x))

    def loop(I_, node, fr):
        """for c in children: acc.append(sample(tree, rng, source=c)): one generic iteration, rho accumulates as a big sum"""
        seq = I_.eval(node.iter, fr)
        names = [k for k, v_ in fr.vars.items() if isinstance(v_, list) and not v_]
        if not isinstance(seq, SymSeq) or seq.tail or len(names) != 1:
            raise Unsupported("sample: unexpected loop shape")
        b = alg.fresh_bound()
        rho0, st["rho"] = st["rho"], Num.const(0)
        I_.assign_target(node.target, seq.core_at(I_, b), fr)
        I_.exec_block(node.body, fr)
        lst = fr.vars[names[0]]
        ok = isinstance(lst, list) and len(lst) == 1 and isinstance(lst[0], Order) and lst[0].kind == "sub" and (lst[0].what - I_.to_num(seq.core_at(I_, b))).is_zero()
        P.check("sample.loop-collects-the-child-orders", ok, "each iteration appends the order drawn for that child / top-level clone", kind="post")
        if not ok:
            raise PathEnd()
        delta = st["rho"]
        st["rho"] = rho0 + alg.bigsum("", seq.core_len, delta, bound=b)
        fr.vars[names[0]] = SymSeq("orders(%s)" % seq.key, seq.core_len, lambda i: Order("sub", sub_size(seq.core_at(I_, i)), what=I_.to_num(seq.core_at(I_, i))))
        st["loop_seq"] = seq

    I.registry.loop_invariants[(fi.qualname, 0)] = loop
    I.registry.loop_invariants[(fi.qualname, 1)] = loop
    b = alg.bound_index()
    if top:
        out = I.call_function(fi, [t, rng], {}, force_inline=True)
        rootsub = lambda: alg.raw_app("sub", alg.raw_app("root", b, sort="Int"), sort="Int")  # noqa
        n_tree = alg.bigsum("", t.R, rootsub())
        spec = lg(n_tree + t.n_out + 1) - alg.bigsum("", t.R, lg(rootsub() + 1)) + alg.bigsum("", t.R, alg.raw_app("F", alg.raw_app("root", b, sort="Int")))
        ok = isinstance(out, Order) and out.kind == "interleaved" and not out.suffix and isinstance(out.parts, list) and len(out.parts) == 2 \
            and out.parts[0].kind == "interleaved" and isinstance(out.parts[0].parts, SymSeq) and out.parts[0].parts.core_len.key() == t.R.key() \
            and out.parts[1].kind == "shuffled" and out.parts[1].what == "outliers"
        P.check("sample.top-structure", ok, "the order is an interleaving of (the interleaved top-level clone orders) with (the shuffled outliers): outliers anywhere", kind="post")
        P.check("sample.top-density", alg.is_identically_zero(st["rho"] + spec) or P.z(st["rho"]) == P.z(-spec),
                "log-density of the draw = -(log N! - sum_r log size(r)! + sum_r log_count(r)) = -log_count(tree)", kind="post")
    else:
        v = alg.sym("v", "Int")
        out = I.call_function(fi, [t, rng], {"source": v}, force_inline=True)
        n = alg.raw_app("nch", v, sort="Int")
        sub = lambda: alg.raw_app("sub", alg.raw_app("child", b, sort="Int"), sort="Int")  # noqa
        spec = alg.bigsum("", n, alg.raw_app("F", alg.raw_app("child", b, sort="Int"))) + lg(alg.bigsum("", n, sub()) + 1) - alg.bigsum("", n, lg(sub() + 1)) \
            + lg(alg.raw_app("own", v, sort="Int") + 1)
        ok = isinstance(out, Order) and out.kind == "interleaved" and isinstance(out.parts, SymSeq) and out.parts.core_len.key() == n.key() and len(out.suffix) == 1 \
            and out.suffix[0].kind == "shuffled" and out.suffix[0].what[0] == "own" and (out.suffix[0].what[1] - v).is_zero()
        P.check("sample.subtree-structure", ok, "the order is the interleaved orders of the children's subtrees followed by a shuffle of the clone's own data points (own data after all descendants)", kind="post")
        P.check("sample.subtree-density", alg.is_identically_zero(st["rho"] + spec) or P.z(st["rho"]) == P.z(-spec),
                "log-density of the draw = -(sum_c log_count(c) + log multinomial(child subtree sizes) + log n_v!) = -log_count(v)", kind="post")


def h_interleave(I, fi):
    """interleave_lists(lists, rng): the sentinel word holds i exactly len(lists[i]) times, is shuffled once by rng, and the k-th
    output is the next unused element of lists[word[k]] (so each list's order is preserved and every element is used once)."""
    from pyvc.interp import Frame, Unsupported
    P = I.P
    L = alg.sym("n_lists", "Int")
    P.assume(P.z(L) >= 0)
    ev = []

    class Part(Model):
        def __init__(self, i):
            self.i = I.to_num(i)

        def m___len__(self, I_):
            v = alg.raw_app("len_part", self.i, sort="Int")
            I_.P.assume(I_.P.z(v) >= 0)
            return v

        def m_pop(self, I_, k=None):
            ev.append(("pop", self.i, k))
            return ("elem-of", self.i)

    parts = {}

    def part(i):
        return parts.setdefault(I.to_num(i).key(), Part(i))

    class Lists(SymSeq):
        def getitem(self, I_, key):
            return part(key)

    lists = Lists("lists", L, part)

    class Repeat(Model):
        def __init__(self, x, n):
            self.x, self.n = x, n

    I.registry.globals_override["repeat"] = lambda I_, x, n=None: Repeat(x, n)

    class Word(Model):
        def m_extend(self, I_, r):
            ev.append(("extend", r))

        def comprehension(self, I_, node, gen, fr):
            if not I_.P.feasible(I_.P.z(L) > 0):
                ev.append(("comp-empty",))
                return ("result-of-comprehension",)
            s_ = alg.sym(I_.P.fresh_name("letter"), "Int")
            I_.P.assume(z3.And(I_.P.z(s_) >= 0, I_.P.z(s_) < I_.P.z(L)))
            sub = Frame(fr.module, fr.func, fr.cls)
            sub.vars = dict(fr.vars)
            I_.assign_target(gen.target, s_, sub)
            if gen.ifs:
                raise Unsupported("filtered comprehension over the sentinel word")
            ev.append(("comp-start", s_))
            e = I_.eval(node.elt, sub)
            ev.append(("comp-elt", e))
            return ("result-of-comprehension",)

    word = Word()
    made = []

    def empty_list(I_, node):
        if not made:
            made.append(1)
            return word
        return None

    I.registry.empty_list_model = empty_list

    class Rng(Model):
        py_classes = ("Generator",)

        def m_shuffle(self, I_, x):
            ev.append(("shuffle", x))

    rng = Rng()
    I.registry.generic_loops.add(fi.qualname)
    res = I.call_function(fi, [lists, rng], {}, force_inline=True)
    dsl.cover(I, "interleave.ran")
    gens = P.ghost.get("generic_indices", [])
    kinds = [e[0] for e in ev]
    if not gens:
        # no list at all: the (empty) word is still shuffled and consumed; nothing is popped from a list that does not exist
        P.check("interleave.no-lists", not P.feasible(P.z(L) != 0) and kinds == ["shuffle", "comp-empty"], "without lists the word stays empty", kind="post")
        return
    P.check("interleave.event-order", kinds == ["extend", "shuffle", "comp-start", "pop", "comp-elt"] and len(gens) == 1,
            "the word is filled, shuffled exactly once, and only then consumed", kind="post")
    if kinds != ["extend", "shuffle", "comp-start", "pop", "comp-elt"] or len(gens) != 1:
        return
    i = gens[0]
    r = ev[0][1]
    P.check("interleave.letter-i-len-times", isinstance(r, Repeat) and (I.to_num(r.x) - i).is_zero() and isinstance(r.n, Num) and (r.n - alg.raw_app("len_part", i, sort="Int")).is_zero(),
            "list i contributes the letter i exactly len(lists[i]) times", kind="post")
    P.check("interleave.shuffles-the-word", ev[1][1] is word, "the generator shuffles the sentinel word (uniform over its arrangements)", kind="post")
    s_ = ev[2][1]
    P.check("interleave.takes-front-of-the-chosen-list", (ev[3][1] - s_).is_zero() and ev[3][2] is not None and I.to_num(ev[3][2]).is_zero() and ev[4][1] == ("elem-of", ev[3][1]),
            "output k is the first unused element of lists[word[k]]", kind="post")
    P.check("interleave.returns-the-comprehension", res == ("result-of-comprehension",), "the result is that sequence of elements", kind="post")
