"""C14 contracts: key adequacy of the memoising wrappers, by symbolic execution of the REAL decorator code
(phyclone.utils.utils.list_of_np_cache / two_np_arr_cache, NumpyArrayListHasher, NumpyTwoArraysHasher) and of the
lru_cache'd proposal helpers, with functools.lru_cache modelled by its contract (hit <=> equal hash and == on every argument).

 - children-list cache: a call is answered from the cache only if the multiset of array digests is the same (permutations
   hit, an extra duplicate child does not), and on a miss the wrapped function receives this call's arrays;
 - pairwise cache: hit iff the unordered pair of digests is the same;
 - get_cached_new_tree: the key determines the concentration value (TreeJointDistribution / FSCRPDistribution __eq__ and
   __hash__): after an in-place change of alpha the same arguments miss and the tree is rebuilt under the new value;
 - the proposal-distribution caches carry alpha as an explicit argument taken from the kernel's distribution at call time;
 - clear_proposal_dist_caches empties exactly these three caches.
Adequacy then needs: the wrapped functions are symmetric in their children (C02: iterated truncated convolution is
commutative/associative - lemma M-CONV-SYM) and A-HASH (xxh3 digests identify arrays)."""
import z3

from pyvc import alg, dsl
from pyvc.alg import Num
from pyvc.interp import LruFn, Model, Obj, PyBuiltin, Unsupported

UT = "phyclone.utils.utils"
SA = "phyclone.smc.kernels.semi_adapted"
FA = "phyclone.smc.kernels.fully_adapted"


class Arr(Model):
    """a numpy array known by its digest (A-HASH: equal digest <=> equal bytes)"""

    def __init__(self, name):
        self.name = name
        self.dg = alg.sym("digest_" + name, "Int")

    def eq(self, I, other):
        return isinstance(other, Arr) and I.equal(self.dg, other.dg)

    def a_shape(self, I):
        # all arrays of one harness have the same shape: the case in which only the bytes can tell them apart
        return (alg.sym("shape_D", "Int"), alg.sym("shape_G", "Int"))

    def a_size(self, I):
        return alg.sym("shape_D", "Int") * alg.sym("shape_G", "Int")

    def a_ndim(self, I):
        return 2

    def a_dtype(self, I):
        return "float64"


def _int_digest(I, arr):
    # the same 64-bit digest as an unsigned integer
    I.P.assume(z3.And(I.P.z(arr.dg) >= 0, I.P.z(arr.dg) < 2 ** 64), "xxh3_64 digests are 64-bit unsigned integers")
    return arr.dg


def registry():
    r = dsl.Registry()
    r.globals_override["xxh3_64_hexdigest"] = lambda I, arr: arr.dg
    r.globals_override["xxh3_64_intdigest"] = _int_digest
    r.model_caches = True
    r.assumed += ["functools.lru_cache: a call is a hit iff some stored call has, argument by argument, the same hash and compares equal (LruFn model)",
                  "A-HASH: xxh3_64_hexdigest identifies an array's bytes", "A-FLOATHASH: hash() of two different concentration values differs", "M-CONV-SYM: the iterated truncated convolution is symmetric in its children (needed for adequacy of an order-insensitive key)"]
    return r


def wrapped_recorder(calls):
    def f(I, arrays, *a, **k):
        from pyvc.builtins_model import NpArr

        items = tuple(arrays.data) if isinstance(arrays, NpArr) else (tuple(arrays) if isinstance(arrays, (list, tuple)) else (arrays,))
        calls.append(items + tuple(a))
        return ("value-of-call", len(calls) - 1)

    return PyBuiltin("wrapped-function", f)


def h_list_cache(I, deco_factory_fi):
    P = I.P
    A, B, C = Arr("A"), Arr("B"), Arr("C")
    P.assume(z3.And(P.z(A.dg) != P.z(B.dg), P.z(A.dg) != P.z(C.dg), P.z(B.dg) != P.z(C.dg)), "three different arrays")
    calls = []
    deco = I.call_function(deco_factory_fi, [], {"maxsize": 4096}, force_inline=True)
    wrapper = I.call(deco, [wrapped_recorder(calls)], {})
    scen = P.decide(5)
    first, second, expect_hit, label = [
        ([A, B], [B, A], True, "permutation"),
        ([A], [A, A], False, "duplicate-child"),
        ([A, B], [A, A, B], False, "duplicate-among-others"),
        ([A, B], [A, C], False, "different-child"),
        ([A, B, C], [C, A, B], True, "permutation-of-three"),
    ][scen]
    dsl.cover(I, "list:" + label)
    v1 = I.call(wrapper, [list(first)], {})
    v2 = I.call(wrapper, [list(second)], {})
    P.check("list-cache.first-call-computes[%s]" % label, len(calls) >= 1 and calls[0] == tuple(first) and v1 == ("value-of-call", 0), "a miss calls the wrapped function with this call's arrays, in this call's order", kind="post")
    if expect_hit:
        P.check("list-cache.hit-on-equal-multiset[%s]" % label, len(calls) == 1 and v2 == v1, "the same multiset of children is answered from the cache", kind="post")
    else:
        P.check("list-cache.miss-on-different-multiset[%s]" % label, len(calls) == 2 and calls[1] == tuple(second) and v2 == ("value-of-call", 1),
                "a different multiset of children (an extra duplicate counts) is recomputed from this call's arrays", kind="post")


LIST_COVERS = ["list:permutation", "list:duplicate-child", "list:duplicate-among-others", "list:different-child", "list:permutation-of-three"]


def h_pair_cache(I, deco_factory_fi):
    P = I.P
    A, B, C, D = Arr("A"), Arr("B"), Arr("C"), Arr("D")
    P.assume(z3.Distinct(P.z(A.dg), P.z(B.dg), P.z(C.dg), P.z(D.dg)))
    calls = []
    deco = I.call_function(deco_factory_fi, [], {"maxsize": 1024}, force_inline=True)
    wrapper = I.call(deco, [wrapped_recorder(calls)], {})
    scen = P.decide(6)
    first, second, expect_hit, label = [((A, B), (B, A), True, "swapped"), ((A, A), (A, B), False, "equal-pair-vs-mixed"), ((A, B), (A, C), False, "different"), ((A, B), (A, B), True, "same"),
                                        ((A, A), (B, B), False, "two-pairs-of-twins"), ((A, B), (C, D), False, "disjoint-pairs")][scen]
    dsl.cover(I, "pair:" + label)
    v1 = I.call(wrapper, list(first), {})
    v2 = I.call(wrapper, list(second), {})
    P.check("pair-cache.first-call-computes[%s]" % label, len(calls) >= 1 and calls[0][:2] == first, "a miss calls the wrapped function with this call's two arrays", kind="post")
    if expect_hit:
        P.check("pair-cache.hit-on-equal-unordered-pair[%s]" % label, len(calls) == 1 and v2 == v1, "the same unordered pair is answered from the cache", kind="post")
    else:
        P.check("pair-cache.miss-on-different-pair[%s]" % label, len(calls) == 2 and calls[1][:2] == second, "a different pair is recomputed", kind="post")


def replay_pair_cache(name, model):
    """native replay of a refuted pair-cache obligation: the call history of the scenario on the REAL memoised `_convolve_two_children`, every answer compared with the
    undecorated function on fresh copies. (A digest collision between disjoint pairs cannot be constructed natively; that scenario stays without a failing input.)"""
    import re
    m = re.search(r"pair-cache\.[a-z-]+\[([a-z-]+)\]", name)
    if not m:
        return None
    import numpy as np
    from phyclone.tree.utils import _convolve_two_children as f

    hist = {"swapped": ((0, 1), (1, 0)), "equal-pair-vs-mixed": ((0, 0), (0, 1)), "different": ((0, 1), (0, 2)), "same": ((0, 1), (0, 1)),
            "two-pairs-of-twins": ((0, 4), (1, 5)), "disjoint-pairs": ((0, 1), (2, 3))}.get(m.group(1))
    if hist is None:
        return None
    for D, G in ((1, 6), (3, 11)):
        rng = np.random.default_rng(17 + D)
        arrs = [rng.normal(0, 2.0, size=(D, G)) for _ in range(4)]
        arrs += [arrs[0].copy(), arrs[1].copy()]  # twins of 0 and of 1
        if hasattr(f, "cache_clear"):
            f.cache_clear()
        for step, (i, j) in enumerate(hist):
            got = np.array(f(arrs[i], arrs[j]))
            want = np.array(f.__wrapped__(arrs[i].copy(), arrs[j].copy()))
            if got.shape != want.shape or not np.allclose(got, want, rtol=1e-10, atol=1e-10):
                return {"reproduced": True, "input": {"shape": [D, G], "history_of_array_indices": [list(h) for h in hist[: step + 1]], "arrays": "rng(17 + D).normal(0, 2); 4 = copy of 0, 5 = copy of 1"},
                        "deviation": float(np.abs(got - want).max()) if got.shape == want.shape else "shape", "cmd": "phyclone.tree.utils._convolve_two_children along the history vs __wrapped__"}
    return {"reproduced": False, "note": "the real memoised function agrees with the undecorated one along this history on two shapes"}


PAIR_COVERS = ["pair:swapped", "pair:equal-pair-vs-mixed", "pair:different", "pair:same", "pair:two-pairs-of-twins", "pair:disjoint-pairs"]


class HolderRec(Model):
    py_classes = ("TreeHolder",)

    def __init__(self, I, tree, td, pd):
        self.tree = tree
        # reads clause of the real TreeHolder setter: the densities are computed under the distribution's alpha at construction time
        self.alpha_read = I.getattr(I.getattr(td, "prior"), "alpha")


class PTree(Model):
    py_classes = ("Tree",)

    def __init__(self):
        self.ops = []

    def m_create_root_node(self, I, children=None, data=None):
        self.ops.append(("new-root", children, data))
        return 0


class PP(Model):
    py_classes = ("Particle",)

    def a_tree(self, I):
        return PTree()

    def set_built_tree(self, I, v):
        self.bt = v

    def a_built_tree(self, I):
        return getattr(self, "bt", None)


def new_tree_registry():
    r = registry()
    r.class_models["TreeHolder"] = lambda I, tree, td, pd: HolderRec(I, tree, td, pd)
    r.assumed += ["TreeHolder(tree, tree_dist, perm_dist) computes its densities under tree_dist.prior.alpha at construction time (C03 reads clause, C08 particle contracts)"]
    return r


def make_td(I, alpha):
    fs = I.repo.lookup("phyclone.tree.distributions.FSCRPDistribution")
    tj = I.repo.lookup("phyclone.tree.distributions.TreeJointDistribution")
    prior = Obj(fs)
    prior.fields.update({"_alpha": alpha, "log_alpha": alg.slog(alpha), "_c_const": alg.log_const(1000)})
    td = Obj(tj)
    td.fields["prior"] = prior
    return td


def h_new_tree(I, fi):
    P = I.P
    a1, a2 = alg.sym("alpha_1"), alg.sym("alpha_2")
    P.assume(z3.And(P.z(a1) > 0, P.z(a2) > 0))
    changed = P.decide(2) == 1
    P.assume(P.z(a1) != P.z(a2) if changed else P.z(a1) == P.z(a2))
    dsl.cover(I, "alpha-changed" if changed else "alpha-same")
    if changed:
        from pyvc.builtins_model import py_hash

        # A-FLOATHASH: different concentration values have different hashes (a 64-bit float-hash collision would give a stale hit)
        P.assume(P.z(I.to_num(py_hash(I, a1))) != P.z(I.to_num(py_hash(I, a2))), "no float-hash collision between the two concentration values")
    td = make_td(I, a1)
    pp, dp, kids = PP(), ("data-point",), ("children",)
    h1 = I.call_function(fi, [pp, dp, kids, td, None], {})
    # the run loop changes the concentration IN PLACE on the same distribution object (run.update_concentration_value)
    I.setattr(I.getattr(td, "prior"), "alpha", a2)
    h2 = I.call_function(fi, [pp, dp, kids, td, None], {})
    P.check("new-tree-cache.value-current[%s]" % ("changed" if changed else "same"), P.z(I.to_num(h2.alpha_read)) == P.z(a2),
            "the tree returned after a concentration change carries densities computed under the CURRENT concentration (the key determines alpha)", kind="post")
    lf = I.P.ghost["cached_callables"][fi.qualname]
    ev = [e[0] for e in lf.events]
    P.check("new-tree-cache.hit-iff-alpha-unchanged", ev == (["miss", "miss"] if changed else ["miss", "hit"]), "same arguments: recomputed iff the concentration changed in between", kind="post")


def h_proposal_cache(I, kernel_get_fi, cached_fi):
    """SemiAdaptedKernel / FullyAdaptedKernel.get_proposal_distribution passes the current alpha explicitly; a change of alpha misses"""
    P = I.P
    a1, a2 = alg.sym("alpha_1"), alg.sym("alpha_2")
    P.assume(z3.And(P.z(a1) > 0, P.z(a2) > 0, P.z(a1) != P.z(a2)))
    td = make_td(I, a1)
    kernel = Obj(kernel_get_fi.cls)
    kernel.fields.update({"tree_dist": td, "perm_dist": None, "_rng": None, "outlier_proposal_prob": alg.sym("o"), "log_half": -alg.sym("log2")})
    built = []
    cls_name = "SemiAdaptedProposalDistribution" if "semi" in cached_fi.qualname else "FullyAdaptedProposalDistribution"
    I.registry.class_models[cls_name] = lambda I_, dp, k, pp, outlier_proposal_prob=0.0, parent_tree=None: (built.append(I_.getattr(I_.getattr(I_.getattr(k, "tree_dist"), "prior"), "alpha")), ("proposal", len(built)))[1]
    dp, pp = ("data-point",), PP()
    p1 = I.call_function(kernel_get_fi, [kernel, dp, pp], {}, force_inline=True)
    p1b = I.call_function(kernel_get_fi, [kernel, dp, pp], {}, force_inline=True)
    I.setattr(I.getattr(td, "prior"), "alpha", a2)
    p2 = I.call_function(kernel_get_fi, [kernel, dp, pp], {}, force_inline=True)
    P.check("proposal-cache.reused-while-alpha-unchanged", p1b == p1 and len(built) == 2, "same parent / data point / alpha: the cached distribution is reused", kind="post")
    P.check("proposal-cache.rebuilt-after-alpha-change", p2 != p1 and len(built) == 2 and I.to_num(built[1]).key() == a2.key(), "after a concentration change the distribution is rebuilt under the new value", kind="post")
    dsl.cover(I, "proposal-cache")


def h_clear(I, fi):
    P = I.P
    fns = {q: I.cached_callable(I.repo.lookup(q)) for q in (SA + "._get_cached_semi_proposal_dist", FA + "._get_cached_full_proposal_dist", SA + ".get_cached_new_tree")}
    for lf in fns.values():
        lf.entries.append((("k",), (0,), "stale"))
    I.call_function(fi, [], {}, force_inline=True)
    P.check("clear.empties-the-three-proposal-caches", all(len(lf.entries) == 0 for lf in fns.values()), "clear_proposal_dist_caches clears the semi / full proposal caches and the new-tree cache", kind="post")
    dsl.cover(I, "clear")
