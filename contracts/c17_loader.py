"""C17 contracts on the pure-Python part of phyclone/data/pyclone.py (everything that is not a pandas pipeline), for any number of
mutations, samples and clusters:

 load_data (no cluster file)       the i-th entry of the loaded table becomes DataPoint(idx = i, grid of that mutation with the options given,
                                   name = the mutation id, outlier probabilities of a cluster of size 1)
 _create_clustered_data_arr        every mutation's grid goes to the list of ITS cluster; the k-th cluster id in sorted order becomes
                                   DataPoint(idx = k, sum of its members' grids, name = str(cluster id), outlier probabilities from that
                                   cluster's stored probability and size)
 _create_loaded_pyclone_data_dict  for every mutation group and every sample (in the sorted sample order) the SampleDataPoint is built from
                                   that sample's row of that mutation (ref, alt, copy numbers, error rate, tumour content); one DataPoint per mutation
                                   in the order pandas yields the groups (sorted by mutation id)

The row filters, the sorting and `group.at` are pandas operations: trusted here, exercised by the bounded stand-in."""
import z3

from pyvc import alg, dsl
from pyvc.alg import Num
from pyvc.builtins_model import SymSeq
from pyvc.interp import Model, Unsupported

PYC = "phyclone.data.pyclone"


class Tok(Model):
    def __init__(self, *what):
        self.what = what

    def eq(self, I, other):
        return isinstance(other, Tok) and other.what == self.what


class Val(Model):
    """a loaded mutation (phyclone.data.pyclone.DataPoint)"""

    def __init__(self, i, log):
        self.i, self.log = i, log

    def m_to_likelihood_grid(self, I, density, grid_size, precision=None):
        self.log.append(("grid", self.i, density, grid_size, precision))
        return ("grid-of", self.i.key() if isinstance(self.i, Num) else self.i, density, grid_size, precision)


def _k(x):
    return x.key() if isinstance(x, Num) else x


def h_load_unclustered(I, fi):
    P = I.P
    n = alg.sym("n_mutations", "Int")
    P.assume(P.z(n) >= 0)
    log, made = [], []

    class Loaded(Model):
        def m_items(self, I_):
            return SymSeq("loaded.items", n, lambda i: (("mutation-id", _k(I_.to_num(i))), Val(I_.to_num(i), log)))

    loaded, samples = Loaded(), ("samples",)
    I.registry.call_contracts[PYC + ".load_pyclone_data"] = lambda I_, a, k, nd: (log.append(("load", a[0])), (loaded, samples))[1]
    I.registry.call_contracts[PYC + ".compute_outlier_prob"] = lambda I_, a, k, nd: (("op", _k(I_.to_num(a[0])), _k(I_.to_num(a[1]))), ("opn", _k(I_.to_num(a[0])), _k(I_.to_num(a[1]))))

    class DPMod(Model):
        def m_DataPoint(self, I_, idx, value, name=None, outlier_prob=None, outlier_prob_not=None):
            made.append((idx, value, name, outlier_prob, outlier_prob_not))
            return ("DataPoint", len(made))

    class Base(Model):
        def a_base(self, I_):
            return DPMod()

    class Data(Model):
        def a_data(self, I_):
            return Base()

    I.registry.globals_override["phyclone"] = Data()
    op = alg.sym("outlier_prob")
    G, prec = alg.sym("grid_size", "Int"), alg.sym("precision", "Int")
    dens = ("density",)
    I.registry.generic_loops.add(fi.qualname)
    out = I.call_function(fi, [("file",), ("rng",), alg.sym("lo"), alg.sym("hi"), False], {"cluster_file": None, "density": dens, "grid_size": G, "outlier_prob": op, "precision": prec}, force_inline=True)
    gens = P.ghost.get("generic_indices", [])
    P.check("load.reads-the-input-once", [e for e in log if e[0] == "load"] == [("load", ("file",))], "the mutation table is loaded once from the file given", kind="post")
    P.check("load.returns-data-and-samples", isinstance(out, tuple) and len(out) == 2 and out[1] is samples and isinstance(out[0], list), "returns (data points, sample ids of the table)", kind="post")
    if not gens:
        dsl.cover(I, "load.empty")
        P.check("load.no-mutation-no-data", isinstance(out, tuple) and out[0] == [] and not made, "an empty table gives no data point", kind="post")
        return
    dsl.cover(I, "load.some")
    i = gens[0]
    ok = len(made) == 1 and isinstance(out, tuple) and out[0] == [("DataPoint", 1)]
    P.check("load.one-data-point-per-mutation", ok, "one data point per loaded mutation, in table order", kind="post")
    if not ok:
        return
    idx, value, name, o1, o0 = made[0]
    P.check("load.idx-is-the-position", (I.to_num(idx) - i).is_zero(), "the i-th mutation gets idx i", kind="post")
    P.check("load.grid-of-that-mutation", value == ("grid-of", _k(i), dens, G, prec), "its grid is that mutation's likelihood grid for the density, grid size and precision given", kind="post")
    P.check("load.name-is-the-mutation-id", name == ("mutation-id", _k(i)), "its name is the mutation id", kind="post")
    P.check("load.singleton-outlier-probabilities", o1 == ("op", _k(op), _k(Num.const(1))) and o0 == ("opn", _k(op), _k(Num.const(1))), "outlier probabilities are those of a cluster of size 1 with the prior given", kind="post")


def h_clustered(I, fi):
    P = I.P
    n = alg.sym("n_mutations", "Int")
    c = alg.sym("n_clusters", "Int")
    P.assume(z3.And(P.z(n) >= 0, P.z(c) >= 0))
    log, made, appended = [], [], []

    class Loaded(Model):
        def m_items(self, I_):
            return SymSeq("loaded.items", n, lambda i: (("mutation-id", _k(I_.to_num(i))), Val(I_.to_num(i), log)))

    class Clusters(Model):
        def getitem(self, I_, mut):
            return ("cluster-of", mut)

    class Lst(Model):
        def __init__(self, key):
            self.key = key

        def m_append(self, I_, x):
            appended.append((self.key, x))

    class Raw(Model):
        def getitem(self, I_, key):
            return Lst(key)

        def m_keys(self, I_):
            return ("raw-keys",)

        def m_items(self, I_):
            # iteration order of the dictionary itself = the order in which the clusters were first met, NOT the sorted ids
            return SymSeq("raw.items", c, lambda j: (("cluster-met-at-position", _k(I_.to_num(j))), Lst(("cluster-met-at-position", _k(I_.to_num(j))))))

        def m_values(self, I_):
            return SymSeq("raw.values", c, lambda j: Lst(("cluster-met-at-position", _k(I_.to_num(j)))))

        def for_loop_keys(self, I_):
            return SymSeq("raw.iter", c, lambda j: ("cluster-met-at-position", _k(I_.to_num(j))))

    raw = Raw()
    I.registry.globals_override["defaultdict"] = lambda I_, f=None: raw
    I.registry.globals_override["sorted"] = lambda I_, x, **k: SymSeq("sorted(%s)" % (x,), c, lambda j: ("cluster-id", _k(I_.to_num(j))))
    I.registry.globals_override["enumerate"] = lambda I_, s, start=0: SymSeq("enumerate", s.core_len, lambda j: (I_.to_num(j), s.core_at(I_, j)))

    class NP(Model):
        def m_array(self, I_, x):
            return ("array", x)

        def m_sum(self, I_, x, axis=None):
            return ("sum", x, axis if not isinstance(axis, Num) else int(axis.const_value()))

    I.registry.globals_override["np"] = NP()
    I.registry.call_contracts[PYC + ".compute_outlier_prob"] = lambda I_, a, k, nd: (("op", a[0], a[1]), ("opn", a[0], a[1]))

    class Table(Model):
        def __init__(self, name):
            self.name = name

        def getitem(self, I_, key):
            return (self.name, key)

    class DPMod(Model):
        def m_DataPoint(self, I_, idx, value, name=None, outlier_prob=None, outlier_prob_not=None):
            made.append((idx, value, name, outlier_prob, outlier_prob_not))
            return ("DataPoint", len(made))

    class Base(Model):
        def a_base(self, I_):
            return DPMod()

    class Data(Model):
        def a_data(self, I_):
            return Base()

    I.registry.globals_override["phyclone"] = Data()
    I.registry.globals_override["format_name"] = None
    G, prec, dens = alg.sym("grid_size", "Int"), alg.sym("precision", "Int"), ("density",)
    I.registry.generic_loops.add(fi.qualname)
    out = I.call_function(fi, [Table("cluster_outlier_probs"), Table("cluster_sizes"), Clusters(), dens, G, prec, Loaded()], {}, force_inline=True)
    gens = P.ghost.get("generic_indices", [])
    has_mut = not P.feasible(P.z(n) == 0)
    has_cl = not P.feasible(P.z(c) == 0)
    want = int(has_mut) + int(has_cl)
    P.check("clustered.loops", len(gens) == want, "one pass over the mutations, one over the sorted cluster ids", kind="post")
    if len(gens) != want:
        return
    if has_mut:
        dsl.cover(I, "clustered.mutation")
        i = gens[0]
        ok = len(appended) == 1 and appended[0][0] == ("cluster-of", ("mutation-id", _k(i))) and appended[0][1] == ("grid-of", _k(i), dens, G, prec)
        P.check("clustered.grid-goes-to-its-own-cluster", ok, "every mutation's grid (options as given) is appended to the list of the cluster the cluster table assigns to it", kind="post")
    if has_cl:
        dsl.cover(I, "clustered.cluster")
        j = gens[-1]
        cid = ("cluster-id", _k(j))
        ok = len(made) == 1 and isinstance(out, list) and out == [("DataPoint", 1)]
        P.check("clustered.one-data-point-per-cluster", ok, "one data point per cluster, in sorted cluster-id order", kind="post")
        if ok:
            idx, value, name, o1, o0 = made[0]
            P.check("clustered.idx-is-the-rank", (I.to_num(idx) - j).is_zero(), "the k-th cluster id in sorted order gets idx k", kind="post")
            okv = isinstance(value, tuple) and value[0] == "sum" and value[2] == 0 and isinstance(value[1], tuple) and value[1][0] == "array" and isinstance(value[1][1], Lst) and value[1][1].key == cid
            P.check("clustered.grid-is-the-sum-over-members", okv, "its grid is the element-wise sum (axis 0) of the grids collected for that cluster", kind="post")
            P.check("clustered.outlier-probabilities", o1 == ("op", ("cluster_outlier_probs", cid), ("cluster_sizes", cid)) and o0 == ("opn", ("cluster_outlier_probs", cid), ("cluster_sizes", cid)),
                    "outlier probabilities come from that cluster's stored prior and that cluster's size", kind="post")
            P.check("clustered.name-is-a-string", isinstance(name, str), "the name is a formatted string (its content is not modelled by the engine; the bounded stand-in compares it with str(cluster id))", kind="post")
    else:
        dsl.cover(I, "clustered.no-cluster")
        P.check("clustered.nothing-without-clusters", out == [] and not made, "no cluster, no data point", kind="post")


def h_loaded_dict(I, fi):
    P = I.P
    m = alg.sym("n_groups", "Int")
    s = alg.sym("n_samples", "Int")
    P.assume(z3.And(P.z(m) >= 0, P.z(s) >= 0))
    log = {"sdp": [], "dp": [], "prior": [], "sort": [], "group": [], "setidx": []}

    class At(Model):
        def __init__(self, g):
            self.g = g

        def getitem(self, I_, key):
            sample, col = key
            return Tok("cell", self.g, _k(sample) if isinstance(sample, Num) else sample, col)

    class Group(Model):
        def __init__(self, g):
            self.g = g

        def m_set_index(self, I_, col, inplace=False):
            log["setidx"].append((self.g, col, inplace))

        def a_at(self, I_):
            return At(self.g)

    class Grouped(Model):
        def for_loop(self, I_, lnode, fr):
            return SymSeq("groups", m, lambda g: (("mutation", _k(I_.to_num(g))), Group(_k(I_.to_num(g))))).for_loop(I_, lnode, fr)

    class DF(Model):
        def __init__(self, tag):
            self.tag = tag

        def m_sort_values(self, I_, by=None, ascending=True):
            log["sort"].append((self.tag, by, ascending))
            return DF("sorted")

        def m_groupby(self, I_, col, sort=True):
            log["group"].append((self.tag, col, sort))
            return Grouped()

    samples = SymSeq("samples", s, lambda j: ("sample", _k(I.to_num(j))))
    store = []

    class OD(Model):
        def setitem(self, I_, k, v):
            store.append((k, v))

    od = OD()
    I.registry.globals_override["OrderedDict"] = lambda I_: od
    I.registry.call_contracts[PYC + ".get_major_cn_prior"] = lambda I_, a, k, nd: (log["prior"].append((a, k)), (("cn", len(log["prior"])), ("mu", len(log["prior"])), ("log_pi", len(log["prior"]))))[1]
    I.registry.class_models["SampleDataPoint"] = lambda I_, a, b, cn, mu, log_pi, t: (log["sdp"].append((a, b, cn, mu, log_pi, t)), ("SDP", len(log["sdp"])))[1]
    I.registry.class_models["DataPoint"] = lambda I_, smp, pts: (log["dp"].append((smp, pts)), ("DP", len(log["dp"])))[1]
    I.registry.generic_loops.add(fi.qualname)
    I.registry.generic_store_ok = {"data"}  # keyed by the group key: pandas yields every mutation id once
    out = I.call_function(fi, [DF("input"), samples], {}, force_inline=True)
    P.check("dict.sorted-by-mutation-id-then-grouped-in-that-order", log["sort"] == [("input", "mutation_id", True)] and log["group"] == [("sorted", "mutation_id", False)],
            "the rows are sorted by mutation id and grouped without re-sorting: the order of the result does not depend on the row order of the file", kind="post")
    P.check("dict.returns-the-ordered-dict", out is od, "the ordered mapping is returned", kind="post")
    gens = P.ghost.get("generic_indices", [])
    if not P.feasible(P.z(m) > 0):
        dsl.cover(I, "dict.no-mutation")
        P.check("dict.empty", not store and not gens, "no mutation, no entry", kind="post")
        return
    g = _k(gens[0])
    ok = len(store) == 1 and store[0][0] == ("mutation", g) and store[0][1] == ("DP", 1) and len(log["dp"]) == 1 and log["dp"][0][0] is samples and log["setidx"] == [(g, "sample_id", True)]
    P.check("dict.one-entry-per-mutation", ok, "every mutation group becomes one entry: DataPoint(samples, its per-sample points), the group being indexed by sample id", kind="post")
    if len(gens) == 1:
        dsl.cover(I, "dict.no-sample")
        P.check("dict.no-sample-no-point", not log["sdp"] and not P.feasible(P.z(s) != 0), "without samples a mutation has no per-sample point", kind="post")
        return
    dsl.cover(I, "dict.mutation-and-sample")
    j = ("sample", _k(gens[1]))

    def cell(col):
        return Tok("cell", g, j, col)

    ok = len(log["sdp"]) == 1 and len(log["prior"]) == 1
    P.check("dict.one-point-per-sample", ok and log["dp"][0][1] == [("SDP", 1)], "one SampleDataPoint per sample (loop over the sample list, arbitrary sample), collected in that order into the mutation's DataPoint", kind="post")
    if not ok:
        return
    a, kw = log["prior"][0]
    err = a[3] if len(a) > 3 else kw.get("error_rate")
    P.check("dict.prior-from-that-row", len(a) >= 3 and I.equal(a[0], cell("major_cn")) is True and I.equal(a[1], cell("minor_cn")) is True and I.equal(a[2], cell("normal_cn")) is True and I.equal(err, cell("error_rate")) is True,
            "the genotype prior is computed from that sample's row of that mutation: major, minor, normal copy number and error rate", kind="post")
    sd = log["sdp"][0]
    P.check("dict.counts-and-purity-from-that-row", I.equal(sd[0], cell("ref_counts")) is True and I.equal(sd[1], cell("alt_counts")) is True and sd[2:5] == (("cn", 1), ("mu", 1), ("log_pi", 1)) and I.equal(sd[5], cell("tumour_content")) is True,
            "a = ref counts, b = alt counts, tumour content from the same row; cn / mu / log_pi from that prior", kind="post")


# ----------------------------------------------------------------------------------------------------------- the pandas part, as expression terms
#
# pandas itself is outside the engine; what CAN be pinned down on the real source is WHICH pandas expressions decide the filtering: the data frame is a term
# algebra (column, comparison, .loc[mask], groupby(..)[..].transform("size"), unique) and the postconditions compare terms. Their meaning is pandas' (trusted).


class E(Model):
    """a pandas expression term"""

    def __init__(self, *t):
        self.t = t

    def eq(self, I, other):
        if isinstance(other, E):
            return _same(self.t, other.t)
        return E("cmp", "Eq", self, other)  # `series == scalar` is an element-wise comparison

    def getitem(self, I, key):
        if isinstance(key, E) and key.t and key.t[0] in ("cmp", "rcmp", "not"):
            return E("loc", self, key)  # df[mask] and df.loc[mask] select the same rows
        return E("getitem", self, key)

    def compare(self, I, op, other):
        return E("cmp", type(op).__name__, self, other)

    def rcompare(self, I, op, other):
        return E("rcmp", type(op).__name__, other, self)

    def a_loc(self, I):
        return Loc(self)

    def invert(self, I):
        return E("not", self)

    def m_isin(self, I, other):
        return E("isin", self, other)

    def a_columns(self, I):
        return Cols(self)

    def a_iloc(self, I):
        return ILoc(self)

    def a_index(self, I):
        return E("index", self)

    def a_values(self, I):
        return E("values", self)

    def getattr(self, I, name):
        try:
            return Model.getattr(self, I, name)
        except Unsupported:
            from pyvc.interp import PyBuiltin
            # any other pandas method: kept as a term ("call", receiver, method, args, kwargs)
            return PyBuiltin("pandas." + name, lambda I_, *a, **k: E("call", self, name, tuple(a), tuple(sorted(k.items(), key=lambda kv: kv[0]))))

    def binop(self, I, op, other, swapped):
        return E("binop", type(op).__name__, other, self) if swapped else E("binop", type(op).__name__, self, other)

    def m_unique(self, I):
        return E("unique", self)

    def m_groupby(self, I, by, **k):
        return E("groupby", self, by)

    def m_transform(self, I, how):
        return E("transform", self, how)

    def m_astype(self, I, ty):
        return E("astype", self, getattr(ty, "name", ty))

    def m___len__(self, I):
        v = alg.sym("len_%d" % (abs(hash(repr(_flat(self.t)))) % 10 ** 8), "Int")
        I.P.assume(I.P.z(v) >= 0)
        return v

    def setitem(self, I, key, v):
        LOG.append(("setitem", self, key, v))


class Loc(Model):
    def __init__(self, df):
        self.df = df

    def getitem(self, I, key):
        return E("loc", self.df, key)

    def setitem(self, I, key, v):
        LOG.append(("loc-set", self.df, key, v))


class ILoc(Model):
    def __init__(self, df):
        self.df = df

    def getitem(self, I, key):
        return E("iloc", self.df, key)


class Cols(Model):
    def __init__(self, df):
        self.df = df

    def contains(self, I, name):
        from pyvc.interp import SBool
        return SBool(z3.Bool("has_column_%s" % name))

    def m___len__(self, I):
        return alg.sym("n_columns", "Int")


LOG = []


def _flat(t):
    if isinstance(t, E):
        return ("E",) + _flat(t.t)
    if isinstance(t, (tuple, list)):
        return tuple(_flat(x) for x in t)
    if isinstance(t, Num):
        return ("num", t.key())
    if isinstance(t, slice):
        return ("slice", _flat(t.start), _flat(t.stop), _flat(t.step))
    return t


def _same(a, b):
    return _flat(a) == _flat(b)


def h_filters(I, cn_fi, dup_fi, cols_fi):
    P = I.P
    del LOG[:]
    which = P.decide(3)
    df = E("df")
    I.registry.globals_override["sum"] = lambda I_, x: (alg.sym("n_true", "Int") if isinstance(x, E) else sum(I_.iterate(x)))
    P.assume(P.z(alg.sym("n_true", "Int")) >= 0)
    if which == 0:
        out = I.call_function(cn_fi, [df], {}, force_inline=True)
        dsl.cover(I, "filter.zero-copy-number")
        positive = E("cmp", "Gt", E("getitem", df, "major_cn"), 0)
        bad = E("unique", E("loc", df, (E("not", positive), "mutation_id")))
        want = E("loc", df, E("not", E("isin", E("getitem", df, "mutation_id"), bad)))
        P.check("filter.zero-copy-number", isinstance(out, E) and _same(out.t, want.t),
                "every row of a mutation that has a row without a positive major copy number is dropped (the mutation goes entirely, as the statement demands)", kind="term")
    elif which == 1:
        S = alg.sym("n_samples", "Int")
        P.assume(P.z(S) >= 1)
        samples = SymSeq("samples", S, lambda j: ("sample", j))
        out = I.call_function(dup_fi, [df, samples], {}, force_inline=True)
        dsl.cover(I, "filter.rows-per-mutation")
        size = E("transform", E("getitem", E("groupby", df, E("getitem", df, "mutation_id")), "sample_id"), "size")
        ok = isinstance(out, E) and out.t[0] == "loc" and out.t[1] is df and isinstance(out.t[2], E) and out.t[2].t[0] == "cmp" and out.t[2].t[1] == "Eq" and _same(out.t[2].t[2].t, size.t) \
            and isinstance(out.t[2].t[3], Num) and (out.t[2].t[3] - S).is_zero()
        P.check("filter.rows-per-mutation", ok, "a row is kept exactly when its mutation has as many rows as there are samples (with M-PIGEON and the excluded degenerate mix: one row in every sample)", kind="term")
    else:
        S = alg.sym("n_samples", "Int")
        P.assume(P.z(S) >= 1)

        class Samples(SymSeq):
            def getitem(self, I_, key):
                return ["s"]

        samples = Samples("samples", S, lambda j: "s")
        I.registry.globals_override["print"] = lambda I_, *a, **k: None
        I.call_function(cols_fi, [df, samples], {}, force_inline=True)
        dsl.cover(I, "filter.defaults")
        has_err = not P.feasible(z3.Not(z3.Bool("has_column_error_rate")))
        has_tc = not P.feasible(z3.Not(z3.Bool("has_column_tumour_content")))
        sets = [e for e in LOG if e[0] == "loc-set"]
        want = []
        if not has_err:
            want.append(("error_rate", 1e-3))
        if not has_tc:
            want.append(("tumour_content", 1.0))
        got = []
        for e in sets:
            key, v = e[2], e[3]
            if isinstance(key, tuple) and len(key) == 2 and isinstance(key[0], slice) and key[0] == slice(None, None, None):
                got.append((key[1], float(I.to_num(v).const_value()) if I.to_num(v).is_const() else None))
        P.check("filter.defaults", got == want and all(e[1] is df for e in sets), "a missing error_rate column is filled with 0.001 and a missing tumour_content column with 1.0, for every row; present columns are left alone", kind="term")


def h_raw_df(I, fi):
    """_create_raw_data_df: the file is parsed as a tab-separated table and, if that gives a single column, as a comma-separated one; in BOTH parses the two identifier
    columns go through the converter `str`. Assumed contract of pandas (documented: a column with a converter is handed the raw cell text, so neither type inference
    ("01" -> 1) nor NA detection ("NA", "null", "None" -> missing) touches it; `dtype=str` still applies NA detection). Finding F14."""
    P = I.P
    del LOG[:]
    calls = []

    class Pd(Model):
        def m_read_table(self, I_, *a, **k):
            calls.append(("read_table", a, k))
            return E("parsed", "tab")

        def m_read_csv(self, I_, *a, **k):
            calls.append(("read_csv", a, k))
            return E("parsed", "comma")

    I.registry.globals_override["pd"] = Pd()
    one_col = P.decide(2) == 1
    n = alg.sym("n_columns", "Int")
    P.assume(P.z(n) == 1 if one_col else P.z(n) >= 2)
    out = I.call_function(fi, [("file",)], {}, force_inline=True)
    dsl.cover(I, "raw.comma-separated" if one_col else "raw.tab-separated")

    def verbatim(c):
        kw = c[2]
        conv = kw.get("converters")
        data = getattr(conv, "data", conv)
        try:
            items = dict(data.items()) if hasattr(data, "items") else dict(data)
        except Exception:
            return False
        is_str = lambda f: f is str or getattr(f, "name", None) in ("str", "builtins.str") or getattr(f, "fn", None) is str
        return c[1] == (("file",),) and all(col in items and is_str(items[col]) for col in ("mutation_id", "sample_id")) \
            and not any(x in kw for x in ("na_values", "na_filter", "keep_default_na", "usecols", "nrows", "skiprows", "header", "index_col"))

    want = ["read_table", "read_csv"] if one_col else ["read_table"]
    P.check("raw.parse-order", [c[0] for c in calls] == want, "tab-separated parse first; the comma-separated parse exactly when the first one yields a single column", kind="post")
    P.check("raw.identifiers-verbatim", bool(calls) and all(verbatim(c) for c in calls),
            "every parse of the input file reads the mutation_id and sample_id columns through the converter `str` (raw cell text: no numeric inference, no NA detection), with no option that drops rows or columns", kind="term")
    final = E("parsed", "comma" if one_col else "tab")
    # term level: another expression over the parsed table (a stable sort of its rows, say) may be just as good - a mismatch is undecided, not a violation
    P.check("raw.result", isinstance(out, E) and _same(out.t, final.t), "the table of the last parse is returned", kind="term")


def h_load_pyclone(I, fi):
    P = I.P
    log = []
    I.registry.call_contracts[PYC + "._create_raw_data_df"] = lambda I_, a, k, n: (log.append(("raw", a[0])), E("raw"))[1]
    I.registry.call_contracts[PYC + "._remove_cn_zero_mutations"] = lambda I_, a, k, n: (log.append(("cn", a[0])), E("no-zero-cn"))[1]
    I.registry.call_contracts[PYC + "._remove_duplicated_and_partially_absent_mutations"] = lambda I_, a, k, n: (log.append(("dup", a[0], a[1])), E("complete"))[1]
    I.registry.call_contracts[PYC + "._process_required_cols_on_df"] = lambda I_, a, k, n: log.append(("cols", a[0], a[1]))
    I.registry.call_contracts[PYC + "._create_loaded_pyclone_data_dict"] = lambda I_, a, k, n: (log.append(("dict", a[0], a[1])), ("loaded",))[1]
    I.registry.globals_override["sorted"] = lambda I_, x, **k: ("sorted", x)
    I.registry.globals_override["print"] = lambda I_, *a, **k: None
    out = I.call_function(fi, [("file",)], {}, force_inline=True)
    dsl.cover(I, "load_pyclone_data")
    kinds = [e[0] for e in log]
    P.check("load.pipeline-order", kinds == ["raw", "cn", "dup", "cols", "dict"], "read -> drop zero copy number -> drop duplicated / partially absent -> defaults -> build, each once", kind="post")
    if kinds != ["raw", "cn", "dup", "cols", "dict"]:
        return
    smp = log[2][2]
    ok = isinstance(smp, tuple) and smp[0] == "sorted" and isinstance(smp[1], E) and _same(smp[1].t, E("unique", E("getitem", E("no-zero-cn"), "sample_id")).t)
    P.check("load.samples-sorted-after-the-copy-number-filter", ok, "the sample list is the sorted distinct sample ids of the rows that survive the copy-number filter", kind="term")
    P.check("load.stages-chained", log[0][1] == ("file",) and _same(log[1][1].t, E("raw").t) and _same(log[2][1].t, E("no-zero-cn").t) and _same(log[3][1].t, E("complete").t) and log[3][2] is smp
            and _same(log[4][1].t, E("complete").t) and log[4][2] is smp and isinstance(out, tuple) and out[0] == ("loaded",) and out[1] is smp,
            "every stage works on the result of the previous one with the same sample list; (loaded data, samples) is returned", kind="post")


def verify_all(ctx, repo, prop="C17"):
    dsl.verify(ctx, repo, dsl.Registry(), prop, PYC + ".load_data", h_load_unclustered, expect_covers=["load.empty", "load.some"])
    dsl.verify(ctx, repo, dsl.Registry(), prop, PYC + "._create_clustered_data_arr", h_clustered, expect_covers=["clustered.mutation", "clustered.cluster", "clustered.no-cluster"])
    dsl.verify(ctx, repo, dsl.Registry(), prop, PYC + "._create_loaded_pyclone_data_dict", h_loaded_dict, expect_covers=["dict.no-mutation", "dict.no-sample", "dict.mutation-and-sample"])
    dsl.verify(ctx, repo, dsl.Registry(), prop, [PYC + "._remove_cn_zero_mutations", PYC + "._remove_duplicated_and_partially_absent_mutations", PYC + "._process_required_cols_on_df"], h_filters,
               expect_covers=["filter.zero-copy-number", "filter.rows-per-mutation", "filter.defaults"])
    dsl.verify(ctx, repo, dsl.Registry(), prop, PYC + ".load_pyclone_data", h_load_pyclone, expect_covers=["load_pyclone_data"])
    dsl.verify(ctx, repo, dsl.Registry(), prop, PYC + "._create_raw_data_df", h_raw_df, expect_covers=["raw.tab-separated", "raw.comma-separated"])
