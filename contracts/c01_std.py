"""Contracts on the standard (unconditional) SMC sampler used for the initial tree and the burn-in (C19 / C15 run path; the same local
conditions as the conditional sampler, without a retained particle), for any N, T and threshold:

  AbstractSMCSampler.__init__        fields as given, iteration 0, num_iterations = number of data points, generator = the kernel's
  AbstractSMCSampler._propose_particle   kernel.propose_particle(data_points[iteration], parent)
  SMCSampler._init_swarm             N empty particles (None) with weight -log N; no data point is consumed
  SMCSampler._update_swarm           slot j: proposed from old particle j with the current data point; weight = normalised old log-weight j + _get_log_w(new)
  SMCSampler._resample_swarm         below the threshold: N particles drawn by multinomial(N, weights), each with weight -log N; above: unchanged
  UnconditionalSMCSampler.sample_tree    order from RootPermutationDistribution.sample(tree, own generator); one SMCSampler pass with the sampler's settings;
                                         particle i selected with probability weights[i]; its tree returned
  ParticleGibbsTreeSampler.sample_tree   = _sample_tree_from_swarm(sample_swarm(tree))"""
import z3

from pyvc import alg, dsl
from pyvc.alg import Num
from pyvc.builtins_model import SymSeq
from pyvc.interp import Model, Obj, Unsupported
from contracts.models import RngModel
from contracts.c01_smc import SMC, KernelModel, Recorder, IndexedParticle, PModel, base_registry, swarm_obj

ABS = "phyclone.smc.samplers.base.AbstractSMCSampler"
UNC = "phyclone.smc.samplers.unconditional.UnconditionalSMCSampler"
PG = "phyclone.mcmc.particle_gibbs.ParticleGibbsTreeSampler"


def std_registry():
    r = base_registry()
    r.class_models["ParticleSwarm"] = lambda I: Recorder()
    for m in ("_init_swarm", "_update_swarm", "_resample_swarm"):
        r.generic_loops.add(SMC + "." + m)
    return r


def smc_obj(I, cls):
    P = I.P
    s = Obj(cls)
    T, it, N = alg.sym("T", "Int"), alg.sym("it", "Int"), alg.sym("N", "Int")
    P.assume(z3.And(P.z(N) >= 1, P.z(T) >= 1, P.z(it) >= 0, P.z(it) < P.z(T)))
    kern = KernelModel()
    s.fields.update({"kernel": kern, "num_particles": N, "num_iterations": T, "iteration": it, "resample_threshold": alg.sym("thr"), "_rng": kern.rng,
                     "data_points": SymSeq("sigma", T, lambda i: ("data-point", i)), "swarm": swarm_obj(I, I.repo, "old", N)})
    return s, T, it, N, kern


def h_abs_init(I, fi, prop_fi):
    P = I.P
    s = Obj(fi.cls)
    kern = KernelModel()
    T = alg.sym("T", "Int")
    P.assume(P.z(T) >= 0)
    dps = SymSeq("sigma", T, lambda i: ("data-point", i))
    N, thr = alg.sym("N", "Int"), alg.sym("thr")
    I.call_function(fi, [s, dps, kern, N], {"resample_threshold": thr}, force_inline=True)
    f = s.fields
    P.check("smc.init-fields", f.get("data_points") is dps and f.get("kernel") is kern and f.get("num_particles") is N and f.get("resample_threshold") is thr and f.get("swarm") is None
            and f.get("_rng") is kern.rng and I.equal(f.get("iteration"), 0) is True and (I.to_num(f.get("num_iterations")) - T).is_zero(),
            "a sampler starts at iteration 0 with one iteration per data point, no swarm, and draws from the kernel's generator", kind="post")
    it = alg.sym("it", "Int")
    P.assume(z3.And(P.z(it) >= 0, P.z(it) < P.z(T)))
    f["iteration"] = it
    parent = PModel("parent")
    out = I.call_function(prop_fi, [s, parent], {}, force_inline=True)
    dsl.cover(I, "smc.init")
    ok = len(kern.calls) == 1 and kern.calls[0][1] is parent and out is kern.calls[0][2] and isinstance(kern.calls[0][0], tuple) and I.equal(kern.calls[0][0][1], it) is True
    P.check("smc.propose-current-data-point", ok, "_propose_particle asks the kernel for a particle placing data_points[iteration] on the given parent", kind="post")


def h_std_init(I, fi):
    P = I.P
    s, T, it, N, kern = smc_obj(I, fi.cls)
    s.fields["iteration"] = 0
    s.fields["swarm"] = None
    I.call_function(fi, [s], {}, force_inline=True)
    dsl.cover(I, "std.init")
    new = s.fields["swarm"]
    ok = isinstance(new, Recorder) and len(new.adds) == 1 and len(new.adds[0][2]) == 1
    P.check("std.init.N-empty-particles", ok and new.adds[0][1] is None and (I.to_num(new.adds[0][0]) + alg.slog(N)).is_zero(), "the first swarm holds N empty particles (loop over range(N), arbitrary slot) with weight -log N", kind="post")
    P.check("std.init.no-data-point-consumed", I.equal(s.fields["iteration"], 0) is True and not kern.calls, "no data point is consumed and nothing is proposed", kind="post")


def h_std_update(I, fi):
    P = I.P
    s, T, it, N, kern = smc_obj(I, fi.cls)
    last = P.decide(2) == 1
    P.assume(P.z(it) == P.z(T) - 1 if last else P.z(it) < P.z(T) - 1)
    dsl.cover(I, "std.update-last" if last else "std.update-not-last")
    I.call_function(fi, [s], {}, force_inline=True)
    new = s.fields["swarm"]
    ok = isinstance(new, Recorder) and len(new.adds) == 1 and len(new.adds[0][2]) == 1 and len(kern.calls) == 1
    P.check("std.update.one-proposal-per-slot", ok, "a fresh swarm with one proposed particle per old slot (arbitrary slot j)", kind="post")
    if not ok:
        return
    w, p, g = new.adds[0]
    j = g[0]
    dp, parent, prop = kern.calls[0]
    P.check("std.update.parent-is-old-slot-j", isinstance(parent, IndexedParticle) and not P.feasible(P.z(parent.i) != P.z(j)) and p is prop, "slot j is proposed from old particle j and that particle is stored", kind="post")
    P.check("std.update.data-point", isinstance(dp, tuple) and I.equal(dp[1], it) is True, "the proposal places data_points[iteration]", kind="post")
    b = alg.bound_index()
    Z = alg.bigsum("uw(old)", N, alg.sexp(alg.raw_app("uw_old", b)))
    corr = (prop.a_log_w(I) - prop.a_log_p(I) + prop.a_log_p_one(I)) if last else prop.a_log_w(I)
    P.check("std.update.weight", P.z(I.to_num(w)) == P.z(alg.raw_app("uw_old", j) - alg.slog(Z) + corr), "new weight = normalised old log-weight of slot j + _get_log_w(new particle)", kind="post")


def h_std_resample(I, fi):
    P = I.P
    s, T, it, N, kern = smc_obj(I, fi.cls)
    before = s.fields["swarm"]
    I.call_function(fi, [s], {}, force_inline=True)
    after = s.fields["swarm"]
    if after is before:
        dsl.cover(I, "std.resample-not-triggered")
        P.check("std.resample.unchanged", not kern.rng.draws, "above the threshold the swarm is untouched and nothing is drawn", kind="post")
        return
    dsl.cover(I, "std.resample-triggered")
    P.check("std.resample.multinomial-over-the-weights", kern.rng.draws == ["multinomial"], "the multiplicities are one multinomial(N, weights) draw from the sampler's generator", kind="post")
    ok = isinstance(after, Recorder) and all((I.to_num(w) + alg.slog(N)).is_zero() for w, _, _ in after.adds) and all(isinstance(p, IndexedParticle) for _, p, _ in after.adds)
    P.check("std.resample.uniform-weights-old-particles", ok, "every resampled particle is an old particle with weight -log N", kind="post")


def h_unconditional(I, init_fi, fi):
    P = I.P
    s = Obj(fi.cls)
    kern = KernelModel()
    N, thr = alg.sym("N", "Int"), alg.sym("thr")
    I.call_function(init_fi, [s, kern], {"num_particles": N, "resample_threshold": thr}, force_inline=True)
    P.check("unconditional.init", s.fields.get("kernel") is kern and s.fields.get("num_particles") is N and s.fields.get("resample_threshold") is thr and s.fields.get("_rng") is kern.rng,
            "the sampler keeps the kernel, N, the threshold and the kernel's generator", kind="post")
    log = []
    I.registry.call_contracts["phyclone.smc.utils.RootPermutationDistribution.sample"] = lambda I_, a, k, n: (log.append(("sigma", a[0], a[1])), ("sigma-of", a[0]))[1]
    M = alg.sym("M", "Int")
    P.assume(P.z(M) >= 1)

    class Sw(Model):
        def a_weights(self, I_):
            b = alg.bound_index()
            I_.P.assume(I_.P.z(alg.bigsum("", M, alg.raw_app("w", b))) == 1, "swarm weights are normalised (swarm contract)")
            return SymSeq("weights", M, lambda i: alg.raw_app("w", i), lambda I2, i: [I2.P.z(alg.raw_app("w", i)) >= 0])

        def a_particles(self, I_):
            return SymSeq("particles", M, lambda i: Part(i))

    class Part(Model):
        def __init__(self, i):
            self.i = i

        def a_tree(self, I_):
            return ("tree-of-particle", self.i)

    class SamplerRec(Model):
        def __init__(self, a, k):
            log.append(("construct", a, k))

        def m_sample(self, I_):
            log.append(("sample",))
            return Sw()

    I.registry.class_models["SMCSampler"] = lambda I_, *a, **k: SamplerRec(a, k)
    tree = ("current-tree",)
    out = I.call_function(fi, [s, tree], {}, force_inline=True)
    dsl.cover(I, "unconditional")
    ok = len(log) == 3 and log[0] == ("sigma", tree, kern.rng) and log[1][0] == "construct" and log[2] == ("sample",)
    P.check("unconditional.one-pass", ok, "the order is drawn by RootPermutationDistribution.sample(tree, own generator); exactly one SMC sampler is built and run", kind="post")
    if ok:
        a, k = log[1][1], log[1][2]
        P.check("unconditional.sampler-arguments", a[0] == ("sigma-of", tree) and a[1] is kern and k.get("num_particles") is N and k.get("resample_threshold") is thr, "it uses the drawn order, the sampler's kernel, N and threshold", kind="post")
    lr = kern.rng.total_log_rho(I)
    P.check("unconditional.selection", isinstance(out, tuple) and out[0] == "tree-of-particle" and P.z(lr) == P.z(alg.slog(alg.raw_app("w", out[1]))), "particle i is selected with probability weights[i] and its tree is returned", kind="post")


def h_pg_sample_tree(I, fi):
    P = I.P
    s = Obj(fi.cls)
    log = []
    I.registry.call_contracts[PG + ".sample_swarm"] = lambda I_, a, k, n: (log.append(("swarm", a[1])), ("swarm-of", a[1]))[1]
    I.registry.call_contracts[PG + "._sample_tree_from_swarm"] = lambda I_, a, k, n: (log.append(("select", a[1])), ("selected-from", a[1]))[1]
    tree = ("current-tree",)
    out = I.call_function(fi, [s, tree], {}, force_inline=True)
    dsl.cover(I, "pg.sample_tree")
    P.check("pg.sample_tree", log == [("swarm", tree), ("select", ("swarm-of", tree))] and out == ("selected-from", ("swarm-of", tree)),
            "sample_tree = select a particle of the conditional SMC swarm grown from the current tree", kind="post")


def verify_all(ctx, repo, prop):
    dsl.verify(ctx, repo, std_registry(), prop + ".smc", [ABS + ".__init__", ABS + "._propose_particle"], h_abs_init, expect_covers=["smc.init"])
    dsl.verify(ctx, repo, std_registry(), prop + ".smc", SMC + "._init_swarm", h_std_init, expect_covers=["std.init"])
    dsl.verify(ctx, repo, std_registry(), prop + ".smc", SMC + "._update_swarm", h_std_update, expect_covers=["std.update-last", "std.update-not-last"])
    dsl.verify(ctx, repo, std_registry(), prop + ".smc", SMC + "._resample_swarm", h_std_resample, expect_covers=["std.resample-triggered", "std.resample-not-triggered"])
    dsl.verify(ctx, repo, std_registry(), prop + ".smc", [UNC + ".__init__", UNC + ".sample_tree"], h_unconditional, expect_covers=["unconditional"])
    dsl.verify(ctx, repo, std_registry(), prop + ".smc", PG + ".sample_tree", h_pg_sample_tree, expect_covers=["pg.sample_tree"])
