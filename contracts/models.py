"""Models (= assumed contracts) of the collaborators that Layer-2 functions see: the random generator with its density
accumulator rho, the abstract tree value, data points, particles, the joint distribution.

Everything here is trusted base for the properties that use it unless a Layer-1 obligation proves the same fact about
the real Tree methods; each model names the real methods whose behaviour it assumes."""
import ast

import z3

from pyvc import alg
from pyvc.alg import Num
from pyvc.builtins_model import NpArr, SymSeq, _lgamma, _num_or_int
from pyvc.interp import VC, Model, Obj, PathInfeasible, PyRaise, SBool, Unsupported


# ----------------------------------------------------------------------------------------------------------- RNG + rho


class UDraw(Model):
    """One uniform(0,1) draw.  Comparisons narrow its interval; its mass factor is the final interval length."""

    def __init__(self, rng):
        self.rng = rng
        self.lo = Num.const(0)
        self.hi = Num.const(1)

    def compare(self, I, op, c):
        if not isinstance(op, (ast.Lt, ast.LtE)):
            raise Unsupported("uniform draw compared with %s" % type(op).__name__)
        c = I.to_num(c)
        if I.P.branch(I.compare(ast.LtE(), c, self.lo)):
            return False
        if I.P.branch(I.compare(ast.GtE(), c, self.hi)):
            return True
        if I.P.decide(2) == 0:
            self.hi = c
            return True
        self.lo = c
        return False

    def mass(self):
        return self.hi - self.lo


class RngModel(Model):
    """numpy.random.Generator by its outcome classes; P.ghost['log_rho'] accumulates the log-probability of the path.
    Assumed contract: random() uniform on [0,1); integers(lo,hi) uniform; choice(a) uniform; choice(a,k,replace=False)
    (used as a set) uniform over k-subsets; multinomial(1,q) picks i with probability q_i; shuffle uniform."""

    py_classes = ("Generator",)

    def __init__(self, name="rng"):
        self.name = name
        self.udraws = []
        self.log_rho = Num.const(0)
        self.draws = []

    def add(self, I, logp):
        self.log_rho = self.log_rho + logp

    def total_log_rho(self, I):
        t = self.log_rho
        for u in self.udraws:
            m = u.mass()
            if not m.is_const():
                I.P.assume(I.P.z(m) > 0)
            elif m.const_value() <= 0:
                raise PathInfeasible()
            t = t + alg.slog(m)
        return t

    def m_random(self, I):
        u = UDraw(self)
        self.udraws.append(u)
        self.draws.append("random")
        return u

    def m_integers(self, I, low, high=None):
        if high is None:
            low, high = 0, low
        n = I.to_num(high) - I.to_num(low)
        I.P.check("rng.integers-nonempty[%s]" % I.site(None), I.P.z(n) > 0 if not n.is_const() else bool(n.const_value() > 0), "integers(low, high) needs low < high")
        k = alg.sym(I.P.fresh_name("k"), "Int")
        I.P.assume(z3.And(I.P.z(k) >= I.P.z(I.to_num(low)), I.P.z(k) < I.P.z(I.to_num(high))))
        self.add(I, -alg.slog(n))
        self.draws.append("integers")
        return k

    def m_choice(self, I, a, size=None, replace=True):
        self.draws.append("choice")
        if size is None:
            if isinstance(a, SymSeq):
                n = a.length
                I.P.check("rng.choice-nonempty[%s]" % I.site(None), I.P.z(n) > 0, "choice from an empty sequence raises ValueError")
                i = a.fresh_index(I, "pick")
                self.add(I, -alg.slog(n))
                return a.at(I, i)
            items = I.iterate(a)
            if len(items) == 0:
                I.P.vcs.append(VC("rng.choice-nonempty[%s]" % I.site(None), "refuted", "choice from an empty list"))
                raise PyRaise("ValueError: a cannot be empty")
            j = I.P.decide(len(items)) if len(items) > 1 else 0
            self.add(I, -alg.log_const(len(items)))
            return items[j]
        if replace:
            raise Unsupported("choice with replacement")
        if not isinstance(a, SymSeq):
            raise Unsupported("choice(k) from a concrete list")
        k = I.to_num(size)
        n = a.length
        I.P.check("rng.choice-k-le-n[%s]" % I.site(None), I.P.z(k) <= I.P.z(n), "sample larger than population raises ValueError")
        self.add(I, -(_lg(I, n + 1) - _lg(I, k + 1) - _lg(I, n - k + 1)))
        return SymSubset(a, k, I.P.fresh_name("S"))

    def m_multinomial(self, I, n, pvals):
        self.draws.append("multinomial")
        if isinstance(n, int) and n == 1:
            return OneHot(self, pvals)
        if isinstance(pvals, SymSeq):
            key = I.P.fresh_name("mult")

            def facts(I_, i):
                return [I_.P.z(alg.raw_app(key, i, sort="Int")) >= 0]

            return SymSeq(key, pvals.length, lambda i: alg.raw_app(key, i, sort="Int"), facts)
        return Multiplicities(I, n, pvals)

    def m_shuffle(self, I, x):
        self.draws.append("shuffle")
        n = len(x) if isinstance(x, list) else None
        if n is None:
            raise Unsupported("shuffle of a symbolic sequence")
        self.add(I, -I.to_num(_lgamma(I, n + 1)))
        # the order after the shuffle is an arbitrary permutation: represented by keeping the multiset, order unknown
        I.P.ghost.setdefault("shuffled", []).append(x)


def _lg(I, x):
    return I.to_num(_lgamma(I, x))


class OneHot(Model):
    def __init__(self, rng, pvals):
        self.rng = rng
        self.pvals = pvals

    def m_argmax(self, I):
        q = self.pvals
        if isinstance(q, SymSeq):
            i = q.fresh_index(I, "draw")
            self.rng.add(I, alg.slog(I.to_num(q.at(I, i))))
            return i
        items = q.data if isinstance(q, NpArr) else list(q)
        j = I.P.decide(len(items)) if len(items) > 1 else 0
        qj = I.to_num(items[j])
        if qj.is_const():
            if qj.const_value() <= 0:
                raise PathInfeasible()
        else:
            I.P.assume(I.P.z(qj) > 0)
        self.rng.add(I, alg.slog(qj))
        return j


class Multiplicities(Model):
    """multinomial(n, w): a vector of non-negative counts summing to n (density not needed by the local contracts)."""

    def __init__(self, I, n, w):
        self.n = n
        self.w = w
        self.key = I.P.fresh_name("mult")

    def iterate(self, I):
        if isinstance(self.w, NpArr):
            out = []
            tot = Num.const(0)
            for k in range(len(self.w.data)):
                m = alg.sym("%s[%d]" % (self.key, k), "Int")
                I.P.assume(I.P.z(m) >= 0)
                out.append(m)
                tot = tot + m
            I.P.assume(I.P.z(tot) == I.P.z(I.to_num(self.n)))
            return out
        raise Unsupported("multiplicities over a symbolic swarm")


class SymSubset(Model):
    """A k-element subset of a symbolic sequence (result of choice(seq, k, replace=False) used as a set)."""

    def __init__(self, of, size, key):
        self.of = of
        self.size = size
        self.key = key

    def m___len__(self, I):
        return self.size

    def iterate(self, I):
        raise Unsupported("iteration over a symbolic subset")


# ----------------------------------------------------------------------------------------------------------- data point


class DataPointModel(Model):
    py_classes = ("DataPoint",)

    def __init__(self, name="dp"):
        self.name = name
        self.idx = alg.sym("idx_" + name, "Int")

    def a_idx(self, I):
        return self.idx

    def a_grid_size(self, I):
        return (alg.sym("D", "Int"), alg.sym("G", "Int"))

    def a_outlier_prob(self, I):
        return alg.sym("op_" + self.name)

    def a_outlier_prob_not(self, I):
        return alg.sym("opn_" + self.name)

    def a_outlier_marginal_prob(self, I):
        return alg.sym("omp_" + self.name)

    def a_name(self, I):
        return self.idx

    def eq(self, I, other):
        return isinstance(other, DataPointModel) and other.name == self.name

    def hash(self, I):
        return alg.raw_app("hash", self.idx, sort="Int")


# ----------------------------------------------------------------------------------------------------------- abstract tree (Layer 2)


class AbsTree(Model):
    """Abstract value of a phyclone Tree as seen by the proposal / kernel layer.

    A tree is either `base` (an opaque tree T with R top-level clones, K clones, n_out outliers) or the result of one
    placement of a data point on a copy of such a base (or of the empty tree):  exist(r) / new(S) / outlier.

    Assumed contracts on the real Tree methods (Layer 1): copy() yields an equal, unshared tree; create_root_node returns
    a name not used by any clone and different from the outlier name -1, makes the listed top-level clones its children
    and holds the listed data; add_data_point_to_node / add_data_point_to_outliers place the point at the named place and
    change nothing else; labels maps each data idx to the place holding it; nodes / roots list the clone names / top-level
    clone names; get_number_of_children counts children."""

    py_classes = ("Tree",)

    def __init__(self, base, placement=None):
        self.base = base  # BaseTree or None (empty tree)
        self.placement = placement  # None | ('exist', node) | ('new', node, children) | ('outlier',)
        self.dp = None

    # --- constructors of the algebra
    def m_copy(self, I):
        t = AbsTree(self.base, self.placement)
        t.dp = self.dp
        return t

    def _place(self, I, dp, placement):
        if self.placement is not None:
            raise Unsupported("abstract tree: second placement on the same tree value")
        self.placement = placement
        self.dp = dp

    def m_create_root_node(self, I, children=None, data=None):
        n = alg.sym(I.P.fresh_name("newnode"), "Int")
        zn = I.P.z(n)
        I.P.assume(zn >= 0)
        if self.base is not None:
            I.P.assume(z3.Not(self.base.nodes_seq(I).contains(I, n).e))
        kids = children if children is not None else []
        data = data if data is not None else []
        if len(data) > 1:
            raise Unsupported("abstract tree: create_root_node with several data points")
        self._place(I, data[0] if data else None, ("new", n, kids))
        return n

    def m_add_data_point_to_node(self, I, dp, node):
        if self.placement is not None and self.placement[0] == "new" and self.dp is None and I.equal(node, self.placement[1]) is True:
            self.dp = dp
            return None
        self._place(I, dp, ("exist", node))

    def m_add_data_point_to_outliers(self, I, dp):
        self._place(I, dp, ("outlier",))

    # --- observers
    def a_outlier_node_name(self, I):
        return -1

    def a_root_node_name(self, I):
        return "root"

    def a_labels(self, I):
        return LabelsMap(self)

    def a_nodes(self, I):
        if self.placement is None or self.placement[0] != "new":
            return self.base.nodes_seq(I) if self.base is not None else []
        raise Unsupported("abstract tree: nodes of a tree with a new clone")

    def a_roots(self, I):
        if self.placement is None or self.placement[0] != "new":
            return self.base.roots_seq(I) if self.base is not None else []
        raise Unsupported("abstract tree: roots of a tree with a new clone")

    def a_node_last_added_to(self, I):
        p = self.placement
        if p is None:
            raise Unsupported("node_last_added_to of a base tree")
        return {"exist": lambda: p[1], "new": lambda: p[1], "outlier": lambda: -1}[p[0]]()

    def m_get_number_of_children(self, I, node):
        p = self.placement
        if p is not None and p[0] == "new" and I.equal(node, p[1]) is True:
            kids = p[2]
            from pyvc.builtins_model import py_len

            return py_len(I, kids)
        if self.base is None:
            raise Unsupported("children of a node of the empty tree")
        return self.base.nch(I, node)


class LabelsMap(Model):
    def __init__(self, tree):
        self.tree = tree

    def getitem(self, I, idx):
        t = self.tree
        if t.dp is not None:
            e = I.equal(idx, t.dp.idx)
            if e is True or (e is not False and I.P.branch(e)):
                p = t.placement
                return -1 if p[0] == "outlier" else p[1]
        if t.base is None:
            I.P.vcs.append(VC("key-present[labels@%s]" % I.site(None), "refuted", "label of a data point not in the tree"))
            raise PyRaise("KeyError")
        return t.base.label(I, idx)


class BaseTree:
    """Opaque parent tree T: observers are uninterpreted, with the structural facts every well-formed tree satisfies."""

    def __init__(self, I, name="T"):
        self.name = name
        self.R = alg.sym("R_" + name, "Int")
        self.K = alg.sym("K_" + name, "Int")
        self.n_out = alg.sym("nout_" + name, "Int")
        P = I.P
        zR, zK, zo = P.z(self.R), P.z(self.K), P.z(self.n_out)
        P.assume(z3.And(zR >= 0, zK >= zR, zo >= 0, z3.Implies(zK > 0, zR > 0)), "wf(%s): 0<=R<=K, K>0 => R>0, n_out>=0" % name)

    def roots_seq(self, I):
        nodes = self.nodes_seq(I)

        def elem(i):
            return alg.raw_app("root_" + self.name, i, sort="Int")

        def facts(I_, i):
            r = elem(i)
            return [nodes.contains(I_, r).e, I_.P.z(r) >= 0]

        return SymSeq("roots(%s)" % self.name, self.R, elem, facts)

    def nodes_seq(self, I):
        return SymSeq("nodes(%s)" % self.name, self.K, lambda i: alg.raw_app("node_" + self.name, i, sort="Int"))

    def nch(self, I, node):
        v = alg.raw_app("nch_" + self.name, I.to_num(node), sort="Int")
        I.P.assume(I.P.z(v) >= 0)
        return v

    def label(self, I, idx):
        return alg.raw_app("label_" + self.name, I.to_num(idx), sort="Int")


class ParentParticle(Model):
    """A particle as the proposal sees it: tree_roots / tree_nodes of its tree (assumed contract on Particle/TreeHolder
    setters: they copy roots and nodes of the very tree they hold; proved separately in the C01/C08 particle contracts)."""

    py_classes = ("Particle",)

    def __init__(self, base):
        self.base = base

    def a_tree_roots(self, I):
        return self.base.roots_seq(I)

    def a_tree_nodes(self, I):
        return self.base.nodes_seq(I)
