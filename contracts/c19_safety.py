"""C19 contracts beyond the safety obligations generated inside the other properties' harnesses:
ParticleGibbsSubtreeSampler.sample_tree up to the subtree choice (the all-outlier corner), AbstractSMCSampler.sample's
establishment of the resampling precondition (in contracts/c01_pg.py)."""
import z3

from pyvc import alg, dsl
from pyvc.builtins_model import SymSeq
from pyvc.interp import Model, Obj, PathEnd, Unsupported
from contracts.models import RngModel

SUB = "phyclone.mcmc.particle_gibbs.ParticleGibbsSubtreeSampler"


class STree(Model):
    py_classes = ("Tree",)

    def __init__(self, I, some_outliers):
        self.n_in = alg.sym("n_in", "Int")
        I.P.assume(I.P.z(self.n_in) >= 0)
        self.some_outliers = some_outliers
        self.log = []

    def a_outlier_node_name(self, I):
        return -1

    def a_labels(self, I):
        return SLabels(self)

    def m_get_parent(self, I, node):
        self.log.append(("get_parent", node))
        raise PathEnd()  # the contract covers the move up to the choice of the subtree


class SLabels(Model):
    def __init__(self, t):
        self.t = t

    def m_values(self, I):
        def facts(I_, i):
            return [I_.P.z(alg.raw_app("lab", i, sort="Int")) >= 0]

        # labels of the points held by clones, followed by one representative outlier label when the tree has outliers
        # (the loop body does nothing for an outlier label, so one stands for any number of them)
        return SymSeq("labels.values", self.t.n_in, lambda i: alg.raw_app("lab", i, sort="Int"), facts, tail=[-1] if self.t.some_outliers else [])


def registry(log):
    r = dsl.Registry()

    def whole_tree(I, args, kwargs, node):
        log.append(("whole-tree-update", args[1]))
        return ("pg-result",)

    r.call_contracts["phyclone.mcmc.particle_gibbs.ParticleGibbsTreeSampler.sample_tree"] = whole_tree
    r.assumed += ["ParticleGibbsTreeSampler.sample_tree by its contracts (C01)"]
    return r


def h_subtree_prefix(I, fi):
    P = I.P
    log = I.registry.log
    del log[:]
    some_out = P.decide(2) == 1
    t = STree(I, some_out)
    no_clones = P.decide(2) == 1
    P.assume(P.z(t.n_in) == 0 if no_clones else P.z(t.n_in) >= 1)
    dsl.cover(I, ("all-outliers" if no_clones else "has-clones") + ("+outliers" if some_out else ""))
    s = Obj(fi.cls)
    rng = RngModel()
    s.fields.update({"_rng": rng, "kernel": None, "num_particles": 2, "resample_threshold": 0.5})
    try:
        out = I.call_function(fi, [s, t], {}, force_inline=True)
    except PathEnd:
        P.check("C19.subtree.choice-from-clone-labels", (not no_clones) and "choice" in rng.draws, "with at least one point in a clone the subtree root is drawn from a non-empty list", kind="post")
        raise
    P.check("C19.subtree.all-outlier-tree-handled", no_clones and out == ("pg-result",) and not rng.draws and log and log[0][1] is t,
            "with every point an outlier nothing is drawn from an empty list: the move falls back to the whole-tree update", kind="post")


SUB_COVERS = ["all-outliers", "has-clones", "all-outliers+outliers", "has-clones+outliers"]


def h_correct_weights(I, fi):
    """ParticleGibbsSubtreeSampler._correct_weights, for any number of particles and any number of outliers in a particle's subtree: every particle's subtree is grafted
    under `parent` into a COPY of the remaining tree, every outlier of the subtree is moved into that copy's outlier list (no data point is lost), the copy is updated and
    becomes the particle's tree; the weight changes by (log_p_one of the full tree) - (log_p_one of the subtree); the new swarm holds one entry per particle.
    (That the resulting move targets the posterior is NOT claimed - recorded finding K01.)"""
    from pyvc.alg import Num
    P = I.P
    n = alg.sym("n_particles", "Int")
    P.assume(P.z(n) >= 1)
    log = []

    def k_(x):
        return x.key() if isinstance(x, Num) else x

    class SubTree(Model):
        def __init__(self, j):
            self.j = j

        def a_outliers(self, I_):
            m = alg.raw_app("n_sub_outliers", self.j, sort="Int")
            I_.P.assume(I_.P.z(m) >= 0)
            return SymSeq("subtree.outliers", m, lambda t: ("outlier", k_(self.j), k_(I_.to_num(t))))

    class NewTree(Model):
        def __init__(self, of):
            self.of = of

        def m_add_subtree(self, I_, sub, parent=None):
            log.append(("graft", self, sub, parent))

        def m_add_data_point_to_outliers(self, I_, dp):
            log.append(("outlier", self, dp))

        def m_update(self, I_):
            log.append(("update", self))

    class Rest(Model):
        def m_copy(self, I_):
            t = NewTree(self)
            log.append(("copy", t))
            return t

        def m_add_subtree(self, I_, sub, parent=None):
            log.append(("graft-into-the-original", sub))

        def m_add_data_point_to_outliers(self, I_, dp):
            log.append(("outlier-into-the-original", dp))

        def m_update(self, I_):
            log.append(("update-of-the-original",))

    class Part(Model):
        def __init__(self, j):
            self.j, self.cur = j, SubTree(j)

        def a_tree(self, I_):
            return self.cur

        def set_tree(self, I_, v):
            log.append(("set-tree", self, v))
            self.cur = v

        def a_log_p_one(self, I_):
            log.append(("read-log_p_one", self, self.cur))
            return alg.raw_app("lp1_full" if isinstance(self.cur, NewTree) else "lp1_sub", self.j)

    class Swarm(Model):
        def a_particles(self, I_):
            return SymSeq("particles", n, lambda j: Part(I_.to_num(j)))

        def a_unnormalized_log_weights(self, I_):
            return SymSeq("weights", n, lambda j: alg.raw_app("w", I_.to_num(j)))

    class NewSwarm(Model):
        def m_add_particle(self, I_, w, p):
            log.append(("add-particle", w, p))

    ns = NewSwarm()
    I.registry.class_models["ParticleSwarm"] = lambda I_, *a, **k: ns
    rest, parent = Rest(), ("parent",)
    sampler = Obj(fi.cls)
    I.registry.generic_loops.add(fi.qualname)
    out = I.call_function(fi, [sampler, parent, Swarm(), rest], {}, force_inline=True)
    dsl.cover(I, "correct_weights")
    gens = P.ghost.get("generic_indices", [])
    P.check("subtree.correct.returns-the-new-swarm", out is ns, "a new swarm is built and returned", kind="post")
    bad = [e for e in log if e[0] in ("graft-into-the-original", "outlier-into-the-original", "update-of-the-original")]
    P.check("subtree.correct.remaining-tree-untouched", not bad, "the remaining tree is only copied (every particle gets its own copy)", kind="post")
    copies = [e for e in log if e[0] == "copy"]
    grafts = [e for e in log if e[0] == "graft"]
    sets = [e for e in log if e[0] == "set-tree"]
    adds = [e for e in log if e[0] == "add-particle"]
    ok = len(gens) >= 1 and len(copies) == 1 and len(grafts) == 1 and len(sets) == 1 and len(adds) == 1
    if not ok:
        P.check("subtree.correct.one-tree-per-particle", False, "per particle: one copy, one graft, one assignment, one swarm entry", kind="post")
        return
    j = gens[0]
    nt = copies[0][1]
    part = sets[0][1]
    P.check("subtree.correct.one-tree-per-particle", grafts[0][1] is nt and isinstance(grafts[0][2], SubTree) and (grafts[0][2].j - j).is_zero() and grafts[0][3] == parent and sets[0][2] is nt
            and (part.j - j).is_zero() and adds[0][2] is part,
            "particle j's own subtree is grafted under the given parent into its copy, the copy becomes particle j's tree, particle j enters the new swarm", kind="post")
    outs = [e for e in log if e[0] == "outlier"]
    if len(gens) >= 2:
        dsl.cover(I, "correct_weights.outlier")
        t = gens[1]
        P.check("subtree.correct.outliers-moved-to-the-full-tree", len(outs) == 1 and outs[0][1] is nt and outs[0][2] == ("outlier", j.key(), t.key()),
                "every outlier of the particle's subtree is added to the outliers of the full tree (no data point is lost)", kind="post")
    else:
        dsl.cover(I, "correct_weights.no-outlier")
        P.check("subtree.correct.no-outlier-nothing-added", not outs, "a subtree without outliers adds none", kind="post")
    order = [e[0] for e in log if e[0] in ("copy", "graft", "outlier", "update", "set-tree", "read-log_p_one", "add-particle")]
    upd = [i for i, e in enumerate(order) if e == "update"]
    ok_order = len(upd) == 1 and order.index("graft") < upd[0] < order.index("set-tree") and all(i < upd[0] for i, e in enumerate(order) if e == "outlier") \
        and order.count("read-log_p_one") == 2 and order.index("read-log_p_one") < order.index("copy") and order.index("set-tree") < len(order) - 1 - order[::-1].index("read-log_p_one") < order.index("add-particle")
    P.check("subtree.correct.updated-before-use", ok_order, "the subtree's density is read before anything changes, the full tree is updated after grafting and moving the outliers and before it is "
            "assigned, its density is read after the assignment", kind="post")
    w = adds[0][1]
    want = alg.raw_app("w", j) - alg.raw_app("lp1_sub", j) + alg.raw_app("lp1_full", j)
    P.check("subtree.correct.weight", isinstance(w, Num) and (w - want).is_zero(), "new weight = old weight - log_p_one(subtree) + log_p_one(full tree)", kind="post")


CORRECT_COVERS = ["correct_weights", "correct_weights.outlier", "correct_weights.no-outlier"]
