"""C19 contracts beyond the safety obligations generated inside the other properties' harnesses:
ParticleGibbsSubtreeSampler.sample_tree up to the subtree choice (the all-outlier corner), AbstractSMCSampler.sample's
establishment of the resampling precondition (in contracts/c01_pg.py)."""
import z3

from pyvc import alg, dsl
from pyvc.builtins_model import SymSeq
from pyvc.interp import Model, Obj, PathEnd, Unsupported
from contracts.models import RngModel

SUB = "phyclone.mcmc.particle_gibbs.ParticleGibbsSubtreeSampler"


class STree(Model):
    py_classes = ("Tree",)

    def __init__(self, I, some_outliers):
        self.n_in = alg.sym("n_in", "Int")
        I.P.assume(I.P.z(self.n_in) >= 0)
        self.some_outliers = some_outliers
        self.log = []

    def a_outlier_node_name(self, I):
        return -1

    def a_labels(self, I):
        return SLabels(self)

    def m_get_parent(self, I, node):
        self.log.append(("get_parent", node))
        raise PathEnd()  # the contract covers the move up to the choice of the subtree


class SLabels(Model):
    def __init__(self, t):
        self.t = t

    def m_values(self, I):
        def facts(I_, i):
            return [I_.P.z(alg.raw_app("lab", i, sort="Int")) >= 0]

        # labels of the points held by clones, followed by one representative outlier label when the tree has outliers
        # (the loop body does nothing for an outlier label, so one stands for any number of them)
        return SymSeq("labels.values", self.t.n_in, lambda i: alg.raw_app("lab", i, sort="Int"), facts, tail=[-1] if self.t.some_outliers else [])


def registry(log):
    r = dsl.Registry()

    def whole_tree(I, args, kwargs, node):
        log.append(("whole-tree-update", args[1]))
        return ("pg-result",)

    r.call_contracts["phyclone.mcmc.particle_gibbs.ParticleGibbsTreeSampler.sample_tree"] = whole_tree
    r.assumed += ["ParticleGibbsTreeSampler.sample_tree by its contracts (C01)"]
    return r


def h_subtree_prefix(I, fi):
    P = I.P
    log = I.registry.log
    del log[:]
    some_out = P.decide(2) == 1
    t = STree(I, some_out)
    no_clones = P.decide(2) == 1
    P.assume(P.z(t.n_in) == 0 if no_clones else P.z(t.n_in) >= 1)
    dsl.cover(I, ("all-outliers" if no_clones else "has-clones") + ("+outliers" if some_out else ""))
    s = Obj(fi.cls)
    rng = RngModel()
    s.fields.update({"_rng": rng, "kernel": None, "num_particles": 2, "resample_threshold": 0.5})
    try:
        out = I.call_function(fi, [s, t], {}, force_inline=True)
    except PathEnd:
        P.check("C19.subtree.choice-from-clone-labels", (not no_clones) and "choice" in rng.draws, "with at least one point in a clone the subtree root is drawn from a non-empty list", kind="post")
        raise
    P.check("C19.subtree.all-outlier-tree-handled", no_clones and out == ("pg-result",) and not rng.draws and log and log[0][1] is t,
            "with every point an outlier nothing is drawn from an empty list: the move falls back to the whole-tree update", kind="post")


SUB_COVERS = ["all-outliers", "has-clones", "all-outliers+outliers", "has-clones+outliers"]
