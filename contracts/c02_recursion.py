"""C02 contracts (real arithmetic, A-REAL): the convolution recursion of phyclone/tree/utils.py, utils/math.py and
tree/tree_node.py against its recursive specification, for any number of samples D, grid points G and children:

   csum(a, b)[d, k]   = sum_{j <= k} exp a[d, j] * exp b[d, k - j]
   _np_conv_dims(c1, c2)[d, k]              = log csum(c2, c1)[d, k]          (direct path, G < 1000)
   fft_convolve_two_children(c1, c2)[d, k]  = log csum(c1, c2)[d, k]          (FFT path; equal to the former by conv_comm, Lean)
   _sub_compute_S(log_D)[d, k]              = log sum_{j <= k} exp log_D[d, j]
   compute_log_D(children)                  = fold of the pairwise convolution over the children (0, 1, n children)
   update_node_from_child_r_vals            : log_r = log_p (leaf)  /  log_r = log_p + log_S(children), log_p untouched
M-REC (trusted) turns this recursion into the flat sum over index assignments of the property statement."""
import z3

from pyvc import alg, dsl
from pyvc.alg import Num
from pyvc.builtins_model import Arr2, SymSeq
from pyvc.interp import Model, Obj, Unsupported, VC

TU = "phyclone.tree.utils"
MA = "phyclone.utils.math"
TN = "phyclone.tree.tree_node.TreeNode"


def dims(I):
    P = I.P
    D, G = alg.sym("D", "Int"), alg.sym("G", "Int")
    P.assume(z3.And(P.z(D) >= 1, P.z(G) >= 1))
    d, k = alg.sym("d", "Int"), alg.sym("k", "Int")
    P.assume(z3.And(P.z(d) >= 0, P.z(d) < P.z(D), P.z(k) >= 0, P.z(k) < P.z(G)))
    return D, G, d, k


def csum(a_name, b_name, d, k):
    j = alg.fresh_bound()
    return alg.bigsum("", k + 1, alg.sexp(alg.raw_app(a_name, d, j)) * alg.sexp(alg.raw_app(b_name, d, k - j)), bound=j)


def h_conv(I, direct_fi, fft_fi):
    P = I.P
    D, G, d, k = dims(I)
    c1, c2 = Arr2.symbolic("c1", D, G), Arr2.symbolic("c2", D, G)
    which = P.decide(2)
    dsl.cover(I, "direct" if which == 0 else "fft")
    out = I.call_function(direct_fi if which == 0 else fft_fi, [c1, c2], {}, force_inline=True)
    spec = alg.slog(csum("c2", "c1", d, k)) if which == 0 else alg.slog(csum("c1", "c2", d, k))
    P.check("conv.%s.shape" % ("direct" if which == 0 else "fft"), isinstance(out, Arr2) and out.D.key() == D.key() and out.G.key() == G.key(), "result has the shape of the inputs (truncated to G grid points)", kind="post")
    got = I.to_num(out.at(I, d, k))
    P.check("conv.%s.value" % ("direct" if which == 0 else "fft"), bool(alg.is_identically_zero(got - spec)),
            "out[d,k] = log sum_{j<=k} exp(x[d,j]) exp(y[d,k-j]) for every sample d and grid index k (max-normalisation cancels; the <=0 -> 1e-100 store is a no-op in the reals) "
            "[exact normal-form identity]", kind="post")
    P.check("conv.%s.inputs-untouched" % ("direct" if which == 0 else "fft"), c1.writes == 0 and c2.writes == 0, "the two input arrays are not written", kind="post")


def h_dispatch(I, fi):
    """_convolve_two_children (undecorated body): direct convolution below 1000 grid points, FFT from 1000 on; either way the result is
    what that routine returns for (child_1, child_2) in this order (both = the truncated convolution: h_conv + conv_comm)."""
    P = I.P
    G = alg.sym("G", "Int")
    P.assume(P.z(G) >= 1)
    small = P.decide(2) == 1
    P.assume(P.z(G) < 1000 if small else P.z(G) >= 1000)
    dsl.cover(I, "dispatch.direct" if small else "dispatch.fft")

    class A(Model):
        py_classes = ("ndarray",)

        def __init__(self, nm):
            self.nm = nm

        def a_shape(self, I_):
            return (alg.sym("D", "Int"), G)

        def a_size(self, I_):
            # numpy: size = number of elements = D * G (the route must not depend on the number of samples)
            return alg.sym("D", "Int") * G

        def a_ndim(self, I_):
            return 2

    P.assume(P.z(alg.sym("D", "Int")) >= 1)
    a, b = A("child_1"), A("child_2")
    calls = []
    I.registry.call_contracts[TU + "._np_conv_dims"] = lambda I_, ar, k, n: (calls.append(("direct", ar[0], ar[1])), ("conv-direct",))[1]
    I.registry.call_contracts[MA + ".fft_convolve_two_children"] = lambda I_, ar, k, n: (calls.append(("fft", ar[0], ar[1])), ("conv-fft",))[1]
    out = I.call_function(fi, [a, b], {}, force_inline=True)
    want = ("direct", a, b) if small else ("fft", a, b)
    P.check("dispatch.route", calls == [want] and out == (("conv-direct",) if small else ("conv-fft",)),
            "grids with fewer than 1000 points use the direct convolution, larger ones the FFT convolution; exactly one of them runs, on (child_1, child_2), and its result is returned", kind="post")


def replay_dispatch(name, model):
    """native replay of a refuted dispatch obligation: the real `_convolve_two_children` body with the two routines replaced by recorders, over array shapes on both
    sides of the switch and with few / many samples; the route may depend on the grid length only"""
    if "dispatch" not in name:
        return None
    import numpy as np
    import phyclone.tree.utils as TUm

    body = getattr(TUm._convolve_two_children, "__wrapped__", TUm._convolve_two_children)
    saved = (TUm._np_conv_dims, TUm.fft_convolve_two_children)
    bad = []
    try:
        for D, G in ((1, 5), (1, 999), (1, 1000), (2, 1001), (10, 101), (12, 500), (40, 30), (3, 999), (1, 1)):
            calls = []
            TUm._np_conv_dims = lambda a, b: (calls.append("direct"), np.zeros_like(a))[1]
            TUm.fft_convolve_two_children = lambda a, b: (calls.append("fft"), np.zeros_like(a))[1]
            body(np.zeros((D, G)), np.zeros((D, G)))
            want = ["direct"] if G < 1000 else ["fft"]
            if calls != want:
                bad.append({"samples": D, "grid_size": G, "routines_run": calls, "expected": want})
    finally:
        TUm._np_conv_dims, TUm.fft_convolve_two_children = saved
    if bad:
        return {"reproduced": True, "input": bad[0], "all_failing_shapes": bad[:6], "cmd": "_convolve_two_children.__wrapped__(zeros((samples, grid)), zeros((samples, grid))) with both routines replaced by recorders"}
    return {"reproduced": False, "note": "on the nine shapes tried the route depends on the grid length only"}


def h_sub_compute_S(I, fi):
    P = I.P
    D, G, d, k = dims(I)
    log_D = Arr2.symbolic("logD", D, G)
    out = I.call_function(fi, [log_D], {}, force_inline=True)
    j = alg.fresh_bound()
    spec = alg.slog(alg.bigsum("", k + 1, alg.sexp(alg.raw_app("logD", d, j)), bound=j))
    P.check("prefix-sum.value", isinstance(out, Arr2) and bool(alg.is_identically_zero(I.to_num(out.at(I, d, k)) - spec)), "log_S[d,k] = log sum_{j<=k} exp log_D[d,j] for every row", kind="post")
    P.check("prefix-sum.all-rows", getattr(out, "all_rows_defined_by_loop", False), "every row of the result is defined by the loop over the samples", kind="post")
    P.check("prefix-sum.input-untouched", log_D.writes == 0, "log_D is not written (it may be a cached array)", kind="post")
    dsl.cover(I, "prefix-sum")


class ArrId(Model):
    """an array as an opaque value (for the structural contracts above the element level)"""

    py_classes = ("ndarray",)

    def __init__(self, term):
        self.term = term
        self.writes = 0

    def a_shape(self, I):
        return (alg.sym("D", "Int"), alg.sym("G", "Int"))

    def eq(self, I, other):
        return isinstance(other, ArrId) and self.term == other.term


def h_compute_log_D(I, fi):
    P = I.P
    n = alg.sym("n_children", "Int")
    case = P.decide(3)
    P.assume([P.z(n) == 0, P.z(n) == 1, P.z(n) >= 2][case])
    dsl.cover(I, ["no-children", "one-child", "many-children"][case])
    kids = SymSeq("children", n, lambda i: ArrId(("child", i.key())))
    calls = []

    def conv(I_, args, kwargs, node):
        a, b = args
        calls.append((a, b))
        return ArrId(("conv", a.term, b.term))

    I.registry.call_contracts[TU + "._convolve_two_children"] = conv
    state = {}

    def loop(I_, node, fr):
        # loop contract: conv_res == ITER(j) where ITER(2) = conv(c0, c1), ITER(j+1) = conv(c_j, ITER(j))
        P_ = I_.P
        first = fr.vars["conv_res"]
        P_.check("log_D.first-pair", isinstance(first, ArrId) and first.term == ("conv", ("child", Num.const(0).key()), ("child", Num.const(1).key())), "the fold starts with conv(child 0, child 1)", kind="post")
        mode = P_.decide(2)
        if mode == 0:
            j = alg.sym(P_.fresh_name("j"), "Int")
            P_.assume(z3.And(P_.z(j) >= 2, P_.z(j) < P_.z(n)))
            fr.vars["conv_res"] = ArrId(("ITER", j.key()))
            I_.assign_target(node.target, j, fr)
            dsl.cover(I_, "log_D.step")
            I_.exec_block(node.body, fr)
            r = fr.vars["conv_res"]
            P_.check("log_D.step", isinstance(r, ArrId) and r.term == ("conv", ("child", j.key()), ("ITER", j.key())), "iteration j folds child j into the running convolution", kind="post")
            from pyvc.interp import PathEnd

            raise PathEnd()
        fr.vars["conv_res"] = ArrId(("ITER", n.key()))

    I.registry.loop_invariants[(fi.qualname, 0)] = loop
    out = I.call_function(fi, [kids], {}, force_inline=True)
    if case == 0:
        P.check("log_D.no-children", out == 0, "no children: neutral element", kind="post")
    elif case == 1:
        P.check("log_D.one-child", isinstance(out, ArrId) and out.term == ("child", Num.const(0).key()), "one child: its own vector", kind="post")
    else:
        P.check("log_D.many", isinstance(out, ArrId) and out.term == ("ITER", n.key()), "n children: the fold over all n children (loop runs j = 2..n-1)", kind="post")


def h_update_node(I, fi):
    P = I.P
    D, G, d, k = dims(I)
    node = Obj(fi.cls)
    log_p, log_r = Arr2.symbolic("logp", D, G), Arr2.symbolic("logr_old", D, G)
    node.fields.update({"log_p": log_p, "log_r": log_r, "node_id": 0, "data_points": set()})
    leaf = P.decide(2) == 1
    dsl.cover(I, "leaf" if leaf else "inner")
    log_s = Arr2.symbolic("logS", D, G)
    log_s.frozen = True  # compute_log_S is memoised: its result must not be written
    seen = []

    def clS(I_, args, kwargs, node_):
        seen.append(args[0])
        return log_s

    I.registry.call_contracts[TU + ".compute_log_S"] = clS
    kids = [] if leaf else SymSeq("child_r", alg.sym("n_children", "Int"), lambda i: ArrId(("child_r", i.key())))
    if not leaf:
        P.assume(P.z(alg.sym("n_children", "Int")) >= 1)
    I.call_function(fi, [node, kids], {}, force_inline=True)
    r = node.fields["log_r"]
    P.check("update-node.same-objects", r is log_r and node.fields["log_p"] is log_p, "log_r is updated in place; log_p is the same object", kind="post")
    P.check("update-node.log_p-untouched", log_p.writes == 0, "log_p is not written", kind="post")
    want = alg.raw_app("logp", d, k) if leaf else alg.raw_app("logp", d, k) + alg.raw_app("logS", d, k)
    P.check("update-node.value[%s]" % ("leaf" if leaf else "inner"), bool(alg.is_identically_zero(I.to_num(r.at(I, d, k)) - want)),
            "log_r = log_p for a node without children, log_r = log_p + log_S(children's log_r) otherwise", kind="post")
    if not leaf:
        P.check("update-node.children-passed", len(seen) == 1 and seen[0] is kids, "compute_log_S receives exactly the given children vectors", kind="post")


def h_compute_log_S(I, fi):
    """compute_log_S (undecorated body) with the REAL _sub_compute_S: the array returned by compute_log_D may be an entry of the
    pairwise-convolution cache (frozen): it must not be written (C14 frame obligation), and the result is its prefix log-sum"""
    P = I.P
    n = alg.sym("n_children", "Int")
    empty = P.decide(2) == 1
    P.assume(P.z(n) == 0 if empty else P.z(n) >= 1)
    dsl.cover(I, "S-empty" if empty else "S-nonempty")
    kids = SymSeq("children", n, lambda i: ArrId(("child", i.key())))
    log = []
    D, G, d, k = dims(I)
    logD = Arr2.symbolic("logD", D, G)
    logD.frozen = True
    I.registry.call_contracts[TU + ".compute_log_D"] = lambda I_, a, k_, nd: (log.append(("D", a[0])), logD)[1]
    out = I.call_function(fi, [kids], {}, force_inline=True)
    if empty:
        P.check("log_S.no-children", out == 0 or (isinstance(out, Num) and out.is_zero()), "no children: 0", kind="post")
        return
    j = alg.fresh_bound()
    spec = alg.slog(alg.bigsum("", k + 1, alg.sexp(alg.raw_app("logD", d, j)), bound=j))
    P.check("log_S.composition", log == [("D", kids)] and isinstance(out, Arr2) and bool(alg.is_identically_zero(I.to_num(out.at(I, d, k)) - spec)),
            "log_S[d,k] = log sum_{j<=k} exp(compute_log_D(children)[d,j])", kind="post")
    P.check("log_S.cached-convolution-not-mutated", logD.writes == 0 and out is not logD, "the array obtained from compute_log_D (possibly a cache entry) is neither written nor returned as the result object", kind="post")


def verify_all(ctx, repo, prop):
    dsl.verify(ctx, repo, dsl.Registry(), prop, [TU + "._np_conv_dims", MA + ".fft_convolve_two_children"], h_conv, expect_covers=["direct", "fft"])
    dsl.verify(ctx, repo, dsl.Registry(), prop, TU + "._convolve_two_children", h_dispatch, expect_covers=["dispatch.direct", "dispatch.fft"], concretise=replay_dispatch)
    dsl.verify(ctx, repo, _generic(TU + "._sub_compute_S"), prop, TU + "._sub_compute_S", h_sub_compute_S, expect_covers=["prefix-sum"])
    dsl.verify(ctx, repo, dsl.Registry(), prop, TU + ".compute_log_D", h_compute_log_D, expect_covers=["no-children", "one-child", "many-children", "log_D.step"])
    dsl.verify(ctx, repo, _generic(TU + "._sub_compute_S"), prop, TU + ".compute_log_S", h_compute_log_S, expect_covers=["S-empty", "S-nonempty"])
    dsl.verify(ctx, repo, dsl.Registry(), prop, TN + ".update_node_from_child_r_vals", h_update_node, expect_covers=["leaf", "inner"])
    ctx.trust("numpy axioms: np.convolve(a,b)[k] = sum_{j<=k} a[j] b[k-j]; scipy fftconvolve(axes=[-1]) = row-wise np.convolve (exact in the reals); np.logaddexp.accumulate = log prefix sums; "
              "np.max(axis=-1, keepdims) returns some per-row value (only its cancellation is used); element-wise exp / log / +=, out=, boolean-mask store (Arr2 model)",
              "independent-iterations rule for the row loop of _sub_compute_S (the body writes only row i of the fresh output array)",
              "conv_comm (Lean, lemmas/lean/MGeom.lean): csum(a, b) = csum(b, a) - the direct and the FFT path return the same value",
              "compute_log_S / _convolve_two_children are verified as their undecorated bodies; the memoising wrappers are C14's obligations")


def _generic(qual):
    r = dsl.Registry()
    r.generic_loops.add(qual)
    return r
