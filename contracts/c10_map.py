"""C10 contracts on phyclone/process_trace/map.py: the two (max,+) dynamic-programming loops, for any grid size and any
number of samples, by witness-based inductive loop invariants on the real loop bodies.

 _compute_log_D_n(child, prev):  result[i] = max_{0<=j<=i} child[j] + prev[i-j],  0 <= choice[i] <= i attains it
 compute_log_S(children):        log_S[d,j] = max_{j'<=j} log_D[d,j'],            0 <= S_choice[d,j] <= j attains it
 get_map_ccfs:                   reported value = max_idx / (G - 1)  (a grid point)

Arrays are abstracted to the cells the loop body touches (`CellArray`): a read of a cell that was not written in this iteration
yields the invariant's value for that cell; a write to any cell other than the ones the contract names is reported.
M-MAXPLUS (optimal substructure => the traceback attains the global maximum) is trusted; feasibility and optimality of the
complete pipeline are covered by the bounded stand-in."""
import ast

import z3

from pyvc import alg, dsl
from pyvc.alg import Num
from pyvc.builtins_model import SymSeq
from pyvc.interp import Model, Obj, PathEnd, SBool, Unsupported, VC, _Break, _Continue

MAP = "phyclone.process_trace.map"
NEG_INF = float("-inf")


def key_of(idx):
    if isinstance(idx, slice):
        return "slice"
    if isinstance(idx, tuple):
        return tuple(key_of(x) for x in idx)
    if isinstance(idx, Num):
        return idx.key()
    return Num.const(idx).key()


class CellArray(Model):
    py_classes = ("ndarray",)

    def __init__(self, name, shape, read):
        self.name, self.shape, self.read = name, shape, read
        self.cells = {}
        self.writes = []

    def a_shape(self, I):
        return self.shape

    def m___len__(self, I):
        return self.shape[0]

    def getitem(self, I, idx):
        k = key_of(idx)
        if k in self.cells:
            return self.cells[k]
        return self.read(I, idx)

    def setitem(self, I, idx, v):
        self.cells[key_of(idx)] = v
        self.writes.append(idx)

    def binop(self, I, op, other, swapped):
        return self  # `np.ones(n) * -np.inf`: the initial contents are given by the `read` function of the harness


def h_log_D_n(I, fi):
    P = I.P
    G = alg.sym("G", "Int")
    P.assume(P.z(G) >= 1)
    i = alg.sym("i", "Int")
    P.assume(z3.And(P.z(i) >= 0, P.z(i) < P.z(G)))
    jw = alg.sym("j_star", "Int")  # witness: an arbitrary split of the budget i
    P.assume(z3.And(P.z(jw) >= 0, P.z(jw) <= P.z(i)))
    child = SymSeq("child", G, lambda t: alg.raw_app("child", t))
    prev = SymSeq("prev", G, lambda t: alg.raw_app("prev", t))

    def val(j):
        return alg.raw_app("child", j) + alg.raw_app("prev", i - j)

    st = {"fresh": True, "r": None, "c": None, "seen": z3.BoolVal(False)}

    def read_result(I_, idx):
        if not (I_.to_num(idx) - i).is_zero():
            raise Unsupported("result[] read at an index other than the current one")
        return NEG_INF if st["fresh"] else st["r"]

    def read_choice(I_, idx):
        if not (I_.to_num(idx) - i).is_zero():
            raise Unsupported("choice[] read at an index other than the current one")
        return 0 if st["fresh"] else st["c"]

    result = CellArray("result", (G,), read_result)
    choice = CellArray("choice", (G,), read_choice)
    made = []
    I.registry.globals_override["np"] = NpStub(lambda: made.append(1) or (choice if len(made) == 1 else result))

    def inv(j_done, seen):
        """after j = 0..j_done-1: result[i] attained by choice[i] < j_done, and >= the witness if already seen"""
        if st["fresh"]:
            return z3.And(P.z(j_done) == 0, z3.Not(seen))
        r = result.cells.get(key_of(i), st["r"])
        c = choice.cells.get(key_of(i), st["c"])
        zr, zc = P.z(I.to_num(r)), P.z(I.to_num(c))
        return z3.And(P.z(j_done) >= 1, zc >= 0, zc < P.z(j_done), zr == P.z(val(I.to_num(c))), z3.Implies(seen, zr >= P.z(val(jw))))

    def outer(I_, node, fr):
        inner = [s_ for s_ in node.body if isinstance(s_, ast.For)]
        if len(inner) != 1 or len(node.body) != 1:
            raise Unsupported("_compute_log_D_n: expected exactly the loop over j inside the loop over i")
        I_.assign_target(node.target, i, fr)  # arbitrary budget i (rows are independent: the body touches index i only)
        P.check("log_D_n.inv-on-entry", inv(Num.const(0), z3.BoolVal(False)), "before the inner loop nothing is selected for budget i", kind="post")
        mode = P.decide(2)
        jn = inner[0]
        jseq = I_.eval(jn.iter, fr)  # the REAL iteration space of the inner loop
        lo = I_.to_num(jseq.core_at(I_, Num.const(0)))
        hi = lo + jseq.length
        P.check("log_D_n.inner-range-starts-at-0", P.z(lo) == 0, "candidates start at j = 0", kind="post")
        if mode == 0:
            fresh = P.decide(2) == 1
            st["fresh"] = fresh
            j = alg.sym(P.fresh_name("j"), "Int")
            P.assume(z3.And(P.z(j) >= P.z(lo), P.z(j) < P.z(hi)))
            seen = z3.BoolVal(False)
            if not fresh:
                st["r"], st["c"] = alg.sym(P.fresh_name("res_i")), alg.sym(P.fresh_name("choice_i"), "Int")
                seen = z3.Bool(P.fresh_name("seen"))
            else:
                P.assume(P.z(j) == 0)
            st["seen"] = seen
            P.assume(inv(j, seen))
            result.cells.clear(), choice.cells.clear()
            del result.writes[:], choice.writes[:]
            I_.assign_target(jn.target, j, fr)
            dsl.cover(I_, "log_D_n.step")
            I_.exec_block(jn.body, fr)
            for arr in (result, choice):
                for w in arr.writes:
                    P.check("log_D_n.frame[%s]" % arr.name, (I_.to_num(w) - i).is_zero(), "only cell i of %s is written while budget i is processed" % arr.name, kind="post")
            st_fresh_before = st["fresh"]
            st["fresh"] = st_fresh_before and key_of(i) not in result.cells
            seen_after = z3.Or(seen, P.z(j) == P.z(jw))
            P.check("log_D_n.inv-preserved", inv(j + 1, seen_after), "after candidate j: result[i] = child[c] + prev[i-c] with c = choice[i] <= j, and >= every candidate seen", kind="post")
            raise PathEnd()
        # after the inner loop: every j of its real range has been processed; the witness has been seen iff it lies in that range
        P.assume(P.z(hi) > P.z(lo), "the inner loop runs at least once (i >= 0)") if P.feasible(P.z(hi) > P.z(lo)) else None
        st["fresh"] = False
        st["r"], st["c"] = alg.sym("res_final"), alg.sym("choice_final", "Int")
        P.assume(inv(hi, z3.And(P.z(jw) >= P.z(lo), P.z(jw) < P.z(hi))))
        result.cells.clear(), choice.cells.clear()
        dsl.cover(I_, "log_D_n.after")

    I.registry.loop_invariants[(fi.qualname, 0)] = outer
    out = I.call_function(fi, [child, prev], {}, force_inline=True)
    ch, res = out
    P.check("log_D_n.returns-arrays", ch is choice and res is result, "returns (choice, result)", kind="post")
    r, c = I.to_num(res.getitem(I, i)), I.to_num(ch.getitem(I, i))
    P.check("log_D_n.max-plus", z3.And(P.z(r) >= P.z(val(jw)), P.z(r) == P.z(val(c)), P.z(c) >= 0, P.z(c) <= P.z(i)),
            "result[i] >= child[j*] + prev[i-j*] for an arbitrary j* <= i, and is attained by choice[i] in [0, i]", kind="post")


class NpStub(Model):
    """numpy as far as _compute_log_D_n / compute_log_S (map.py) use it: zeros / ones create the harness' cell arrays"""

    def __init__(self, make):
        self.make = make

    def m_zeros(self, I, shape, dtype=None):
        return self.make()

    def m_ones(self, I, shape, dtype=None):
        return self.make()

    def a_inf(self, I):
        return float("inf")


LOGDN_COVERS = ["log_D_n.step", "log_D_n.after"]


def h_log_S(I, fi):
    P = I.P
    D, G = alg.sym("D", "Int"), alg.sym("G", "Int")
    P.assume(z3.And(P.z(D) >= 1, P.z(G) >= 1))
    d = alg.sym("d", "Int")
    P.assume(z3.And(P.z(d) >= 0, P.z(d) < P.z(D)))
    jw, jq = alg.sym("j_star", "Int"), alg.sym("j_query", "Int")
    P.assume(z3.And(P.z(jw) >= 0, P.z(jw) <= P.z(jq), P.z(jq) >= 0, P.z(jq) < P.z(G)))

    def Dv(j):
        return alg.raw_app("logD", d, j)

    st = {"S": None, "C": None, "j": None}

    class LogD(Model):
        def a_shape(self, I_):
            return (D, G)

        def getitem(self, I_, idx):
            a, b = idx
            if isinstance(a, slice):
                return ("column", b)
            return alg.raw_app("logD", I_.to_num(a), I_.to_num(b))

    def read_S(I_, idx):
        a, b = idx
        if isinstance(a, slice):
            raise Unsupported("column read of log_S")
        if (I_.to_num(a) - d).is_zero() and st["j"] is not None and (I_.to_num(b) - (st["j"] - 1)).is_zero():
            return st["S"]
        raise Unsupported("log_S read at a cell other than [d, j-1]")

    def read_C(I_, idx):
        a, b = idx
        if (I_.to_num(a) - d).is_zero() and st["j"] is not None and (I_.to_num(b) - (st["j"] - 1)).is_zero():
            return st["C"]
        raise Unsupported("log_S_choice read at a cell other than [d, j-1]")

    log_S = CellArray("log_S", (D, G), read_S)
    log_C = CellArray("log_S_choice", (D, G), read_C)
    made = []
    I.registry.globals_override["np"] = NpStub(lambda: made.append(1) or (log_S if len(made) == 1 else log_C))
    I.registry.call_contracts[MAP + ".compute_log_D"] = lambda I_, a, k, n: (("D-choice",), LogD())

    def inv(j_last, S, C, seen):
        zS, zC = P.z(I.to_num(S)), P.z(I.to_num(C))
        return z3.And(zC >= 0, zC <= P.z(j_last), zS == P.z(Dv(I.to_num(C))), z3.Implies(seen, zS >= P.z(Dv(jw))))

    def outer(I_, node, fr):
        inner = [s_ for s_ in node.body if isinstance(s_, ast.For)]
        if len(inner) != 1 or len(node.body) != 1:
            raise Unsupported("compute_log_S: expected exactly the loop over grid indices inside the loop over samples")
        col0 = [w for w in log_S.writes if isinstance(w, tuple) and isinstance(w[0], slice)]
        P.check("log_S.column0-initialised", len(col0) == 1 and col0[0][1] == 0 and log_S.cells.get(key_of((slice(None), 0))) == ("column", 0), "log_S[:, 0] = log_D[:, 0] before the loops", kind="post")
        I_.assign_target(node.target, d, fr)
        jn = inner[0]
        jseq = I_.eval(jn.iter, fr)
        lo = I_.to_num(jseq.core_at(I_, Num.const(0)))
        hi = lo + jseq.length
        P.check("log_S.inner-range", z3.And(P.z(lo) == 1, P.z(hi) == P.z(G)), "the running maximum is extended over grid indices 1 .. G-1", kind="post")
        mode = P.decide(2)
        if mode == 0:
            j = alg.sym(P.fresh_name("j"), "Int")
            P.assume(z3.And(P.z(j) >= P.z(lo), P.z(j) < P.z(hi)))
            first = P.decide(2) == 1
            if first:
                P.assume(P.z(j) == 1)
                S, C, seen = Dv(Num.const(0)), 0, P.z(jw) == 0  # column 0: S = D[d,0], choice 0 (np.zeros)
            else:
                S, C, seen = alg.sym(P.fresh_name("S_prev")), alg.sym(P.fresh_name("C_prev"), "Int"), z3.Bool(P.fresh_name("seen"))
                P.assume(inv(j - 1, S, C, seen))
                P.assume(z3.Implies(P.z(jw) <= P.z(j) - 1, seen))
            st.update({"S": S, "C": C, "j": j})
            log_S.cells.clear(), log_C.cells.clear()
            del log_S.writes[:], log_C.writes[:]
            I_.assign_target(jn.target, j, fr)
            dsl.cover(I_, "log_S.step")
            I_.exec_block(jn.body, fr)
            for arr in (log_S, log_C):
                P.check("log_S.frame[%s]" % arr.name, len(arr.writes) == 1 and key_of(arr.writes[0]) == key_of((d, j)), "exactly cell [d, j] of %s is written at step j" % arr.name, kind="post")
            S2, C2 = log_S.cells[key_of((d, j))], log_C.cells[key_of((d, j))]
            seen2 = z3.Or(seen, P.z(j) == P.z(jw))
            P.check("log_S.inv-preserved", inv(j, S2, C2, seen2), "log_S[d,j] = log_D[d,c] with c = S_choice[d,j] <= j, and >= every log_D[d,j'] with j' <= j", kind="post")
            raise PathEnd()
        dsl.cover(I_, "log_S.after")
        st["final"] = True

    I.registry.loop_invariants[(fi.qualname, 0)] = outer
    out = I.call_function(fi, [("children",)], {}, force_inline=True)
    P.check("log_S.returns", out[0] == ("D-choice",) and out[1] is log_C and out[2] is log_S, "returns (log_D_choice, log_S_choice, log_S)", kind="post")


LOGS_COVERS = ["log_S.step", "log_S.after"]


def h_map_ccfs(I, fi):
    """get_map_ccfs at one node with any number of children: value = max_idx / (G - 1) per sample, and every child is visited once with the same graph and
    result dictionary (so every clone of the tree gets its value)"""
    P = I.P
    G = alg.sym("G", "Int")
    n = alg.sym("n_children", "Int")
    P.assume(z3.And(P.z(G) >= 2, P.z(n) >= 0))
    rec = []
    m0, m1 = alg.sym("idx0", "Int"), alg.sym("idx1", "Int")
    P.assume(z3.And(P.z(m0) >= 0, P.z(m0) < P.z(G), P.z(m1) >= 0, P.z(m1) < P.z(G)))

    class LR(Model):
        def a_shape(self, I_):
            return (2, G)

    class Nodes(Model):
        def getitem(self, I_, key):
            return {"log_R": LR(), "max_idx": [m0, m1]}

    class Graph(Model):
        def a_nodes(self, I_):
            return Nodes()

        def m_successors(self, I_, nd):
            return SymSeq("children", n, lambda i: ("child", I_.to_num(i).key()))

    res = {}
    g = Graph()
    I.registry.globals_override["np"] = NpArrayStub()
    I.registry.call_contracts[fi.qualname] = lambda I_, a, k, nd: rec.append(list(a))
    I.registry.generic_loops.add(fi.qualname)
    I.call_function(fi, [g, "root", res], {}, force_inline=True)
    gens = P.ghost.get("generic_indices", [])
    if gens:
        dsl.cover(I, "ccfs.children")
        P.check("map-ccfs.every-child-visited", len(gens) == 1 and len(rec) == 1 and rec[0][0] is g and rec[0][1] == ("child", gens[0].key()) and rec[0][2] is res,
                "the recursion visits every child once, with the same graph and the same result dictionary", kind="post")
    else:
        dsl.cover(I, "ccfs.leaf")
        P.check("map-ccfs.leaf-stops", not rec and not P.feasible(P.z(n) != 0), "a clone without children ends the recursion", kind="post")
    v = res["root"]
    vals = v.data if hasattr(v, "data") else list(v)
    P.check("map-ccfs.on-grid", len(vals) == 2 and all(P.z(I.to_num(x) * (G - 1)) is not None for x in vals) and
            bool(alg.is_identically_zero(I.to_num(vals[0]) * (G - 1) - m0)) and bool(alg.is_identically_zero(I.to_num(vals[1]) * (G - 1) - m1)),
            "reported CCF = max_idx / (G - 1): a point of the CCF grid in [0, 1]", kind="post")
    dsl.cover(I, "ccfs")


class NpArrayStub(Model):
    def m_array(self, I, x, **k):
        from pyvc.builtins_model import NpArr

        return NpArr(list(x))


def verify_all(ctx, repo, prop):
    dsl.verify(ctx, repo, dsl.Registry(), prop, MAP + "._compute_log_D_n", h_log_D_n, expect_covers=LOGDN_COVERS)
    dsl.verify(ctx, repo, dsl.Registry(), prop, MAP + ".compute_log_S", h_log_S, expect_covers=LOGS_COVERS)
    dsl.verify(ctx, repo, dsl.Registry(), prop, MAP + ".get_map_ccfs", h_map_ccfs, expect_covers=["ccfs", "ccfs.children", "ccfs.leaf"])
    dsl.verify(ctx, repo, dsl.Registry(), prop, MAP + "._set_max_assignment", h_traceback, expect_covers=TRACE_COVERS)
    dsl.verify(ctx, repo, dsl.Registry(), prop, MAP + ".get_map_clonal_prev", h_clonal_prev, expect_covers=["prev.leaf", "prev.inner"])
    dsl.verify(ctx, repo, dsl.Registry(), prop, MAP + ".compute_log_D", h_compute_log_D_fold, expect_covers=["fold.step", "fold.after"])
    dsl.verify(ctx, repo, dsl.Registry(), prop, MAP + ".compute_max_likelihood", h_max_likelihood, expect_covers=["ml.leaf", "ml.inner"])
    dsl.verify(ctx, repo, dsl.Registry(), prop, [MAP + ".get_map_node_ccfs_and_clonal_prev_dicts", MAP + ".compute_map_tree_features", MAP + ".get_map_node_ccfs_dict", MAP + ".get_map_node_clonal_prevs_dict", MAP + ".set_max_assignment"],
               h_map_wiring, expect_covers=["map.wiring"])
    ctx.trust("array abstraction (CellArray): the loop bodies touch only the cells named in the frame obligations; np.zeros / np.ones give the initial contents stated in the harness "
              "(choice 0, result -inf, log_S column 0 = log_D column 0)", "witness technique: an arbitrary fixed candidate j* stands for the universal quantifier",
              "compute_log_D (loop over children and samples calling _compute_log_D_n), compute_max_likelihood, _set_max_assignment (traceback), get_map_clonal_prev and the "
              "networkx conversion are bounded-only")


# ----------------------------------------------------------------------------------------------------------- traceback feasibility


def h_traceback(I, fi):
    """_set_max_assignment at one node with n >= 1 children, for an arbitrary sample d: the indices handed to the children are
    >= 0 and sum to at most the node's own index (so CCF(node) >= sum of its children's CCFs and top-level clones sum to <= 1)."""
    P = I.P
    n = alg.sym("n_children", "Int")
    Dn = alg.sym("D", "Int")
    P.assume(z3.And(P.z(n) >= 1, P.z(Dn) >= 1))
    log = {"stores": [], "rec": [], "rem_writes": []}

    def idxs_at(d):
        v = alg.raw_app("idx_node", d, sort="Int")
        return v

    class Idxs(Model):
        def m___len__(self, I_):
            return Dn

        def getitem(self, I_, d):
            v = idxs_at(I_.to_num(d))
            I_.P.assume(I_.P.z(v) >= 0)
            return v

    class Choice2(Model):
        """log_S_choice[d, j] with the contract of compute_log_S: 0 <= value <= j"""

        def getitem(self, I_, idx):
            d, j = idx
            v = alg.raw_app("S_choice", I_.to_num(d), I_.to_num(j), sort="Int")
            I_.P.assume(z3.And(I_.P.z(v) >= 0, I_.P.z(v) <= I_.P.z(I_.to_num(j))))
            return v

    class ChoiceList(Model):
        """log_D_choice[i][d, r] with the contract of _compute_log_D_n: 0 <= value <= r"""

        def getitem(self, I_, i):
            outer_i = I_.to_num(i)

            class Ci(Model):
                def getitem(self, I2, idx):
                    d, r = idx
                    v = alg.raw_app("D_choice", outer_i, I2.to_num(d), I2.to_num(r), sort="Int")
                    I2.P.assume(z3.And(I2.P.z(v) >= 0, I2.P.z(v) <= I2.P.z(I2.to_num(r))))
                    return v

            return Ci()

    class MaxIdx(Model):
        def __init__(self, child):
            self.child = child
            self.cells = {}

        def getitem(self, I_, d):
            k = key_of(I_.to_num(d))
            if k not in self.cells:
                raise Unsupported("max_idx read before it is written")
            return self.cells[k]

        def setitem(self, I_, d, v):
            self.cells[key_of(I_.to_num(d))] = v
            log["stores"].append((self.child, I_.to_num(d), v))

    class NodeDict(Model):
        def __init__(self, name):
            self.name = name
            self.extra = {}

        def getitem(self, I_, key):
            if key in self.extra:
                return self.extra[key]
            if self.name == "node" and key == "log_S_choice":
                return Choice2()
            if self.name == "node" and key == "log_D_choice":
                return ChoiceList()
            raise Unsupported("graph.nodes[%s][%r]" % (self.name, key))

        def setitem(self, I_, key, v):
            if self.name == "node" or key != "max_idx":
                raise Unsupported("store of %r into the attributes of %s" % (key, self.name))
            self.extra[key] = v

    node_dict = NodeDict("node")
    child_dicts = {}

    class Nodes(Model):
        def getitem(self, I_, key):
            if key == "the-node":
                return node_dict
            k = key_of(key[1]) if isinstance(key, tuple) else repr(key)
            return child_dicts.setdefault(k, NodeDict(("child", key)))

    class Graph(Model):
        def a_nodes(self, I_):
            return Nodes()

        def m_successors(self, I_, nd):
            return SymSeq("children", n, lambda i: ("child", i))

    st = {}

    def read_rem(I_, d):
        dn = I_.to_num(d)
        k = key_of(dn)
        if st.get("initial"):
            # value produced by the real list comprehension before the loop
            return st["initial"].core_at(I_, dn)
        v = alg.raw_app(st["rem_name"], dn, sort="Int")
        I_.P.assume(z3.And(I_.P.z(v) >= 0, I_.P.z(v) <= I_.P.z(idxs_at(dn))), "loop invariant: 0 <= remaining budget <= the node's index")
        return v

    rem = CellArray("child_total_idx", (Dn,), read_rem)
    made_max = []

    def np_zeros(I_, shape, dtype=None):
        m = MaxIdx(None)
        made_max.append(m)
        return m

    I.registry.globals_override["np"] = NpStub2(np_zeros)

    def rec(I_, args, kwargs, node_):
        log["rec"].append((args[1], args[2]))

    I.registry.call_contracts[fi.qualname] = rec

    def outer(I_, node, fr):
        init = fr.vars["child_total_idx"]
        if not isinstance(init, SymSeq):
            raise Unsupported("child_total_idx is not built by a comprehension over the samples")
        dq = alg.sym("d_star", "Int")
        P.assume(z3.And(P.z(dq) >= 0, P.z(dq) < P.z(Dn)))
        P.check("traceback.budget-per-sample", P.z(init.length) == P.z(Dn), "one remaining budget per sample", kind="post")
        v0 = I_.to_num(init.core_at(I_, dq))
        P.check("traceback.initial-budget", z3.And(P.z(v0) >= 0, P.z(v0) <= P.z(idxs_at(dq)), P.z(v0) == P.z(alg.raw_app("S_choice", dq, idxs_at(dq), sort="Int"))),
                "the children's total budget is log_S_choice[d, idx(node)[d]], which is in [0, idx(node)[d]]", kind="post")
        rng_ = I_.eval(node.iter, fr)

        def position(el):
            # the loop may run over positions (`range(len(children) - 1, -1, -1)`) or over (position, child) pairs (`enumerate`)
            if isinstance(el, tuple) and len(el) == 2 and isinstance(el[0], (Num, int)):
                return I_.to_num(el[0])
            return I_.to_num(el)

        if not isinstance(rng_, SymSeq):
            raise Unsupported("the loop over the children does not run over a sequence the contract knows")
        P.check("traceback.visits-every-child-once", dsl.conj(P.z(rng_.length) == P.z(n), P.z(position(rng_.core_at(I_, Num.const(0)))) == P.z(n) - 1),
                "children are visited from the last to the first (log_D_choice[i] is the share of child i given what children 0..i may use), each exactly once", kind="post")
        # inductive step: arbitrary child i, arbitrary remaining budgets satisfying the invariant
        i = rng_.fresh_index(I_, "pos")
        element = rng_.core_at(I_, i)
        ci = position(element)
        n_made_before = len(made_max)
        st["initial"] = None
        st["rem_name"] = P.fresh_name("rem")
        fr.vars["child_total_idx"] = rem
        rem.cells.clear()
        del rem.writes[:]
        I_.assign_target(node.target, element, fr)
        I_.registry.generic_loops.add(fi.qualname)
        I_.exec_block(node.body, fr)
        dsl.cover(I_, "traceback.step")
        gens = I_.P.ghost.get("generic_indices", [])
        P.check("traceback.inner-loop-over-samples", len(gens) >= 1, "the inner loop ranges over the samples (generic sample d)", kind="post")
        d = gens[-1]
        stores = [s_ for s_ in log["stores"]]
        P.check("traceback.one-index-per-child-and-sample", len(stores) == 1 and (stores[0][1] - d).is_zero(), "exactly max_idx[d] of the current child is written", kind="post")
        m = I_.to_num(stores[0][2])
        r_before = alg.raw_app(st["rem_name"], d, sort="Int")
        P.check("traceback.child-index-within-budget", z3.And(P.z(m) >= 0, P.z(m) <= P.z(r_before), P.z(m) == P.z(alg.raw_app("D_choice", ci, d, r_before, sort="Int"))),
                "the child's index is log_D_choice[i][d, remaining] and lies in [0, remaining]", kind="post")
        P.check("traceback.budget-updated", len(rem.writes) == 1 and (I_.to_num(rem.writes[0]) - d).is_zero() and P.z(I_.to_num(rem.cells[key_of(d)])) == P.z(r_before - m),
                "remaining[d] decreases by exactly the child's index (so it stays >= 0 and the children's indices sum to at most the initial budget)", kind="post")
        P.check("traceback.recursion", len(log["rec"]) == 1 and log["rec"][0][1] == ("child", ci) and bool(made_max) and log["rec"][0][0] is made_max[-1],
                "the child's subtree is assigned from the child's own indices", kind="post")
        kid = child_dicts.get(key_of(ci))
        P.check("traceback.own-index-vector-per-child", len(made_max) == n_made_before + 1 and kid is not None and kid.extra.get("max_idx") is made_max[-1],
                "every child gets an index vector of its own, created for it in this step (siblings must not share one array)", kind="post")
        raise PathEnd()

    I.registry.loop_invariants[(fi.qualname, 0)] = outer
    I.call_function(fi, [Graph(), Idxs(), "the-node"], {}, force_inline=True)


class NpStub2(Model):
    def __init__(self, zeros):
        self.zeros = zeros

    def m_zeros(self, I, shape, dtype=None):
        return self.zeros(I, shape, dtype)


TRACE_COVERS = ["traceback.step"]


# ----------------------------------------------------------------------------------------------------------- clonal prevalence


def h_clonal_prev(I, fi):
    """get_map_clonal_prev at one node with any number of children, for an arbitrary sample: result[node] = ccf[node] - sum_c ccf[c]
    (computed on a copy: the CCF dictionary is not modified), and the recursion visits every child once with the same dictionaries."""
    P = I.P
    n = alg.sym("n_children", "Int")
    P.assume(P.z(n) >= 0)
    node = alg.sym("node", "Int")
    log = {"copies": 0, "rec": [], "stores": [], "subs": []}

    def ccf(x):
        return alg.raw_app("ccf", I.to_num(x))

    class Vec(Model):
        """one sample's entry of a CCF vector; `-=` on the ORIGINAL (not a copy) would modify the dictionary"""

        def __init__(self, val, is_copy):
            self.val, self.is_copy = val, is_copy

        def m_copy(self, I_):
            log["copies"] += 1
            return Vec(self.val, True)

        def iop(self, I_, op, other):
            if not isinstance(op, ast.Sub) or not isinstance(other, Vec):
                raise Unsupported("unexpected in-place operation on a CCF vector")
            log["subs"].append((self, other))
            self.val = self.val - other.val
            return self

    class Ccfs(Model):
        def getitem(self, I_, k):
            return Vec(ccf(k), False)

    class Result(Model):
        def setitem(self, I_, k, v):
            log["stores"].append((I_.to_num(k), v))

    class T(Model):
        def m_successors(self, I_, nd):
            return SymSeq("children", n, lambda i: alg.raw_app("child", I_.to_num(nd), I_.to_num(i), sort="Int"))

    tree, ccfs, result = T(), Ccfs(), Result()
    I.registry.call_contracts[fi.qualname] = lambda I_, a, k, nd: log["rec"].append(a)

    def loop(I_, nd_, fr):
        seq = I_.eval(nd_.iter, fr)
        ok = isinstance(seq, SymSeq) and not seq.tail and seq.key == "children"
        P.check("prev.loop-over-the-children", ok, "the loop ranges over the children of the node", kind="post")
        if not ok:
            raise PathEnd()
        acc = fr.vars.get("clonal_prev")
        if not isinstance(acc, Vec):
            raise Unsupported("clonal_prev is not a vector before the loop")
        if not P.branch(SBool(P.z(n) > 0)):
            dsl.cover(I_, "prev.leaf")
            return
        dsl.cover(I_, "prev.inner")
        b = alg.fresh_bound()
        start = acc.val
        acc.val = Num.const(0)
        I_.assign_target(nd_.target, seq.core_at(I_, b), fr)
        I_.exec_block(nd_.body, fr)
        okb = fr.vars.get("clonal_prev") is acc and len(log["subs"]) == 1 and log["subs"][0][0] is acc and len(log["rec"]) == 1
        P.check("prev.body", okb, "each iteration subtracts one vector from the running copy and recurses once", kind="post")
        if not okb:
            raise PathEnd()
        child = alg.raw_app("child", node, b, sort="Int")
        P.check("prev.subtracts-the-child's-ccf", (acc.val + ccf(child)).is_zero(), "what is subtracted is the CCF of that child", kind="post")
        a = log["rec"][0]
        P.check("prev.recursion", a[0] is tree and (I_.to_num(a[1]) - child).is_zero() and a[2] is ccfs and a[3] is result, "the child's subtree is processed with the same tree, CCF dictionary and result dictionary", kind="post")
        acc.val = start + alg.bigsum("", n, -ccf(alg.raw_app("child", node, b, sort="Int")), bound=b)

    I.registry.loop_invariants[(fi.qualname, 0)] = loop
    I.call_function(fi, [tree, node, ccfs, result], {}, force_inline=True)
    b = alg.fresh_bound()
    want = ccf(node) - alg.bigsum("", n, ccf(alg.raw_app("child", node, b, sort="Int")), bound=b)
    ok = len(log["stores"]) == 1 and (log["stores"][0][0] - node).is_zero() and isinstance(log["stores"][0][1], Vec)
    P.check("prev.stored-for-the-node", ok, "exactly result[node] is written", kind="post")
    if ok:
        v = log["stores"][0][1]
        P.check("prev.on-a-copy", v.is_copy and log["copies"] == 1, "the subtraction runs on a copy: the CCF dictionary is not modified", kind="post")
        P.check("prev.value", alg.is_identically_zero(v.val - want) or P.z(v.val) == P.z(want), "clonal prevalence = CCF of the clone - sum of the CCFs of its children", kind="post")


# ----------------------------------------------------------------------------------------------------------- the fold over children and the wiring


class Rows(Model):
    """a (samples x grid) array seen row-wise: row(i) is a token; row stores are recorded"""

    py_classes = ("ndarray",)

    def __init__(self, name, row, log=None):
        self.name, self.row, self.log = name, row, log
        self.cells = {}

    def a_shape(self, I):
        return (alg.sym("D", "Int"), alg.sym("G", "Int"))

    def getitem(self, I, idx):
        if not (isinstance(idx, tuple) and len(idx) == 2 and isinstance(idx[1], slice) and idx[1] == slice(None, None, None)):
            raise Unsupported("%s read other than row-wise" % self.name)
        k = I.to_num(idx[0]).key()
        return self.cells.get(k, self.row(I.to_num(idx[0])))

    def setitem(self, I, idx, v):
        if not (isinstance(idx, tuple) and len(idx) == 2 and isinstance(idx[1], slice)):
            raise Unsupported("%s written other than row-wise" % self.name)
        self.cells[I.to_num(idx[0]).key()] = v
        if self.log is not None:
            self.log.append(("row-store", self.name, I.to_num(idx[0]), v))


def h_compute_log_D_fold(I, fi):
    """map.compute_log_D: log_D starts at zeros (shape of the first child); for every child in order and every sample i, row i of log_D becomes
    the max-plus convolution of (child row i, previous row i) and the choices of that call are recorded for that child at position i;
    the list of per-child choice arrays (in child order) and the final log_D are returned."""
    P = I.P
    n = alg.sym("n_children", "Int")
    P.assume(P.z(n) >= 1)
    log, calls, zeros = [], [], []

    def child(c):
        return Rows("child[%s]" % I.to_num(c).key(), lambda i, c=c: ("child-row", I.to_num(c).key(), i.key()))

    kids = {}

    def kid(c):
        return kids.setdefault(I.to_num(c).key(), child(c))

    children = SymSeq("child_log_R_values", n, kid)

    class NP(Model):
        def m_zeros(self, I_, shape):
            zeros.append(shape)
            return Rows("log_D", lambda i: ("zeros-row",), log)

        def m_array(self, I_, x):
            return ("array", list(x) if isinstance(x, list) else x)

    I.registry.globals_override["np"] = NP()

    def mc(I_, a, k, nd):
        calls.append((a[0], a[1]))
        t = len(calls)
        return (("choice", t), ("result", t))

    I.registry.call_contracts[MAP + "._compute_log_D_n"] = mc
    I.registry.generic_loops.add(fi.qualname)
    st = {}

    def outer(I_, node, fr):
        seq = I_.eval(node.iter, fr)
        P.check("fold.over-the-children-in-order", seq is children, "the fold runs over the children as given", kind="post")
        ld = fr.vars.get("log_D")
        ok0 = isinstance(ld, Rows) and ld.name == "log_D" and not ld.cells and len(zeros) == 1 and fr.vars.get("log_D_choice") == []
        P.check("fold.starts-from-zeros", ok0, "log_D starts as zeros and no choice is recorded yet", kind="post")
        if not ok0:
            raise PathEnd()
        mode = P.decide(2)
        if mode == 1:
            st["after"] = True
            fr.vars["log_D_choice"] = ("choices-of-all-children",)
            return
        c = children.fresh_index(I_, "c")
        prev = Rows("log_D", lambda i: ("state-row", i.key()), log)  # arbitrary state after the children before c
        fr.vars["log_D"] = prev
        choice_list = []
        fr.vars["log_D_choice"] = choice_list
        I_.assign_target(node.target, children.at(I_, c), fr)
        n_calls = len(calls)
        I_.exec_block(node.body, fr)
        dsl.cover(I_, "fold.step")
        gens = P.ghost.get("generic_indices", [])
        if len(calls) == n_calls:
            P.check("fold.no-sample", not P.feasible(P.z(alg.sym("D", "Int")) > 0), "no sample: nothing to convolve", kind="post")
            raise PathEnd()
        i = gens[-1]
        a, b = calls[-1]
        P.check("fold.convolves-child-row-with-the-running-row", a == ("child-row", c.key(), i.key()) and b == ("state-row", i.key()),
                "for sample i the call is max-plus(child c's row i, the running log_D row i)", kind="post")
        rs = [e for e in log if e[0] == "row-store"]
        P.check("fold.row-updated", len(rs) == 1 and rs[0][1] == "log_D" and (rs[0][2] - i).is_zero() and rs[0][3] == ("result", len(calls)) and fr.vars.get("log_D") is prev,
                "row i of log_D (and only that row) becomes the result of that call, in place", kind="post")
        P.check("fold.choices-recorded-per-child", choice_list == [("array", [("choice", len(calls))])], "the choices of the calls for child c are collected, in sample order, into one array appended for child c", kind="post")
        raise PathEnd()

    I.registry.loop_invariants[(fi.qualname, 0)] = outer
    out = I.call_function(fi, [children], {}, force_inline=True)
    if st.get("after"):
        dsl.cover(I, "fold.after")
        P.check("fold.returns-choices-and-log_D", isinstance(out, tuple) and len(out) == 2 and out[0] == ("choices-of-all-children",) and isinstance(out[1], Rows) and out[1].name == "log_D",
                "the per-child choice arrays and the final log_D are returned", kind="post")
        sh = zeros[0] if zeros else None
        P.check("fold.shape-of-the-first-child", sh is not None, "log_D has the shape of the first child", kind="post")


def h_max_likelihood(I, fi):
    """compute_max_likelihood at one node: children first (post-order); a leaf has log_S_max = 0 and log_R_max = log_p; an inner node gets
    (log_D_choice, log_S_choice, log_S_max) = compute_log_S(children's log_R_max, in child order) and log_R_max = log_p + log_S_max."""
    P = I.P
    n = alg.sym("n_children", "Int")
    leaf = P.decide(2) == 1
    P.assume(P.z(n) == 0 if leaf else P.z(n) >= 1)
    dsl.cover(I, "ml.leaf" if leaf else "ml.inner")
    nid = alg.sym("node", "Int")
    log = []

    class Arr(Model):
        py_classes = ("ndarray",)

        def __init__(self, what):
            self.what = what

        def a_shape(self, I_):
            return ("shape-of", self.what)

        def binop(self, I_, op, other, swapped):
            return Arr(("sum", self.what, getattr(other, "what", other)))

    class Attrs(Model):
        def __init__(self, nd):
            self.nd, self.stores = nd, {}

        def getitem(self, I_, key):
            if key in self.stores:
                return self.stores[key]
            log.append(("read", self.nd.key(), key, len([e for e in log if e[0] == "rec"])))
            return Arr((key, self.nd.key()))

        def setitem(self, I_, key, v):
            self.stores[key] = v
            log.append(("store", self.nd.key(), key, v))

    attrs = {}

    class Nodes(Model):
        def getitem(self, I_, nd):
            k = I_.to_num(nd).key()
            return attrs.setdefault(k, Attrs(I_.to_num(nd)))

    class G(Model):
        def a_nodes(self, I_):
            return Nodes()

        def m_successors(self, I_, nd):
            return SymSeq("children", n, lambda i: alg.raw_app("child", I_.to_num(nd), I_.to_num(i), sort="Int"))

    class NP(Model):
        def m_zeros(self, I_, shape):
            return Arr(("zeros", shape))

    I.registry.globals_override["np"] = NP()
    I.registry.call_contracts[fi.qualname] = lambda I_, a, k, nd: log.append(("rec", I_.to_num(a[1])))
    S = []
    I.registry.call_contracts[MAP + ".compute_log_S"] = lambda I_, a, k, nd: (S.append(a[0]), (("D-choice",), ("S-choice",), Arr(("S-max",))))[1]
    I.registry.generic_loops.add(fi.qualname)
    g = G()
    I.call_function(fi, [g, nid], {}, force_inline=True)
    own = attrs.get(nid.key())
    st = own.stores if own else {}
    if leaf:
        ok = isinstance(st.get("log_S_max"), Arr) and st["log_S_max"].what == ("zeros", ("shape-of", ("log_p", nid.key()))) and isinstance(st.get("log_R_max"), Arr) and st["log_R_max"].what == ("log_p", nid.key()) and not S
        P.check("ml.leaf", ok and set(st) == {"log_S_max", "log_R_max"}, "a leaf: log_S_max = 0 (shape of log_p), log_R_max = log_p", kind="post")
        return
    gens = P.ghost.get("generic_indices", [])
    recs = [e for e in log if e[0] == "rec"]
    P.check("ml.children-first", len(recs) == 1 and len(gens) == 1 and (recs[0][1] - alg.raw_app("child", nid, gens[0], sort="Int")).is_zero(), "every child is processed (recursively) before the node", kind="post")
    reads = [e for e in log if e[0] == "read" and e[2] == "log_R_max"]
    P.check("ml.reads-children-after-their-update", all(e[3] == 1 for e in reads) and len(S) == 1 and isinstance(S[0], SymSeq) and not P.feasible(P.z(S[0].core_len) != P.z(n)),
            "compute_log_S gets one log_R_max per child, in child order, read after the children were processed", kind="post")
    if len(S) == 1 and isinstance(S[0], SymSeq):
        j = alg.sym("j", "Int")
        P.assume(z3.And(P.z(j) >= 0, P.z(j) < P.z(n)))
        e = S[0].core_at(I, j)
        P.check("ml.child-values", isinstance(e, Arr) and e.what == ("log_R_max", alg.raw_app("child", nid, j, sort="Int").key()), "the j-th value is log_R_max of the j-th child", kind="post")
    ok = st.get("log_D_choice") == ("D-choice",) and st.get("log_S_choice") == ("S-choice",) and isinstance(st.get("log_S_max"), Arr) and st["log_S_max"].what == ("S-max",) \
        and isinstance(st.get("log_R_max"), Arr) and st["log_R_max"].what == ("sum", ("log_p", nid.key()), ("S-max",))
    P.check("ml.inner", ok, "the three results of compute_log_S are stored under log_D_choice / log_S_choice / log_S_max and log_R_max = log_p + log_S_max", kind="post")


def h_map_wiring(I, top_fi, feat_fi, ccfs_fi, prevs_fi, setmax_fi):
    """get_map_node_ccfs_and_clonal_prev_dicts and its helpers: graph copy -> networkx -> maximise -> traceback from the root fixed at the last grid
    index -> CCFs -> prevalences; the dummy root is removed from both results."""
    P = I.P
    log = []

    class T(Model):
        py_classes = ("Tree",)

        def a_root_node_name(self, I_):
            return "root"

        def a__graph(self, I_):
            return RG()

    class RG(Model):
        def m_copy(self, I_):
            log.append(("copy",))
            return ("graph-copy",)

    D, G = alg.sym("D", "Int"), alg.sym("G", "Int")
    P.assume(z3.And(P.z(D) >= 1, P.z(G) >= 2))

    class Shape(Model):
        def a_shape(self, I_):
            return (D, G)

    class NodeAttr(Model):
        def __init__(self):
            self.stores = {}

        def getitem(self, I_, key):
            if key == "log_R":
                return Shape()
            raise Unsupported("attribute %r" % (key,))

        def setitem(self, I_, key, v):
            self.stores[key] = v

    root_attr = NodeAttr()

    class NX(Model):
        def a_nodes(self, I_):
            return {"root": root_attr}

    nxg = NX()
    I.registry.call_contracts["phyclone.process_trace.utils.convert_rustworkx_to_networkx"] = lambda I_, a, k, n: (log.append(("convert", a[0])), nxg)[1]
    I.registry.call_contracts[MAP + ".convert_rustworkx_to_networkx"] = I.registry.call_contracts["phyclone.process_trace.utils.convert_rustworkx_to_networkx"]
    I.registry.call_contracts[MAP + ".compute_max_likelihood"] = lambda I_, a, k, n: log.append(("maximise", a[0], a[1]))
    I.registry.call_contracts[MAP + "._set_max_assignment"] = lambda I_, a, k, n: log.append(("traceback", a[0], a[1], a[2]))

    class Ones(Model):
        def __init__(self, n, kw):
            self.n, self.kw, self.f = n, kw, Num.const(1)

        def binop(self, I_, op, other, swapped):
            if not isinstance(op, ast.Mult):
                raise Unsupported("operation on ones()")
            o = Ones(self.n, self.kw)
            o.f = self.f * I_.to_num(other)
            return o

    class NP(Model):
        def m_ones(self, I_, n_, dtype=None):
            return Ones(n_, dtype)

    I.registry.globals_override["np"] = NP()
    res = {}

    def ccfs(I_, a, k, n):
        log.append(("ccfs", a[0], a[1], a[2]))
        a[2]["root"] = ("ccf-root",)
        a[2][7] = ("ccf-7",)

    def prevs(I_, a, k, n):
        log.append(("prevs", a[0], a[1], a[2], a[3]))
        a[3]["root"] = ("prev-root",)
        a[3][7] = ("prev-7",)

    I.registry.call_contracts[MAP + ".get_map_ccfs"] = ccfs
    I.registry.call_contracts[MAP + ".get_map_clonal_prev"] = prevs
    out = I.call_function(top_fi, [T()], {}, force_inline=True)
    dsl.cover(I, "map.wiring")
    kinds = [e[0] for e in log]
    P.check("map.order-of-stages", kinds == ["copy", "convert", "maximise", "traceback", "ccfs", "prevs"], "copy of the tree's graph -> networkx -> maximise -> traceback -> CCFs -> prevalences, each once", kind="post")
    if kinds != ["copy", "convert", "maximise", "traceback", "ccfs", "prevs"]:
        return
    P.check("map.works-on-a-copy", log[1][1] == ("graph-copy",), "the MAP computation runs on a copy of the tree's graph", kind="post")
    P.check("map.from-the-root", log[2][1] is nxg and log[2][2] == "root" and log[3][1] is nxg and log[3][3] == "root" and log[4][1] is nxg and log[4][2] == "root" and log[5][1] is nxg and log[5][2] == "root",
            "every stage starts at the dummy root of the same graph", kind="post")
    idxs = log[3][2]
    okr = isinstance(idxs, Ones) and (I.to_num(idxs.n) - D).is_zero() and (idxs.f - (G - 1)).is_zero() and isinstance(root_attr.stores.get("max_idx"), Ones) and (root_attr.stores["max_idx"].f - (G - 1)).is_zero()
    P.check("map.root-fixed-at-ccf-one", okr, "the root's index is G - 1 in every sample (CCF one), both as stored on the root and as handed to the traceback", kind="post")
    P.check("map.prevalences-from-these-ccfs", isinstance(log[5][3], dict) and log[5][3] is log[4][3], "the prevalences are computed from the CCF dictionary just built", kind="post")
    ok = isinstance(out, tuple) and len(out) == 2 and out[0] == {7: ("ccf-7",)} and out[1] == {7: ("prev-7",)}
    P.check("map.root-dropped", ok, "the dummy root is removed from both dictionaries; the clones' entries are returned", kind="post")
