"""C13 contracts: GammaPriorConcentrationSampler.sample is the West (1992) auxiliary-variable Gibbs step; run.py extracts
K and n with the outliers excluded, stores the new value through the alpha setter (which refreshes log_alpha), and every
sampler and the trace writer share one joint-distribution object."""
import z3

from pyvc import alg, dsl
from pyvc.alg import Num
from pyvc.builtins_model import SymSeq
from pyvc.interp import Model, Obj, Unsupported
from contracts.models import RngModel
from contracts.c03_joint import CTree

SAMPLE = "phyclone.mcmc.concentration.GammaPriorConcentrationSampler.sample"
UPDATE = "phyclone.run.update_concentration_value"
CHAIN = "phyclone.run.run_phyclone_chain"
MAIN = "phyclone.run._run_main_sampler"


class ScipyDist(Model):
    """scipy.stats.<family>.rvs(..., random_state=rng): records (family, parameters, generator) on the ghost draw trace and
    returns an arbitrary value of the family's support (assumed contract on scipy)."""

    def __init__(self, family, trace):
        self.family = family
        self.trace = trace

    def m_rvs(self, I, *args, **kwargs):
        P = I.P
        rs = kwargs.pop("random_state", None)
        self.trace.append((self.family, args, dict(kwargs), rs))
        if self.family == "beta":
            v = alg.sym(P.fresh_name("eta"))
            P.assume(z3.And(P.z(v) > 0, P.z(v) < 1))
            return v
        if self.family == "bernoulli":
            return P.decide(2)
        v = alg.sym(P.fresh_name("gamma_draw"))
        P.assume(P.z(v) > 0)
        self.trace[-1] = self.trace[-1] + (v,)
        return v


def registry(trace):
    r = dsl.Registry()
    for fam in ("gamma", "beta", "bernoulli"):
        r.globals_override[fam] = ScipyDist(fam, trace)
    r.assumed += ["scipy.stats.beta/gamma/bernoulli.rvs(params, random_state=rng) draw from the named family with these parameters using rng (ScipyDist model)"]
    return r


def h_sample(I, fi):
    P = I.P
    trace = I.registry.trace
    del trace[:]
    a, b, alpha = alg.sym("a"), alg.sym("b"), alg.sym("alpha_old")
    # K and n are counts; the step's algebra does not use integrality, so they are real-sorted here (keeps the query in NRA)
    K, n = alg.sym("K"), alg.sym("n")
    P.assume(z3.And(P.z(a) > 0, P.z(b) > 0, P.z(alpha) > 0, P.z(K) >= 0, P.z(n) >= P.z(K)))
    rng = RngModel()
    s = Obj(fi.cls)
    s.fields.update({"a": a, "b": b, "_rng": rng})
    no_clusters = P.decide(2) == 1
    P.assume(P.z(K) == 0 if no_clusters else P.z(K) >= 1)
    dsl.cover(I, "K=0" if no_clusters else "K>=1")
    out = I.call_function(fi, [s, alpha, K, n], {}, force_inline=True)
    P.check("gibbs.all-draws-use-the-sampler-generator", all(t[3] is rng for t in trace), "every scipy draw is given random_state=self._rng", kind="post")
    if no_clusters:
        ok = len(trace) == 1 and trace[0][0] == "gamma"
        P.check("gibbs.K=0.prior-draw", ok and dsl.conj(P.z(I.to_num(trace[0][1][0])) == P.z(a), P.z(I.to_num(trace[0][2].get("scale"))) == P.z(1 / b)),
                "with no clone the value is drawn from the Gamma(a, rate b) prior", kind="post")
        from fractions import Fraction
        tiny = Num.const(Fraction(2.2250738585072014e-308))
        draw0 = trace[0][4] if ok and len(trace[0]) > 4 else None
        P.check("gibbs.K=0.result-is-the-draw-above-underflow", draw0 is not None and z3.And(P.z(I.to_num(out)) > 0, z3.Implies(P.z(draw0) > P.z(tiny), P.z(I.to_num(out)) == P.z(draw0))) if draw0 is not None else False,
                "the new value is the prior draw itself; a floor may only replace draws below the smallest normal float (a draw that underflows to 0 would make log alpha -inf), so that the distribution is not distorted", kind="post")
        return
    ok = len(trace) == 3 and [t[0] for t in trace] == ["beta", "bernoulli", "gamma"]
    P.check("gibbs.draw-sequence", ok, "auxiliary beta draw, then the mixture component, then one gamma draw", kind="post")
    if not ok:
        return
    bt, be, ga = trace
    eta = None
    # the beta draw is the only symbol named eta!*
    P.check("gibbs.auxiliary-is-Beta(alpha+1,n)", z3.And(P.z(I.to_num(bt[2].get("a"))) == P.z(alpha + 1), P.z(I.to_num(bt[2].get("b"))) == P.z(n)),
            "eta ~ Beta(alpha_old + 1, n)", kind="post")
    z = 1 if ga[1] and False else None
    shape = I.to_num(ga[1][0])
    scale = I.to_num(ga[2].get("scale"))
    rate = 1 / scale
    # rate = b - log(eta): recover eta from the trace-independent relation  exp(b - rate) in (0,1)
    s_ = a + K - 1
    pi = I.to_num(be[1][0])
    P.check("gibbs.rate-positive", P.z(rate) > 0, "b - log(eta) > 0 because eta < 1", kind="post")
    P.check("gibbs.component-shape", z3.Or(P.z(shape) == P.z(s_), P.z(shape) == P.z(s_ + 1)), "gamma shape is a+K-1 or a+K", kind="post")
    # mixture weight: pi == w1/(w1+w2) with w1 = Gamma(s+1)/rate^(s+1), w2 = n Gamma(s)/rate^s  (Gamma(s+1) = s Gamma(s), rate^(s+1) = rate * rate^s)
    G0, Ps = alg.sym("GammaFn_s"), alg.sym("rate_pow_s")
    P.assume(z3.And(P.z(G0) > 0, P.z(Ps) > 0), "Gamma(s) > 0, rate^s > 0")
    w1 = s_ * G0 / (rate * Ps)
    w2 = n * G0 / Ps
    # decided exactly as a rational-function identity by the algebra layer (no NRA search: verdict cannot flip under load);
    # the non-vanishing of every denominator is the separate nonzero-divisor obligations above
    ident = alg.is_identically_zero(pi * (w1 + w2) - w1)
    P.check("gibbs.mixture-weight", bool(ident),
            "P(shape = a+K) is the weight of the x^(a+K-1) component of x^(a+K-2) (x+n) exp(-x rate) [exact polynomial identity]", kind="post")


def h_sample_result(I, fi):
    """result = the gamma draw (a floor may act below the smallest normal float only), rate = b - log(eta), shape increment = the bernoulli outcome"""
    P = I.P
    trace = I.registry.trace
    del trace[:]
    a, b, alpha = alg.sym("a"), alg.sym("b"), alg.sym("alpha_old")
    K, n = alg.sym("K"), alg.sym("n")
    P.assume(z3.And(P.z(a) > 0, P.z(b) > 0, P.z(alpha) > 0, P.z(K) >= 1, P.z(n) >= P.z(K)))
    s = Obj(fi.cls)
    s.fields.update({"a": a, "b": b, "_rng": RngModel()})
    out = I.call_function(fi, [s, alpha, K, n], {}, force_inline=True)
    bt, be, ga = trace
    eta_atoms = [at for at in I.to_num(ga[2]["scale"]).all_atoms() if at.kind == "sym" and at.name.startswith("eta!")]
    P.check("gibbs.rate-formula", z3.And(z3.BoolVal(len(eta_atoms) == 1), P.z(I.to_num(ga[2]["scale"])) * P.z(b - alg.slog(Num.of_atom(eta_atoms[0]))) == 1) if eta_atoms else False,
            "gamma scale = 1 / (b - log(eta))", kind="post")
    draw = ga[4] if len(ga) > 4 else None
    from fractions import Fraction
    tiny = Num.const(Fraction(2.2250738585072014e-308))
    P.check("gibbs.result-is-the-draw-above-underflow", draw is not None and z3.And(P.z(I.to_num(out)) > 0, z3.Implies(P.z(draw) > P.z(tiny), P.z(I.to_num(out)) == P.z(draw))) if draw is not None else False,
            "the new value is the gamma draw itself: the mixture of the statement is sampled exactly; only draws below the smallest normal float (underflow) may be replaced by a positive floor", kind="post")
    dsl.cover(I, "result")


class ConcSamplerModel(Model):
    py_classes = ("GammaPriorConcentrationSampler",)

    def __init__(self):
        self.calls = []

    def m_sample(self, I, old, k, n):
        self.calls.append((old, k, n))
        v = alg.sym(I.P.fresh_name("alpha_new"))
        I.P.assume(I.P.z(v) > 0)
        return v


def h_update(I, fi):
    P = I.P
    outlier_key = P.decide(2) == 1
    t = CTree(I, outlier_key)
    dsl.cover(I, "outlier-key" if outlier_key else "no-outlier-key")
    fs = I.repo.lookup("phyclone.tree.distributions.FSCRPDistribution")
    tj = I.repo.lookup("phyclone.tree.distributions.TreeJointDistribution")
    prior = Obj(fs)
    a0 = alg.sym("alpha_cur")
    P.assume(P.z(a0) > 0)
    prior.fields.update({"_alpha": a0, "log_alpha": alg.slog(a0), "_c_const": alg.log_const(1000)})
    td = Obj(tj)
    td.fields["prior"] = prior
    cs = ConcSamplerModel()
    I.call_function(fi, [cs, t, td], {}, force_inline=True)
    P.check("run.conc.one-call", len(cs.calls) == 1, "the sampler is called once", kind="post")
    old, k, n = cs.calls[0]
    bnd = alg.fresh_bound()
    P.check("run.conc.K-and-n-exclude-outliers", z3.And(P.z(I.to_num(k)) == P.z(t.K), P.z(I.to_num(n)) == P.z(alg.bigsum("", t.K, alg.raw_app("size", bnd, sort="Int"), bound=bnd))),
            "K = number of clones, n = data points in clones; the outlier list is skipped", kind="post")
    P.check("run.conc.old-value", I.to_num(old).key() == a0.key(), "the current concentration is passed as the old value", kind="post")
    new = prior.fields["_alpha"]
    P.check("run.conc.stored-through-setter", I.to_num(new).key() != a0.key() and (I.to_num(prior.fields["log_alpha"]) - alg.slog(I.to_num(new))).is_zero(),
            "the new value is stored in the shared prior object and log_alpha is refreshed to log(new value)", kind="post")


def chain_registry(log):
    r = dsl.Registry()
    r.call_contracts["phyclone.tree.tree.Tree.get_single_node_tree"] = lambda I, a, k, n: ("start-tree",)
    r.class_models["Timer"] = lambda I, *a, **k: ("timer",)

    def bind(I, qual, args, kwargs):
        """positional and keyword arguments bound to the callee's parameter names (a call may use either spelling)"""
        names = [a.arg for a in I.repo.lookup(qual).node.args.args]
        b = dict(zip(names, args))
        b.update(kwargs)
        return b

    def burnin(I, args, kwargs, node):
        log.append(("burnin", bind(I, "phyclone.run._run_burnin", args, kwargs)))
        return ("burnin-tree",)

    def main(I, args, kwargs, node):
        log.append(("main", bind(I, "phyclone.run._run_main_sampler", args, kwargs)))
        return ("results",)

    # the cache clears at the start of a chain (finding F15) are C18's / C14's subject
    r.call_contracts["phyclone.utils.dev.clear_proposal_dist_caches"] = lambda I, a, k, n: log.append(("clear-proposal-caches", {}))
    r.call_contracts["phyclone.utils.dev.clear_convolution_caches"] = lambda I, a, k, n: log.append(("clear-convolution-caches", {}))
    r.call_contracts["phyclone.run._run_burnin"] = burnin
    r.call_contracts["phyclone.run._run_main_sampler"] = main
    return r


def h_chain(I, fi):
    P = I.P
    log = I.registry.log
    del log[:]
    rng = RngModel()
    alpha = alg.sym("concentration_value")
    P.assume(P.z(alpha) > 0)
    op = alg.sym("outlier_prob")
    P.assume(z3.And(P.z(op) >= 0, P.z(op) <= 1))
    names = [a.arg for a in fi.node.args.args]
    vals = {n_: ("arg", n_) for n_ in names}
    vals.update({"concentration_value": alpha, "outlier_prob": op, "rng": rng, "proposal": "semi-adapted", "num_particles": alg.sym("N", "Int"), "resample_threshold": alg.sym("thr"),
                 "chain_num": alg.sym("chain", "Int")})
    out = I.call_function(fi, [vals[n_] for n_ in names], {}, force_inline=True)
    del_log = [e for e in log if not e[0].startswith("clear-")]
    P.check("run.chain.order", [e[0] for e in del_log] == ["burnin", "main"] and out == ("results",), "burn-in, then the main sampler whose results are returned", kind="post")
    B, M = del_log[0][1], del_log[1][1]
    td = M["tree_dist"]
    sh = M["samplers"]
    same = (B["tree_dist"] is td and B["samplers"] is sh and I.getattr(I.getattr(sh, "tree_sampler"), "kernel") is I.getattr(I.getattr(sh, "subtree_sampler"), "kernel")
            and I.getattr(I.getattr(I.getattr(sh, "tree_sampler"), "kernel"), "tree_dist") is td and I.getattr(I.getattr(sh, "dp_sampler"), "tree_dist") is td
            and I.getattr(I.getattr(sh, "prg_sampler"), "tree_dist") is td and I.getattr(I.getattr(I.getattr(sh, "burnin_sampler"), "kernel"), "tree_dist") is td)
    P.check("run.chain.one-shared-joint-distribution", same, "kernel, Gibbs samplers, burn-in and the trace writer hold the same TreeJointDistribution object (a new alpha reaches all of them)", kind="post")
    P.check("run.chain.initial-alpha", I.to_num(I.getattr(I.getattr(td, "prior"), "alpha")).key() == alpha.key(), "the prior starts at the requested concentration value", kind="post")
    P.check("run.chain.rng-and-chain-num", M["rng"] is rng and M["chain_num"] is vals["chain_num"] and M["tree"] == ("burnin-tree",) and B["tree"] == ("start-tree",),
            "the chain's generator and number are threaded through; main sampling starts from the burn-in tree", kind="post")
    dsl.cover(I, "chain")
