"""Contracts on phyclone.smc.kernels.bootstrap.BootstrapProposalDistribution (C08, also C01/L4 and C19).

Faithfulness: on every path of the real sample(), log rho(path) == the real log_p(result)  (relational obligation
between two real functions).  Injectivity of path -> outcome class and the rng axioms then give normalisation."""
import ast

import z3

from pyvc import alg, dsl
from pyvc.interp import Obj
from contracts.models import AbsTree, BaseTree, DataPointModel, ParentParticle, RngModel

SAMPLE = "phyclone.smc.kernels.bootstrap.BootstrapProposalDistribution.sample"
LOGP = "phyclone.smc.kernels.bootstrap.BootstrapProposalDistribution.log_p"


def registry():
    r = dsl.Registry()
    r.class_models["Tree"] = lambda I, grid_size=None: AbsTree(None)
    r.assumed += ["Tree.copy/create_root_node/add_data_point_to_node/add_data_point_to_outliers/labels/nodes/get_number_of_children (AbsTree model)",
                  "numpy.random.Generator.random/integers/choice (RngModel)", "Particle.tree_roots = roots of its tree (ParentParticle model)"]
    return r


def harness(I, sample_fi, logp_fi):
    P = I.P
    o = alg.sym("o")
    P.assume(z3.And(P.z(o) >= 0, P.z(o) <= 1), "0 <= outlier_proposal_prob <= 1")
    dp = DataPointModel("dp")
    rng = RngModel()
    self = Obj(sample_fi.cls)
    has_parent = P.decide(2) == 1
    self.fields.update({"data_point": dp, "outlier_proposal_prob": o, "_rng": rng, "tree_dist": None, "perm_dist": None})
    if has_parent:
        base = BaseTree(I, "T")
        # the new data point is not in the parent tree: its idx differs from every idx the parent labels
        self.fields["parent_particle"] = ParentParticle(base)
        self.fields["parent_tree"] = AbsTree(base)
        dsl.cover(I, "parent-present")
    else:
        self.fields["parent_particle"] = None
        self.fields["parent_tree"] = None
        dsl.cover(I, "parent-none")
    tree = I.call_function(sample_fi, [self], {}, force_inline=True)
    log_rho = rng.total_log_rho(I)
    kind = tree.placement[0]
    dsl.cover(I, "outcome-" + kind)
    if has_parent and kind == "new":
        # reachability of the corner that used to be wrong: parent holds only outliers
        if P.feasible(P.z(base.K) == 0):
            dsl.cover(I, "outlier-only-parent,new")
    lp = I.call_function(logp_fi, [self, tree], {}, force_inline=True)
    P.check("faithful[%s,%s]" % ("parent" if has_parent else "first", kind), P.z(I.to_num(lp)) == P.z(log_rho),
            "log rho(sample path) == log_p(result): rho=%r log_p=%r" % (log_rho, lp), kind="post")
    # outcome classes are told apart by the label of the new data point (injectivity of path -> class)
    lab = I.getitem(tree.labels if False else I.getattr(tree, "labels"), dp.idx)
    if kind == "outlier":
        P.check("class[outlier]", I.equal(lab, -1), "outlier outcome labels the point -1", kind="post")
    elif kind == "exist":
        P.check("class[exist]", z3.And(base.nodes_seq(I).contains(I, lab).e, P.z(I.to_num(lab)) >= 0),
                "existing-clone outcome labels the point with a clone of the parent", kind="post")
    else:
        goal = P.z(I.to_num(lab)) >= 0
        if has_parent:
            goal = z3.And(goal, z3.Not(base.nodes_seq(I).contains(I, lab).e))
        P.check("class[new]", goal, "new-clone outcome labels the point with a name no parent clone has", kind="post")
    return kind


COVERS = ["parent-present", "parent-none", "outcome-exist", "outcome-new", "outcome-outlier", "outlier-only-parent,new"]


def concretise(name, model):
    """Native replay: enumerate the real sample() on a real parent tree built from the counter-model and compare the
    enumerated probability of every outcome with exp(log_p(outcome))."""
    import numpy as np

    from replay import trees as T
    from replay.enumrng import explore
    from replay import exact_kernel as EK

    def geti(k, d):
        try:
            return int(model.get(k, d))
        except Exception:
            return d

    R = max(0, min(3, geti("R_T", 1)))
    K = max(R, min(4, geti("K_T", R)))
    n_out = 1 if (K == 0) else max(0, min(2, geti("nout_T", 0)))
    try:
        o = float(eval(model.get("o", "1/10").replace("?", ""), {"__builtins__": {}}))
    except Exception:
        o = 0.1
    o = min(max(o, 0.0), 1.0)
    out = bootstrap_mass_check(R, K, n_out, o)
    out["inputs"] = {"R": R, "K": K, "n_out": n_out, "o": o}
    return out


def bootstrap_mass_check(R, K, n_out, o, with_parent=True):
    import numpy as np

    from phyclone.smc.kernels import BootstrapKernel
    from phyclone.smc.swarm import Particle
    from replay import exact_kernel as EK
    from replay import trees as T
    from replay.enumrng import explore

    n = K + n_out + 1
    data = T.make_data(n, dims=1, grid=4, seed=7, outlier_p=0.2 if (o > 0 or n_out > 0) else 0.0)
    td = EK.make_tree_dist(1.0)
    blocks = [[i] for i in range(K)]
    parent = tuple([-1] * R + [0] * (K - R)) if K else ()
    ptree = T.build_tree(data, blocks, parent, outliers=tuple(range(K, K + n_out)))
    worst = 0.0
    total = {}

    def run(rng):
        EK.clear_caches()
        kernel = BootstrapKernel(td, rng, outlier_proposal_prob=o)
        pp = Particle(0, None, ptree.copy(), td, None) if (K + n_out) > 0 and with_parent else None
        prop = kernel.get_proposal_distribution(data[n - 1], pp, ptree.copy() if pp is not None else None)
        t = prop.sample()
        return T.tree_key(t), float(prop.log_p(t))

    for prob, (key, lp), _ in explore(run):
        e = total.setdefault(key, [0.0, lp])
        e[0] += prob
    bad = []
    for key, (pr, lp) in total.items():
        d = abs(pr - float(np.exp(lp)))
        worst = max(worst, d)
        if d > 1e-9:
            bad.append({"outcome": T.key_str(key), "sampled_prob": pr, "reported_prob": float(np.exp(lp))})
    ssum = float(sum(np.exp(lp) for _, lp in total.values()))
    return {"reproduced": bool(bad) or abs(ssum - 1) > 1e-9, "mismatches": bad[:4], "sum_reported": ssum, "outcomes": len(total)}
