"""C04 contracts: DataPointSampler and PruneRegraphSampler as block-Gibbs kernels (obligations G1-G3 of M-GIBBS).

G3  within the block the real code selects candidate i with probability exp(log_p_one(c_i)) / sum_j exp(log_p_one(c_j));
G2  the block is closed: from every candidate the same guard outcome and the same candidate family arise (checked by
    running the real move a second time from the tree it returned);
G1  the auxiliary choice (scan order / subtree root) has a probability that is the same from every tree of the block.
Trees are abstract values with the Layer-1 algebra laws stated in the models below (assumed; Layer 1 / bounded oracle)."""
import ast

import z3

from pyvc import alg, dsl
from pyvc.alg import Num
from pyvc.builtins_model import SymSeq
from pyvc.interp import VC, Model, Obj, PyRaise, Unsupported
from contracts.models import RngModel

DPS = "phyclone.mcmc.gibbs_mh.DataPointSampler"
PRG = "phyclone.mcmc.gibbs_mh.PruneRegraphSampler"


class DP(Model):
    py_classes = ("DataPoint",)

    def __init__(self, idx):
        self.idx = idx

    def a_idx(self, I):
        return self.idx

    def eq(self, I, other):
        return isinstance(other, DP) and I.equal(self.idx, other.idx)


class MTree(Model):
    """x with the data point `dp` held at place `at` (a clone name or -1); `at == home` is the original tree.
    Algebra assumed (Tree.copy / remove_data_point_from_node / add_data_point_to_node / add_data_point_to_outliers /
    labels / nodes / get_data_len / data): moving a point changes nothing but that point's place and the two sizes."""

    py_classes = ("Tree",)

    def __init__(self, base, dp, at, detached=False):
        self.base = base
        self.dp = dp
        self.at = at
        self.detached = detached

    def m_copy(self, I):
        return MTree(self.base, self.dp, self.at, self.detached)

    def a_outlier_node_name(self, I):
        return -1

    def a_nodes(self, I):
        return self.base.nodes(I)

    def a_labels(self, I):
        return MLabels(self)

    def a_data(self, I):
        return MData(self)

    def m_get_data_len(self, I, node):
        P = I.P
        n = self.base.size(I, node)
        if self.detached:
            raise Unsupported("size while the point is detached")
        home = self.base.home
        # +1 at the current place, -1 at the original place
        zn, zat, zh = P.z(I.to_num(node)), P.z(I.to_num(self.at)), P.z(I.to_num(home))
        return alg.z3atom(P.z(n) + z3.If(zn == zat, 1, 0) - z3.If(zn == zh, 1, 0))

    def m_remove_data_point_from_node(self, I, dp, node):
        ok = I.b_and(I.equal(dp, self.dp), I.equal(node, self.at))
        I.P.check("remove-from-current-place[%s]" % I.site(None), I.truth(ok).e if hasattr(I.truth(ok), "e") else bool(ok),
                  "the data point is removed from the node that holds it (list.remove would raise otherwise)")
        self.detached = True

    def m_add_data_point_to_node(self, I, dp, node):
        if not self.detached:
            I.P.vcs.append(VC("no-duplicate-data[%s]" % I.site(None), "refuted", "data point added while still in the tree"))
            raise PyRaise("AssertionError: duplicate data point")
        self.at = node
        self.detached = False

    def m_add_data_point_to_outliers(self, I, dp):
        self.m_add_data_point_to_node(I, dp, -1)

    def val_key(self):
        return "MTree(%s)" % (self.at.key() if isinstance(self.at, Num) else self.at)

    def subst_index(self, f):
        return MTree(self.base, self.dp, f(self.at), self.detached)


class MLabels(Model):
    def __init__(self, t):
        self.t = t

    def m_keys(self, I):
        return [self.t.dp.idx]  # harness device: the scan is restricted to one arbitrary data point

    def getitem(self, I, idx):
        if I.equal(idx, self.t.dp.idx) is not True:
            raise Unsupported("label of another point")
        return self.t.at


class MData(Model):
    def __init__(self, t):
        self.t = t

    def getitem(self, I, idx):
        if I.equal(idx, self.t.dp.idx) is not True:
            raise Unsupported("data[] of another point")
        return self.t.dp


class MBase:
    def __init__(self, I, name="x"):
        P = I.P
        self.name = name
        self.K = alg.sym("K_" + name, "Int")
        self.home = alg.sym("home_" + name, "Int")
        P.assume(P.z(self.K) >= 0)
        P.assume(P.z(self.home) >= -1)
        P.assume(z3.Implies(P.z(self.home) >= 0, P.z(self.K) >= 1), "a point held by a clone implies at least one clone")

    def nodes(self, I):
        def facts(I_, i):
            return [I_.P.z(alg.raw_app("node_" + self.name, i, sort="Int")) >= 0]

        return SymSeq("nodes(%s)" % self.name, self.K, lambda i: alg.raw_app("node_" + self.name, i, sort="Int"), facts)

    def size(self, I, node):
        v = alg.raw_app("size_" + self.name, I.to_num(node), sort="Int")
        zn = I.P.z(I.to_num(node))
        # wf(x): every clone holds at least one data point; the outlier list may be empty
        I.P.assume(z3.And(z3.Implies(zn >= 0, I.P.z(v) >= 1), I.P.z(v) >= 0))
        return v


class TD(Model):
    py_classes = ("TreeJointDistribution",)

    def m_log_p_one(self, I, tree):
        if isinstance(tree, MTree):
            return alg.raw_app("LP1", I.to_num(tree.at))
        if isinstance(tree, GTree):
            return alg.raw_app("LP1g", I.to_num(tree.parent) if tree.parent is not None else Num.const(-7))
        raise Unsupported("log_p_one of %r" % (tree,))


def lp1(at):
    return alg.raw_app("LP1", at if isinstance(at, Num) else Num.const(at))


def h_dp(I, sample_tree_fi):
    P = I.P
    base = MBase(I)
    dpm = DP(alg.sym("idx", "Int"))
    outliers_on = P.decide(2) == 1
    dsl.cover(I, "outliers-on" if outliers_on else "outliers-off")
    # the point starts in a clone or (only with the outlier option) in the outlier list
    P.assume(z3.And(P.z(base.home) >= 0, base.nodes(I).contains(I, base.home).e) if not outliers_on else
             z3.Or(P.z(base.home) == -1, z3.And(P.z(base.home) >= 0, base.nodes(I).contains(I, base.home).e)))
    td = TD()
    x = MTree(base, dpm, base.home)

    def run(tree):
        s = Obj(sample_tree_fi.cls)
        rng = RngModel()
        s.fields.update({"tree_dist": td, "outliers": outliers_on, "_rng": rng})
        out = I.call_function(sample_tree_fi, [s, tree], {}, force_inline=True)
        return out, rng

    y, rng1 = run(x)
    moved1 = "multinomial" in rng1.draws
    dsl.cover(I, "x-moved" if moved1 else "x-guarded")
    b = alg.bound_index()
    Z = alg.bigsum("", base.K, alg.sexp(lp1(alg.raw_app("node_x", b, sort="Int")))) + (alg.sexp(lp1(-1)) if outliers_on else 0)
    if not moved1:
        P.check("G2.guard-blocks-only-singletons", z3.And(P.z(base.home) >= 0, P.z(base.size(I, base.home)) == 1),
                "the move is skipped only for a point that is alone in its clone", kind="post")
        P.check("G2.unchanged-when-guarded", y is x, "a guarded point leaves the tree untouched", kind="post")
        return
    lr1 = rng1.total_log_rho(I)
    P.check("G3.selection[from x]", P.z(lr1) == P.z(lp1(I.to_num(y.at)) - alg.slog(Z)),
            "candidate chosen with probability exp(log_p_one)/sum over {each clone} u {outliers iff enabled}", kind="post")
    P.check("C07.dp.data-conserved", (not y.detached) and y.dp is dpm and y.base is base, "the returned tree holds the same data, the point in exactly one place", kind="post")
    # closure of the block: run the real move again from the tree it returned
    z, rng2 = run(y)
    moved2 = "multinomial" in rng2.draws
    P.check("G2.guard-closed", moved2, "from every candidate the guard lets the point move again (block closed / reversible)", kind="post")
    if moved2:
        lr2 = rng2.total_log_rho(I)
        P.check("G2G3.same-kernel-from-candidate", P.z(lr2) == P.z(lp1(I.to_num(z.at)) - alg.slog(Z)),
                "from a candidate the move selects among the same family with the same probabilities", kind="post")
        dsl.cover(I, "second-move")


DP_COVERS = ["outliers-on", "outliers-off", "x-moved", "x-guarded", "second-move"]


# ----------------------------------------------------------------------------------------------------------- prune-regraft


class GTree(Model):
    """pruned tree `p` (+ the subtree grafted under `parent`, or not yet grafted)."""

    py_classes = ("Tree",)

    def __init__(self, env, grafted=False, parent=None, updated=True):
        self.env = env
        self.grafted = grafted
        self.parent = parent
        self.updated = updated

    def m_copy(self, I):
        return GTree(self.env, self.grafted, self.parent, self.updated)

    def a_root_node_name(self, I):
        return "root"

    def m_get_number_of_children(self, I, node):
        v = alg.raw_app("nch_p", I.to_num(node) if not isinstance(node, str) else Num.const(-7), sort="Int")
        I.P.assume(I.P.z(v) >= 0)
        return v

    def m_add_subtree(self, I, subtree, parent=None):
        if self.grafted or subtree is not self.env["subtree"]:
            raise Unsupported("unexpected graft")
        self.grafted, self.parent, self.updated = True, parent, False

    def m_update(self, I):
        self.updated = True

    def a_nodes(self, I):
        if self.grafted:
            raise Unsupported("nodes of a grafted candidate")
        return self.env["remaining"]

    def m_get_number_of_nodes(self, I):
        return self.env["K"]

    def val_key(self):
        return "GTree(%s)" % (self.parent.key() if isinstance(self.parent, Num) else self.parent)

    def subst_index(self, f):
        return GTree(self.env, self.grafted, f(self.parent), self.updated)


class FullTree(Model):
    py_classes = ("Tree",)

    def __init__(self, env):
        self.env = env

    def m_get_number_of_nodes(self, I):
        return self.env["K"]

    def m_copy(self, I):
        return FullCopy(self.env)


class NodeList(SymSeq):
    """the list `tree.nodes` returns (a fresh list per read): `remove` of a clone whose position is known drops exactly that entry"""

    def __init__(self, env, key, length, elem):
        SymSeq.__init__(self, key, length, elem)
        self.env = env

    def m_remove(self, I, x):
        pos = self.env.get("positions", {}).get(I.to_num(x).key()) if not isinstance(x, (str, tuple)) else None
        if pos is None or self.tail:
            raise Unsupported("list.remove of a value whose position in the node list is not known")
        P = I.P
        P.assume(z3.And(P.z(pos) >= 0, P.z(pos) < P.z(self.core_len)), "a top-level clone is one of the clones")
        old_elem, zp = self.elem, P.z(pos)
        self.core_len = self.core_len - 1
        self.elem = lambda i: alg.z3atom(z3.If(P.z(i) < zp, P.z(old_elem(i)), P.z(old_elem(i + 1))))


class FullCopy(Model):
    py_classes = ("Tree",)

    def __init__(self, env):
        self.env = env
        self.pruned = False

    def a_nodes(self, I):
        if self.pruned:
            return self.env["remaining"]
        K = self.env["K"]
        return NodeList(self.env, "nodes(x)", K, lambda i: alg.raw_app("node_x", i, sort="Int"))

    def a_roots(self, I):
        # the top-level clones: R of the K clones (1 <= R <= K for K >= 1), each at some position of the node list
        P, env = I.P, self.env
        R = alg.sym("R_x", "Int")
        P.assume(z3.And(P.z(R) >= 0, P.z(R) <= P.z(env["K"]), z3.Implies(P.z(env["K"]) >= 1, P.z(R) >= 1)), "wf(tree): every clone hangs under a top-level clone")

        def elem(i):
            pos = alg.raw_app("rootpos_x", i, sort="Int")
            v = alg.raw_app("node_x", pos, sort="Int")
            env.setdefault("positions", {})[v.key()] = pos
            return v

        def facts(I_, i):
            pos = alg.raw_app("rootpos_x", i, sort="Int")
            return [I_.P.z(pos) >= 0, I_.P.z(pos) < I_.P.z(env["K"])]

        return SymSeq("roots(x)", R, elem, facts)

    def m_get_subtree(self, I, root):
        self.env["subtree_root"] = root
        return self.env["subtree"]

    def m_remove_subtree(self, I, subtree):
        if subtree is not self.env["subtree"]:
            raise Unsupported("unexpected prune")
        self.pruned = True
        self.env["pruned"] = self

    def m_copy(self, I):
        if not self.pruned:
            raise Unsupported("copy before pruning")
        return GTree(self.env)

    def m_get_number_of_children(self, I, node):
        return GTree(self.env).m_get_number_of_children(I, node)

    def a_root_node_name(self, I):
        return "root"


def h_prg(I, sample_tree_fi):
    P = I.P
    K = alg.sym("K", "Int")
    M = alg.sym("M", "Int")  # clones left after pruning
    P.assume(z3.And(P.z(K) >= 0, P.z(M) >= 0, P.z(M) < P.z(K)) if True else True)
    env = {"K": K, "subtree": ("subtree",)}
    env["remaining"] = SymSeq("remaining", M, lambda i: alg.raw_app("rem", i, sort="Int"))
    small = P.decide(2) == 1
    P.assume(P.z(K) <= 1 if small else P.z(K) >= 2)
    dsl.cover(I, "K<=1" if small else "K>=2")
    x = FullTree(env)
    s = Obj(sample_tree_fi.cls)
    rng = RngModel()
    s.fields.update({"tree_dist": TD(), "_rng": rng})
    out = I.call_function(sample_tree_fi, [s, x], {}, force_inline=True)
    if small:
        P.check("G.prg.trivial", out is x and not rng.draws, "with at most one clone the tree is returned unchanged and nothing is drawn", kind="post")
        return
    if out is x:
        dsl.cover(I, "nothing-remains")
        P.check("G.prg.whole-tree-pruned", P.z(M) == 0, "the tree is returned unchanged only when the pruned subtree was the whole forest", kind="post")
        P.check("G1.subtree-root-uniform[unchanged]", P.z(rng.total_log_rho(I)) == P.z(-alg.slog(K)), "subtree root uniform over the K clones", kind="post")
        return
    dsl.cover(I, "regrafted")
    lr = rng.total_log_rho(I)
    b = alg.bound_index()
    Z = alg.bigsum("", M, alg.sexp(alg.raw_app("LP1g", alg.raw_app("rem", b, sort="Int")))) + alg.sexp(alg.raw_app("LP1g", Num.const(-7)))
    P.check("G.prg.result-is-candidate", isinstance(out, GTree) and out.grafted and out.updated, "a candidate tree (grafted and fully updated) is returned", kind="post")
    sel = alg.raw_app("LP1g", I.to_num(out.parent) if out.parent is not None else Num.const(-7))
    P.check("G1G3.prg.selection", P.z(lr) == P.z(-alg.slog(K) + sel - alg.slog(Z)),
            "subtree root uniform over K clones (K equal in every candidate); attachment chosen with probability exp(log_p_one)/sum over {each remaining clone} u {top level}",
            kind="post")


PRG_COVERS = ["K<=1", "K>=2", "nothing-remains", "regrafted"]


def registry():
    r = dsl.Registry()
    r.assumed += ["Tree algebra at Layer 2 (MTree / GTree models): moving a data point or grafting a subtree changes nothing else; get_subtree + remove_subtree + add_subtree are inverse",
                  "TreeJointDistribution.log_p_one is a function of the tree value (C03)", "numpy Generator shuffle/choice/multinomial (RngModel)",
                  "harness device: the data-point scan is restricted to one arbitrary point; the sweep is a uniformly shuffled composition of these per-point kernels",
                  "M-GIBBS (Lean-checked core, lemmas/lean/MGibbs.lean): G1-G3 imply invariance"]
    return r
