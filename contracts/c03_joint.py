"""C03 contracts: FSCRPDistribution and TreeJointDistribution against the FS-CRP model written from the property statement,
for any number of clones K, top-level clones R, samples D, grid points G, outliers.

 prior(x)     = K log a + sum_v log (n_v - 1)!  - (K - 1) log(K + 1)                               - sum_nodes log ch!
 prior_one(x) = K log a + sum_v log (n_v - 1)!  - sum_r (m_r - 1) log m_r  - pen(R)                - sum_nodes log ch!
 pen(R)       = (R - 1) log c + log((1 - c^-R) / (1 - c^-1))   for R >= 1, 0 for R = 0  (c = 1000; c^-R := exp(-R log c))
 joint        = prior + outlier-prior terms + [R >= 1] data term + sum_outliers single-clone marginal
"""
import ast

import z3

from pyvc import alg, dsl
from pyvc.alg import Num
from pyvc.builtins_model import SymSeq
from pyvc.interp import Model, Obj, Unsupported

FS = "phyclone.tree.distributions.FSCRPDistribution"
TJ = "phyclone.tree.distributions.TreeJointDistribution"
C_CONST = 1000


def lg(x):
    return alg.raw_app("LGamma", x if isinstance(x, Num) else Num.const(x))


class DPm(Model):
    py_classes = ("DataPoint",)

    def __init__(self, fam, *idx):
        self.fam = fam
        self.idx = idx

    def f(self, name):
        return alg.raw_app("%s_%s" % (name, self.fam), *self.idx)

    def a_outlier_prob(self, I):
        return self.f("op")

    def a_outlier_prob_not(self, I):
        return self.f("opn")

    def a_outlier_marginal_prob(self, I):
        return self.f("omp")


class CTree(Model):
    py_classes = ("Tree",)

    def __init__(self, I, outlier_key):
        P = I.P
        self.K, self.R, self.D, self.G, self.n_out = (alg.sym(n, "Int") for n in ("K", "R", "D", "G", "n_out"))
        P.assume(z3.And(P.z(self.K) >= 0, P.z(self.R) >= 0, P.z(self.R) <= P.z(self.K), z3.Implies(P.z(self.K) > 0, P.z(self.R) > 0),
                        P.z(self.D) >= 1, P.z(self.G) >= 1, P.z(self.n_out) >= 0), "wf(tree)")
        self.outlier_key = outlier_key
        if not outlier_key:
            P.assume(P.z(self.n_out) == 0, "no outlier key in node_data implies no outliers")

    def a_outlier_node_name(self, I):
        return -1

    def a_root_node_name(self, I):
        return "root"

    def a_node_data(self, I):
        return NodeData(self)

    def m_get_number_of_nodes(self, I):
        return self.K

    def a_multiplicity(self, I):
        return alg.sym("mult")

    def a_roots(self, I):
        def facts(I_, i):
            return [I_.P.z(alg.raw_app("root", i, sort="Int")) >= 0]

        return SymSeq("roots", self.R, lambda i: alg.raw_app("root", i, sort="Int"), facts)

    def m_get_number_of_descendants(self, I, node):
        v = alg.raw_app("desc", I.to_num(node), sort="Int")
        I.P.assume(I.P.z(v) >= 0)
        return v

    def m_get_number_of_children(self, I, node):
        if node == "root":
            return self.R
        raise Unsupported("children of a clone")

    def a_grid_size(self, I):
        return (self.D, self.G)

    def a_data_log_likelihood(self, I):
        return LLGrid(self)

    def a_outliers(self, I):
        return SymSeq("outliers", self.n_out, lambda j: DPm("out", j))

    def a_data(self, I):
        # Tree.data: every data point of the tree, the outliers included
        b = alg.fresh_bound()
        total = alg.bigsum("", self.K, alg.raw_app("size", b, sort="Int"), bound=b) + self.n_out
        I.P.assume(I.P.z(total) >= 0)
        return SymSeq("tree.data", total, lambda j: DPm("any", j))


class NodeData(Model):
    def __init__(self, t):
        self.t = t

    def m___len__(self, I):
        # one entry per clone, plus the outlier key where the dictionary has one (it appears with the first outlier or the first read of tree.outliers)
        return self.t.K + (1 if self.t.outlier_key else 0)

    def m_items(self, I):
        t = self.t

        def facts(I_, i):
            return [I_.P.z(alg.raw_app("key", i, sort="Int")) >= 0, I_.P.z(alg.raw_app("size", i, sort="Int")) >= 1]

        tail = [(-1, SymSeq("data(-1)", t.n_out, lambda j: DPm("out", j)))] if t.outlier_key else []
        return SymSeq("node_data.items", t.K, lambda i: (alg.raw_app("key", i, sort="Int"),
                                                          SymSeq("data(%s)" % i.key(), alg.raw_app("size", i, sort="Int"), lambda j, i=i: DPm("cl", i, j))), facts, tail=tail)


class LLGrid(Model):
    def __init__(self, t):
        self.t = t

    def getitem(self, I, idx):
        i, k = idx
        if isinstance(k, slice):
            return SymSeq("ll[%s,:]" % I.to_num(i).key(), self.t.G, lambda kk: alg.raw_app("ll", I.to_num(i), kk))
        k = I.to_num(k)
        if k.is_const() and k.const_value() < 0:
            k = self.t.G + k
        zi, zk = I.P.z(I.to_num(i)), I.P.z(k)
        I.P.check("grid-index-in-range[%s]" % I.site(None), z3.And(zi >= 0, zi < I.P.z(self.t.D), zk >= 0, zk < I.P.z(self.t.G)), "data_log_likelihood[%r, %r]" % (i, k))
        return alg.raw_app("ll", I.to_num(i), k)


def prior_obj(I, cls):
    P = I.P
    o = Obj(cls)
    a = alg.sym("alpha")
    P.assume(P.z(a) > 0, "alpha > 0")
    o.fields.update({"_alpha": a, "log_alpha": alg.slog(a), "_c_const": alg.log_const(C_CONST)})
    return o, a


def crp_spec(t, a):
    b = alg.fresh_bound()
    return t.K * alg.slog(a) + alg.bigsum("", t.K, lg(alg.raw_app("size", b, sort="Int")), bound=b)


def pen_spec(I, t):
    """(R-1) log c + log((1 - c^-R)/(1 - c^-1)) for R >= 1 (evaluated on a path where R's case is fixed)"""
    logc = alg.log_const(C_CONST)
    return (t.R - 1) * logc + alg.slog(1 - alg.sexp(-t.R * logc)) - alg.slog(1 - alg.sexp(-logc))


def h_prior(I, lp_fi, lp1_fi, both_fi):
    P = I.P
    outlier_key = P.decide(2) == 1
    t = CTree(I, outlier_key)
    prior, a = prior_obj(I, lp_fi.cls)
    zero_roots = P.decide(2) == 1
    P.assume(P.z(t.R) == 0 if zero_roots else P.z(t.R) >= 1)
    dsl.cover(I, "R=0" if zero_roots else "R>=1")
    crp = crp_spec(t, a)
    mult = alg.sym("mult")
    spec_lp = crp - (t.K - 1) * alg.slog(t.K + 1) - mult
    b = alg.fresh_bound()
    m = alg.raw_app("desc", alg.raw_app("root", b, sort="Int"), sort="Int") + 1
    ways = alg.bigsum("", t.R, (m - 1) * alg.slog(m), bound=b)
    spec_lp1 = crp - ways - (Num.const(0) if zero_roots else pen_spec(I, t)) - mult
    which = P.decide(3)
    if which == 0:
        out = I.call_function(lp_fi, [prior, t], {}, force_inline=True)
        P.check("prior.log_p", P.z(I.to_num(out)) == P.z(spec_lp), "marginal-form prior = CRP - (K-1) log(K+1) - sum log ch!", kind="post")
        dsl.cover(I, "log_p")
    elif which == 1:
        out = I.call_function(lp1_fi, [prior, t], {}, force_inline=True)
        P.check("prior.log_p_one", P.z(I.to_num(out)) == P.z(spec_lp1), "fixed-root prior = CRP - sum_r (m_r-1) log m_r - top-level penalty - sum log ch!", kind="post")
        dsl.cover(I, "log_p_one")
    else:
        out = I.call_function(both_fi, [prior, t], {}, force_inline=True)
        P.check("prior.both-equals-separate", z3.And(P.z(I.to_num(out[0])) == P.z(spec_lp), P.z(I.to_num(out[1])) == P.z(spec_lp1)),
                "computed together == computed separately (falsy-guard recomputation is harmless)", kind="post")
        dsl.cover(I, "both")


PRIOR_COVERS = ["R=0", "R>=1", "log_p", "log_p_one", "both"]


def oprior_term(I, dp, fr):
    node = fr.vars["node"]
    P = I.P
    op, opn = I.to_num(dp.a_outlier_prob(I)), I.to_num(dp.a_outlier_prob_not(I))
    is_out = I.equal(node, -1)
    zsel = P.z(op) if is_out is True else (P.z(opn) if is_out is False else z3.If(is_out.e, P.z(op), P.z(opn)))
    return alg.z3atom(z3.If(P.z(op) != 0, zsel, z3.RealVal(0)))


def oprior_registry():
    r = dsl.Registry()
    op = TJ + ".outlier_prior"
    r.loop_invariants[(op, 1)] = dsl.fold_loop("outlier_prior.inner", {"log_p": oprior_term},
                                               totals={"log_p": lambda I, seq, fr: alg.raw_app("OPRIOR", I.to_num(fr.vars["node"]))})
    r.loop_invariants[(op, 0)] = dsl.fold_loop("outlier_prior.outer", {"log_p": lambda I, e, fr: alg.raw_app("OPRIOR", I.to_num(e[0]))})
    r.assumed += ["ghost total OPRIOR(node) := sum over the data points of `node` of [outlier_prob != 0] * (outlier_prob if node is the outlier list else outlier_prob_not) "
                  "(defined by the inner loop's inductive step obligation)"]
    return r


def h_outlier_prior(I, fi):
    P = I.P
    outlier_key = P.decide(2) == 1
    t = CTree(I, outlier_key)
    out = I.call_function(fi, [t.a_node_data(I), -1], {}, force_inline=True)
    b = alg.fresh_bound()
    spec = alg.bigsum("", t.K, alg.raw_app("OPRIOR", alg.raw_app("key", b, sort="Int")), bound=b) + (alg.raw_app("OPRIOR", Num.const(-1)) if outlier_key else 0)
    P.check("outlier_prior.total", P.z(I.to_num(out)) == P.z(spec), "outlier prior = sum over clones and the outlier list of their per-point terms", kind="post")
    dsl.cover(I, "outlier-key" if outlier_key else "no-outlier-key")


def joint_registry():
    r = dsl.Registry()
    r.call_contracts[FS + ".log_p"] = lambda I, a, k, n: alg.sym("PRIOR")
    r.call_contracts[FS + ".log_p_one"] = lambda I, a, k, n: alg.sym("PRIOR1")
    r.call_contracts[FS + ".compute_both_log_p_and_log_p_one_priors"] = lambda I, a, k, n: (alg.sym("PRIOR"), alg.sym("PRIOR1"))
    r.call_contracts[TJ + ".outlier_prior"] = lambda I, a, k, n: alg.sym("OPTOTAL")
    r.assumed += ["FSCRPDistribution.log_p / log_p_one / compute_both by their contracts (prior harness)", "outlier_prior by its contract",
                  "Tree observers (node_data, roots, multiplicity, get_number_of_descendants, data_log_likelihood, outliers) are functions of the abstract tree (Layer 1; C02 for the grid)"]
    return r


def h_joint(I, lp_fi, lp1_fi, both_fi):
    P = I.P
    t = CTree(I, True)
    tj = Obj(lp_fi.cls)
    tj.fields["prior"] = Obj(I.repo.lookup(FS))
    has_clones = P.decide(2) == 1
    P.assume(P.z(t.R) >= 1 if has_clones else P.z(t.R) == 0)
    dsl.cover(I, "clones" if has_clones else "no-clones")
    d, k, j = alg.fresh_bound(), alg.fresh_bound(), alg.fresh_bound()
    inner = alg.bigsum("", t.G, alg.sexp(alg.raw_app("ll", d, k)), bound=k)
    data_lp = alg.bigsum("", t.D, alg.slog(inner), bound=d) if has_clones else Num.const(0)
    data_lp1 = alg.bigsum("", t.D, alg.raw_app("ll", d, t.G - 1), bound=d) if has_clones else Num.const(0)
    outl = alg.bigsum("", t.n_out, alg.raw_app("omp_out", j), bound=j)
    spec_lp = alg.sym("PRIOR") + alg.sym("OPTOTAL") + data_lp + outl
    spec_lp1 = alg.sym("PRIOR1") + alg.sym("OPTOTAL") + data_lp1 + outl
    which = P.decide(3)
    if which == 0:
        out = I.call_function(lp_fi, [tj, t], {}, force_inline=True)
        P.check("joint.log_p", P.z(I.to_num(out)) == P.z(spec_lp), "joint (root marginalised) = prior + outlier prior + [R>=1] sum_d log sum_k exp ll[d,k] + sum outlier marginals", kind="post")
        dsl.cover(I, "log_p")
    elif which == 1:
        out = I.call_function(lp1_fi, [tj, t], {}, force_inline=True)
        P.check("joint.log_p_one", P.z(I.to_num(out)) == P.z(spec_lp1), "joint (root fixed to one) = prior_one + outlier prior + [R>=1] sum_d ll[d,G-1] + sum outlier marginals", kind="post")
        dsl.cover(I, "log_p_one")
    else:
        out = I.call_function(both_fi, [tj, t], {}, force_inline=True)
        P.check("joint.both-equals-separate", z3.And(P.z(I.to_num(out[0])) == P.z(spec_lp), P.z(I.to_num(out[1])) == P.z(spec_lp1)),
                "the two forms computed together equal the two computed separately", kind="post")
        dsl.cover(I, "both")


JOINT_COVERS = ["clones", "no-clones", "log_p", "log_p_one", "both"]


def h_compute_outlier_prob(I, fi):
    P = I.P
    p = alg.sym("p")
    n = alg.sym("size", "Int")
    P.assume(z3.And(P.z(p) >= 0, P.z(p) < 1, P.z(n) >= 1))
    out = I.call_function(fi, [p, n], {}, force_inline=True)
    zero = not P.feasible(P.z(p) != 0)
    dsl.cover(I, "p=0" if zero else "p>0")
    if zero:
        P.check("compute_outlier_prob[p=0]", z3.And(P.z(I.to_num(out[0])) == 0, P.z(I.to_num(out[1])) == 0), "(0, 0) when outlier modelling is off", kind="post")
    else:
        P.check("compute_outlier_prob[p>0]", z3.And(P.z(I.to_num(out[0])) == P.z(n * alg.slog(p)), P.z(I.to_num(out[1])) == P.z(n * alg.slog(1 - p))),
                "(size log p, size log(1-p))", kind="post")


# ----------------------------------------------------------------------------------------------------------- per-outlier marginal (data/base.py)


def h_datapoint_init(I, fi, sub_fi):
    """phyclone.data.base.DataPoint.__init__: outlier_marginal_prob = sum_d log( (1/G) sum_k (1/G) sum_{j<=k} exp value[d,j] ): the marginal
    likelihood of the point as an outlier under the uniform grid prior (a singleton clone with a virtual child slot), fields stored as given."""
    from pyvc.builtins_model import Arr2, SymSeq, seq_sum
    P = I.P
    D, G = alg.sym("D", "Int"), alg.sym("G", "Int")
    P.assume(z3.And(P.z(D) >= 1, P.z(G) >= 1))
    value = Arr2.symbolic("val", D, G)
    asked = []

    def logsumexp(I_, x, axis=None):
        asked.append(axis)
        if not isinstance(x, Arr2):
            raise Unsupported("logsumexp of %s" % type(x).__name__)
        k = alg.fresh_bound()
        return SymSeq("logsumexp(%s)" % x.name, x.D, lambda d: alg.slog(alg.bigsum("", x.G, alg.sexp(I_.to_num(x.at(I_, d, k))), bound=k)))

    I.registry.globals_override["log_sum_exp"] = logsumexp
    dp = Obj(fi.cls)
    name_given = P.decide(2) == 1
    op, opn = alg.sym("op"), alg.sym("opn")
    I.call_function(fi, [dp, 7, value], {"name": ("nm",) if name_given else None, "outlier_prob": op, "outlier_prob_not": opn}, force_inline=True)
    dsl.cover(I, "datapoint.named" if name_given else "datapoint.unnamed")
    f = dp.fields
    P.check("datapoint.fields", f.get("idx") == 7 and f.get("value") is value and f.get("outlier_prob") is op and f.get("outlier_prob_not") is opn and (f.get("name") == ("nm",) if name_given else f.get("name") == 7),
            "idx, grid and outlier probabilities are stored as given; the name defaults to the idx", kind="post")
    P.check("datapoint.grid-untouched", value.writes == 0, "the likelihood grid is not modified", kind="post")
    P.check("datapoint.row-wise", asked == [1] or (len(asked) == 1 and isinstance(asked[0], Num) and (asked[0] - 1).is_zero()), "the grid values are combined within each sample (axis 1), the samples are then multiplied", kind="post")
    d, k, j = alg.fresh_bound(), alg.fresh_bound(), alg.fresh_bound()
    inner = alg.bigsum("", k + 1, alg.sexp(alg.raw_app("val", d, j)), bound=j)
    spec = alg.bigsum("", D, alg.slog(alg.bigsum("", G, inner, bound=k)) - 2 * alg.slog(G), bound=d)
    got = I.to_num(f.get("outlier_marginal_prob"))
    P.check("datapoint.outlier-marginal", bool(alg.is_identically_zero(got - spec)) or P.z(got) == P.z(spec),
            "outlier_marginal_prob = sum over samples of log( G^-2 * sum_k sum_{j<=k} exp value[d, j] )", kind="post")
