"""C20 structural contracts (effect order, discharged by AST dominance analysis of the real source, back end 'ast'):
each reader command starts with the un-guarded load of the whole gzip/pickle stream and touches its outputs only after that
load has returned; the writer dumps the whole result mapping exactly once; run.run calls the writer after every chain result
has been collected and outside any exception handler."""
import ast

from pyvc.source import _dotted

PT = "phyclone.process_trace.process_trace"
OUTPUT_CALLS = {"to_csv", "print_string_to_file", "_create_results_output_files", "create_topologies_archive", "add", "open", "write_pickle"}


def _calls(node):
    for n in ast.walk(node):
        if isinstance(n, ast.Call):
            yield n, _dotted(n.func)


def reader_obligations(fi):
    """returns list of (name, ok, detail)"""
    out = []
    body = [st for st in fi.node.body if not (isinstance(st, ast.Expr) and isinstance(st.value, ast.Constant))]
    params = [a.arg for a in fi.node.args.args]
    in_param = params[0]
    # locate the load
    load_idx = None
    for k, st in enumerate(body):
        if isinstance(st, ast.With) and any("GzipFile" in _dotted(it.context_expr) for it in st.items):
            load_idx = k
            break
    out.append(("load-present", load_idx is not None, "a top-level `with gzip.GzipFile(...)` block exists"))
    if load_idx is None:
        return out
    w = body[load_idx]
    item = w.items[0]
    args = item.context_expr.args
    mode = args[1].value if len(args) > 1 and isinstance(args[1], ast.Constant) else None
    for kw in item.context_expr.keywords:
        if kw.arg == "mode" and isinstance(kw.value, ast.Constant):
            mode = kw.value.value
    out.append(("load-reads-the-input-file", bool(args) and isinstance(args[0], ast.Name) and args[0].id == in_param and mode == "rb",
                "GzipFile(%s, 'rb')" % in_param))
    inner = w.body
    ok = len(inner) == 1 and isinstance(inner[0], ast.Assign) and isinstance(inner[0].value, ast.Call) and _dotted(inner[0].value.func) == "pickle.load"
    out.append(("whole-object-load", ok, "the with-body is exactly `results = pickle.load(fh)`"))
    # nothing with an output effect before the load; no try anywhere around or before it
    before = body[:load_idx]
    eff = [d for st in before for _, d in _calls(st) if d.split(".")[-1] in OUTPUT_CALLS]
    out.append(("no-output-before-load", not eff, "statements before the load have no output effect (%s)" % (eff or "none")))
    tries = [n for n in ast.walk(fi.node) if isinstance(n, ast.Try)]
    guarded = any(any(x is w for x in ast.walk(t)) for t in tries)
    out.append(("load-not-guarded", not guarded, "the load is not inside any try/except (a failing load propagates)"))
    swallow = [t for t in tries if any(h.type is None or _dotted(h.type) in ("Exception", "BaseException", "EOFError", "OSError", "pickle.UnpicklingError") for h in t.handlers)]
    out.append(("no-handler-swallows-errors", not swallow, "no broad exception handler in the command"))
    other = [n for st in body[load_idx + 1:] for n in ast.walk(st) if isinstance(n, ast.Name) and n.id == in_param]
    out.append(("input-read-once", not other, "the input file is not opened or read again after the load"))
    after_eff = [d for st in body[load_idx + 1:] for _, d in _calls(st) if d.split(".")[-1] in OUTPUT_CALLS]
    out.append(("outputs-after-load", bool(after_eff), "output effects (%s) occur only in statements dominated by the load" % sorted(set(after_eff))))
    return out


def run_obligations(fi):
    """phyclone.run.run: create_main_run_output(..., results) is the last statement, after the single/multi-chain branches"""
    out = []
    body = fi.node.body
    last = body[-1]
    ok = isinstance(last, ast.Expr) and isinstance(last.value, ast.Call) and _dotted(last.value.func) == "create_main_run_output"
    out.append(("writer-called-last", ok, "run() ends with create_main_run_output(cluster_file, out_file, results)"))
    n_calls = sum(1 for _, d in _calls(fi.node) if d == "create_main_run_output")
    out.append(("writer-called-once", n_calls == 1, "exactly one call of the writer"))
    tries = [n for n in ast.walk(fi.node) if isinstance(n, ast.Try)]
    out.append(("chain-failures-propagate", not tries, "no try/except in run(): an exception in any chain propagates before anything is written"))
    re_raise = any(isinstance(n, ast.Raise) for n in ast.walk(fi.node))
    out.append(("worker-exception-re-raised", re_raise, "a failed future's exception is raised in the parent"))
    return out
