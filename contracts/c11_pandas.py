"""C11 / C12: term-level contracts on the pandas parts of phyclone/process_trace/process_trace.py. pandas is outside the engine; what is pinned down on the real
source is WHICH pandas expressions produce the ranking, the ids, the frequency-mode choice and the per-clone columns (terms of contracts/c17_loader.E);
their meaning is pandas' (trusted, exercised by the bounded stand-ins).

  create_topology_dataframe   every record's tree is replaced by its Newick string; rows sorted by log_p_joint_max, descending, re-indexed; topology_id = "t_" + rank
  write_map_results (frequency)  the entry of the first row after sorting the topology table by count, descending; its (chain, iter) pointer selects the tree
  get_clone_table             labels x samples (explode), grouped by (clone, sample): ccf / clonal_prev of that clone at the position of that sample in the
                              sample list when the clone has CCFs, -1 otherwise; all groups concatenated"""
import z3

from pyvc import alg, dsl
from pyvc.alg import Num
from pyvc.builtins_model import SymSeq
from pyvc.interp import Model, Obj, Unsupported
from contracts.c17_loader import E, _same, _flat

PT = "phyclone.process_trace.process_trace"


def call(recv, name, *a, **k):
    return E("call", recv, name, tuple(a), tuple(sorted(k.items(), key=lambda kv: kv[0])))


def h_topology_dataframe(I, fi):
    P = I.P
    n = alg.sym("n_topologies", "Int")
    P.assume(P.z(n) >= 0)
    stores = []

    class TreeTok(Model):
        def __init__(self, j):
            self.j = j

        def m_to_newick_string(self, I_):
            return ("newick-of", self.j)

    class Rec(Model):
        def __init__(self, j):
            self.j = j

        def getitem(self, I_, key):
            if key != "topology":
                raise Unsupported("record[%r]" % (key,))
            return TreeTok(self.j)

        def setitem(self, I_, key, v):
            stores.append((self.j, key, v))

    recs = SymSeq("topologies", n, lambda j: Rec(I.to_num(j).key()))
    made = []

    class Pd(Model):
        def m_DataFrame(self, I_, rows):
            made.append(rows)
            return E("frame")

    I.registry.globals_override["pd"] = Pd()
    I.registry.generic_loops.add(fi.qualname)
    I.registry.structured_strings = True
    out = I.call_function(fi, [recs], {}, force_inline=True)
    gens = P.ghost.get("generic_indices", [])
    if gens:
        dsl.cover(I, "topology-frame.some")
        j = gens[0].key()
        P.check("topology-frame.tree-replaced-by-its-newick-string", stores == [(j, "topology", ("newick-of", j))], "in every record the tree is replaced by its own Newick string", kind="post")
    else:
        dsl.cover(I, "topology-frame.empty")
    P.check("topology-frame.from-all-records", made == [recs], "the table is built from exactly these records", kind="post")
    srt = call(E("frame"), "sort_values", by="log_p_joint_max", ascending=False, ignore_index=True)
    P.check("topology-frame.ranked-by-score", isinstance(out, E) and _same(out.t, srt.t), "rows are sorted by log_p_joint_max, descending, and re-indexed 0..n-1 (the rank)", kind="term")


def h_topology_ids(I, fi):
    """the topology_id column: inserted first, value "t_" + rank"""
    P = I.P
    inserted = []

    class Frame(E):
        def getattr(self, I_, name):
            if name == "insert":
                from pyvc.interp import PyBuiltin
                return PyBuiltin("insert", lambda I2, pos, col, val: inserted.append((self, pos, col, val)))
            return E.getattr(self, I_, name)

        def m_sort_values(self, I_, **k):
            f = Frame("sorted", tuple(sorted(k.items())))
            return f

    class Pd(Model):
        def m_DataFrame(self, I_, rows):
            return Frame("frame")

    I.registry.globals_override["pd"] = Pd()
    out = I.call_function(fi, [[]], {}, force_inline=True)
    dsl.cover(I, "topology-ids")
    ok = len(inserted) == 1 and inserted[0][0] is out and I.equal(inserted[0][1], 0) is True and inserted[0][2] == "topology_id"
    val = inserted[0][3] if inserted else None
    want = E("binop", "Add", "t_", call(E("index", out), "astype", "str")) if out is not None else None
    okv = isinstance(val, E) and val.t[0] == "binop" and val.t[1] == "Add" and val.t[2] == "t_" and isinstance(val.t[3], E) and val.t[3].t[0] in ("astype", "call") and _flat(val.t[3].t[1]) == _flat(E("index", out))
    P.check("topology-frame.ids-are-the-ranks", ok and okv, "topology_id is the first column and equals 't_' + the row's rank in the sorted table", kind="term")


def h_map_frequency(I, fi):
    from contracts.c11_trace import Effects, GzipMod, PickleMod
    P = I.P
    fx = Effects()
    log = fx.log

    class Entry(Model):
        def __init__(self, c, i):
            self.c, self.i = c, i

        def getitem(self, I_, key):
            return ("field", key, _flat(self.c), _flat(self.i))

    class Trace(Model):
        def __init__(self, c):
            self.c = c

        def getitem(self, I_, i):
            return Entry(self.c, i)

    class ChainRes(Model):
        def __init__(self, c):
            self.c = c

        def getitem(self, I_, key):
            if key == "trace":
                return Trace(self.c)
            return ("chain-field", key, _flat(self.c))

        def m_get(self, I_, key, default=None):
            return ("chain-field", key, _flat(self.c))

    class Results(Model):
        def getitem(self, I_, c):
            return ChainRes(c)

    results = Results()
    I.registry.globals_override["gzip"] = GzipMod(fx)
    I.registry.globals_override["pickle"] = PickleMod(fx, results)
    topo = {"dict": ("topologies",)}

    class Topos(Model):
        def m_values(self, I_):
            return ("topology-records",)

    I.registry.call_contracts[PT + ".create_topology_dict_from_trace"] = lambda I_, a, k, n: (log.append(("topology-dict", a[0])), Topos())[1]
    I.registry.call_contracts[PT + ".create_topology_dataframe"] = lambda I_, a, k, n: (log.append(("frame", a[0])), E("ranked"))[1]
    I.registry.call_contracts["phyclone.tree.tree.Tree.from_dict"] = lambda I_, a, k, n: ("tree-from", a[-1])
    I.registry.call_contracts[PT + ".get_clone_table"] = lambda I_, a, k, n: (log.append(("table", a[2])), ("table-of", a[2]))[1]
    I.registry.call_contracts[PT + "._create_results_output_files"] = lambda I_, a, k, n: log.append(("write", a[0], a[1], a[2], a[3]))
    I.call_function(fi, [("in",), ("out-table",), ("out-tree",)], {"map_type": "frequency"}, force_inline=True)
    dsl.cover(I, "map.frequency")
    by_count = call(E("ranked"), "sort_values", by="count", ascending=False)
    it = E("iloc", E("getitem", by_count, "iter"), 0)
    ch = E("iloc", E("getitem", by_count, "chain_num"), 0)
    tab = [e for e in log if e[0] == "table"]
    ok = len(tab) == 1 and isinstance(tab[0][1], tuple) and tab[0][1][0] == "tree-from" and tab[0][1][1] == ("field", "tree", _flat(ch), _flat(it))
    P.check("map.frequency.first-row-by-count", ok, "frequency mode: the tree is restored from the entry (chain, iter) named by the first row of the topology table sorted by count, descending", kind="term")
    P.check("map.frequency.table-from-the-whole-trace", ("topology-dict", results) in log and ("frame", ("topology-records",)) in log, "the topology table is built from the whole trace", kind="post")
    w = [e for e in log if e[0] == "write"]
    P.check("map.frequency.outputs", len(w) == 1 and w[0][3] == ("table-of", tab[0][1]) and w[0][4] == tab[0][1] if tab else False, "table and tree written are those of the selected tree", kind="post")


def h_clone_table(I, fi):
    P = I.P
    S = alg.sym("n_samples", "Int")
    P.assume(P.z(S) >= 1)
    log = []
    has_ccf = P.decide(2) == 1
    dsl.cover(I, "clone-table.clone" if has_ccf else "clone-table.outlier")

    class Group(E):
        def setitem(self, I_, key, v):
            log.append(("group-set", self, key, v))

    class Grouped(Model):
        def for_loop(self, I_, lnode, fr):
            clone, sample = alg.sym("clone_id", "Int"), ("sample", "generic")
            g = Group("group", "generic")
            I_.assign_target(lnode.target, ((clone, sample), g), fr)
            I_.exec_block(lnode.body, fr)
            log.append(("group-done", g))

    class LenTok(Model):
        def binop(self, I_, op, other, swapped):
            import ast as _ast
            if isinstance(op, _ast.Mult) and isinstance(other, list):
                return ("repeat", other, "len(labels)")
            raise Unsupported("operation on len(labels)")

    class Labels(E):
        def setitem(self, I_, key, v):
            log.append(("labels-set", key, v))

        def m___len__(self, I_):
            return LenTok()

        def getattr(self, I_, name):
            from pyvc.interp import PyBuiltin
            if name == "explode":
                return PyBuiltin("explode", lambda I2, col: Exploded("exploded", col))
            return E.getattr(self, I_, name)

    class Exploded(E):
        def getattr(self, I_, name):
            from pyvc.interp import PyBuiltin
            if name == "groupby":
                return PyBuiltin("groupby", lambda I2, by: (log.append(("groupby", by)), Grouped())[1])
            return E.getattr(self, I_, name)

    labels = Labels("labels")
    I.registry.call_contracts[PT + ".get_labels_table"] = lambda I_, a, k, n: (log.append(("labels", a[0], a[1], k.get("clusters"))), labels)[1]

    class Vec(Model):
        def __init__(self, what):
            self.what = what

        def getitem(self, I_, pos):
            return (self.what, "at", _flat(pos))

    class Dict(Model):
        def __init__(self, what):
            self.what = what

        def contains(self, I_, k):
            return has_ccf

        def getitem(self, I_, k):
            return Vec((self.what, _flat(I_.to_num(k))))

    I.registry.call_contracts["phyclone.process_trace.map.get_map_node_ccfs_and_clonal_prev_dicts"] = lambda I_, a, k, n: (log.append(("map", a[0])), (Dict("ccf"), Dict("prev")))[1]
    samples = SymSeq("samples", S, lambda j: ("sample", I.to_num(j).key()))

    class PosDict(Model):
        def getitem(self, I_, smp):
            return ("position-of", smp)

    class EnumPairs(Model):
        def dict_comprehension(self, I_, node, gen, fr):
            import ast as _ast
            log.append(("index-dict", _ast.unparse(node.key), _ast.unparse(node.value), _ast.unparse(gen.target)))
            return PosDict()

    I.registry.globals_override["enumerate"] = lambda I_, x, start=0: EnumPairs() if x is samples else None
    concat = []

    class Pd(Model):
        def m_concat(self, I_, parts, ignore_index=False):
            concat.append((parts, ignore_index))
            return ("concat",)

    I.registry.globals_override["pd"] = Pd()
    tree = ("tree",)
    out = I.call_function(fi, [("data",), samples, tree], {"clusters": ("clusters",)}, force_inline=True)
    P.check("clone-table.labels-and-map-of-the-same-tree", ("labels", ("data",), tree, ("clusters",)) in log and ("map", tree) in log, "labels and CCFs are computed for the same tree (labels with the cluster table given)", kind="post")
    P.check("clone-table.sample-positions", ("index-dict", "k", "v", "(v, k)") in log, "a sample's column is its position in the sample list", kind="term")
    ls = [e for e in log if e[0] == "labels-set"]
    okx = len(ls) == 1 and ls[0][1] == "sample_id" and isinstance(ls[0][2], tuple) and ls[0][2][0] == "repeat" and len(ls[0][2][1]) == 1 and ls[0][2][1][0] is samples
    P.check("clone-table.every-mutation-times-every-sample", okx and ("groupby", ["clone_id", "sample_id"]) in log, "every label row is paired with the whole sample list, exploded, and grouped by (clone, sample)", kind="term")
    sets = [e for e in log if e[0] == "group-set"]
    clone = alg.sym("clone_id", "Int")
    pos = ("position-of", ("sample", "generic"))
    if has_ccf:
        want = {"ccf": (("ccf", _flat(clone)), "at", _flat(pos)), "clonal_prev": (("prev", _flat(clone)), "at", _flat(pos))}
        got = {e[2]: e[3] for e in sets}
        P.check("clone-table.values-of-that-clone-and-sample", len(sets) == 2 and got == want, "ccf and clonal_prev of a group are that clone's values at that sample's position", kind="post")
    else:
        got = {e[2]: e[3] for e in sets}
        P.check("clone-table.minus-one-without-ccf", len(sets) == 2 and set(got) == {"ccf", "clonal_prev"} and all(I.equal(v, -1) is True for v in got.values()), "a clone id without CCFs (the outlier id) gets ccf = clonal_prev = -1", kind="post")
    done = [e for e in log if e[0] == "group-done"]
    P.check("clone-table.all-groups-concatenated", len(concat) == 1 and isinstance(concat[0][0], list) and len(concat[0][0]) == 1 and concat[0][0][0] is done[0][1] and concat[0][1] is True and out == ("concat",),
            "every group is appended once and the table is their concatenation (re-indexed)", kind="post")


def verify_c11(ctx, repo, prop="C11"):
    dsl.verify(ctx, repo, dsl.Registry(), prop, PT + ".create_topology_dataframe", h_topology_dataframe, expect_covers=["topology-frame.some", "topology-frame.empty"])
    dsl.verify(ctx, repo, dsl.Registry(), prop, PT + ".create_topology_dataframe", h_topology_ids, expect_covers=["topology-ids"])
    dsl.verify(ctx, repo, dsl.Registry(), prop, PT + ".write_map_results", h_map_frequency, expect_covers=["map.frequency"])
    dsl.verify(ctx, repo, dsl.Registry(), prop, PT + ".create_topologies_archive", h_archive, expect_covers=["archive.empty", "archive.included", "archive.excluded"])
    ctx.trust("pandas DataFrame / sort_values / iloc / insert / index.astype by their documented semantics (term-level contracts state WHICH expressions are used)")


def verify_c12(ctx, repo, prop="C12"):
    dsl.verify(ctx, repo, dsl.Registry(), prop, PT + ".get_clone_table", h_clone_table, expect_covers=["clone-table.clone", "clone-table.outlier"])
    # the archive pairs a results table with "the accompanying Newick tree": both must come from the same tree (the ranking obligations stay with C11)
    prev = getattr(ctx, "vc_filter", None)
    ctx.vc_filter = lambda name, kind: kind == "safety" or "table-of-that-tree" in name or "newick-of-that-tree" in name or "two-members" in name
    try:
        dsl.verify(ctx, repo, dsl.Registry(), prop, PT + ".create_topologies_archive", h_archive, expect_covers=["archive.empty", "archive.included", "archive.excluded"])
    finally:
        ctx.vc_filter = prev


def h_archive(I, fi):
    """create_topologies_archive: for every distinct topology the row of the ranked table that carries its five identifying fields gives its id "t_<rank>";
    it is archived exactly when rank < top_trees, as <id>/<id>_results_table.tsv (the clone table of THAT tree with the trace's data, samples and clusters)
    and <id>/<id>.nwk (THAT tree's Newick string)."""
    P = I.P
    I.registry.structured_strings = True
    log = []
    rank = alg.sym("rank", "Int")
    top = alg.sym("top_trees", "Int")
    P.assume(z3.And(P.z(rank) >= 0, P.z(top) >= 0))

    class TreeTok(Model):
        def m_to_newick_string(self, I_):
            return ("newick-of-the-tree",)

    tree = TreeTok()
    values = {k: ("value-of", k) for k in ("topology", "count", "log_p_joint_max", "iter", "chain_num")}

    class Topos(Model):
        def m_items(self, I_):
            return SymSeq("topologies.items", alg.sym("n_topologies", "Int"), lambda j: (tree, values))

    P.assume(P.z(alg.sym("n_topologies", "Int")) >= 0)

    class Row(E):
        def m___len__(self, I_):
            return 1  # exactly one row carries the five fields of a topology (counts / pointers make them unique: count_topology contract)

    class Frame(E):
        pass

    df = Frame("ranked")

    class Loc(Model):
        def getitem(self, I_, mask):
            log.append(("select", mask))
            return Row("row")

    df.a_loc = lambda I_: Loc()

    class IdStr(Model):
        def getitem(self, I_, sl):
            return ("suffix", sl.start if isinstance(sl, slice) else sl)

    def vals0(term):
        return term

    class Res0(Model):
        def getitem(self, I_, key):
            return ("trace-field", key)

        def m_get(self, I_, key, default=None):
            return ("trace-field", key)

    class Results(Model):
        def getitem(self, I_, c):
            return Res0()

    ids = []

    def to_int(I_, x):
        ids.append(x)
        return rank

    I.registry.globals_override["int"] = to_int

    class Table(Model):
        def m_to_csv(self, I_, path, index=True, sep=","):
            log.append(("csv", path, index, sep))

    I.registry.call_contracts[PT + ".get_clone_table"] = lambda I_, a, k, n: (log.append(("table", a[0], a[1], a[2], k.get("clusters"))), Table())[1]
    I.registry.call_contracts[PT + ".print_string_to_file"] = lambda I_, a, k, n: log.append(("print", a[0], a[1]))
    I.registry.call_contracts["phyclone.process_trace.utils.print_string_to_file"] = I.registry.call_contracts[PT + ".print_string_to_file"]

    class Ctx(Model):
        def __init__(self, v):
            self.v = v

        def m___enter__(self, I_):
            return self.v

        def m___exit__(self, I_, *a):
            pass

    class Archive(Model):
        def m_add(self, I_, path, arcname=None):
            log.append(("add", path, arcname))

    class Tar(Model):
        def m_open(self, I_, path, mode):
            log.append(("tar", path, mode))
            return Ctx(Archive())

    class Tmp(Model):
        def m_TemporaryDirectory(self, I_):
            return Ctx(("tmp-dir",))

    class OsPath(Model):
        def m_join(self, I_, *a):
            return ("join",) + tuple(a)

    class Os(Model):
        def a_path(self, I_):
            return OsPath()

    I.registry.globals_override["tarfile"] = Tar()
    I.registry.globals_override["tempfile"] = Tmp()
    I.registry.globals_override["os"] = Os()
    I.registry.globals_override["str"] = lambda I_, x="": x
    # row["topology_id"].values[0] -> the id string; its suffix is the rank
    Row.getitem = lambda self, I_, key: E("col", key)
    I.registry.generic_loops.add(fi.qualname)
    I.call_function(fi, [df, Results(), top, Topos(), ("archive-path",)], {}, force_inline=True)
    gens = P.ghost.get("generic_indices", [])
    if not gens:
        dsl.cover(I, "archive.empty")
        P.check("archive.nothing-for-no-topology", not [e for e in log if e[0] in ("add", "csv", "table")], "no topology, nothing archived", kind="post")
        return
    sel = [e for e in log if e[0] == "select"]
    fields = _flat(sel[0][1]) if sel else ()
    P.check("archive.row-by-the-five-fields", len(sel) == 1 and all(repr(("value-of", k)) in repr(fields) for k in ("topology", "count", "log_p_joint_max", "iter", "chain_num")),
            "the table row of a topology is selected by topology string, count, score, iteration and chain together", kind="term")
    adds = [e for e in log if e[0] == "add"]
    included = not P.feasible(P.z(rank) >= P.z(top))
    excluded = not P.feasible(P.z(rank) < P.z(top))
    if adds:
        dsl.cover(I, "archive.included")
        tab = [e for e in log if e[0] == "table"]
        P.check("archive.exactly-the-top-ranked", P.z(rank) < P.z(top), "a topology is archived only when its rank is below the requested number", kind="post")
        P.check("archive.table-of-that-tree", len(tab) == 1 and tab[0][3] is tree and tab[0][1] == ("trace-field", "data") and tab[0][2] == ("trace-field", "samples") and tab[0][4] == ("trace-field", "clusters"),
                "its table is the clone table of that very tree with the trace's data, samples and clusters", kind="post")
        pr = [e for e in log if e[0] == "print"]
        P.check("archive.newick-of-that-tree", len(pr) == 1 and pr[0][1] == ("newick-of-the-tree",), "its Newick file holds that tree's string", kind="post")
        P.check("archive.two-members-per-topology", len(adds) == 2, "two archive members per topology: table and tree", kind="post")
    else:
        dsl.cover(I, "archive.excluded")
        P.check("archive.exactly-the-top-ranked[skip]", dsl.conj(not [e for e in log if e[0] in ("csv", "table", "print")], P.z(rank) >= P.z(top)), "a topology ranked at or beyond the requested number is skipped entirely", kind="post")
