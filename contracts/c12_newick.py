"""C12: contracts on the Newick writer (phyclone/tree/visitors.py:GraphToNewickVisitor, Tree.to_newick_string), for any tree shape.

rustworkx dfs_search contract (trusted): tree_edge(parent, child) is reported when the search first reaches child through that edge
(once per non-root vertex of a forest); finish_vertex(v) after all descendants of v are finished.

  tree_edge(p, c)      records parent(c) = p (by name) and marks p as a vertex with children
  finish_vertex(v)     string(v) = name(v)                                   if v has no children
                                   "(" + ",".join(strings of v's children, in finish order) + ")" + name(v)   otherwise;
                       a non-root vertex appends its string to its parent's list (exactly once); the root's string + ";" is the result
By induction over the finish order the result names every clone exactly once, nested as in the tree."""
import z3

from pyvc import alg, dsl
from pyvc.alg import Num
from pyvc.builtins_model import StrExpr, _term_eq
from pyvc.interp import Model, Obj, Unsupported

VIS = "phyclone.tree.visitors.GraphToNewickVisitor"
TR = "phyclone.tree.tree.Tree"
ROOT = "root"


class Rev(Model):
    def __init__(self, ri):
        self.ri = ri

    def getitem(self, I, idx):
        idx = I.to_num(idx)
        if (idx - self.ri).is_zero():
            return ROOT
        return alg.raw_app("name_of", idx, sort="Int")


class Recorder(Model):
    def __init__(self, name, log, member=None, value=None):
        self.name, self.log, self.member, self.value = name, log, member, value

    def setitem(self, I, k, v):
        self.log.append(("set", self.name, k, v))

    def getitem(self, I, k):
        if self.value is None:
            raise Unsupported("read of %s" % self.name)
        return self.value(I, k)

    def m_add(self, I, x):
        self.log.append(("add", self.name, x))

    def contains(self, I, x):
        return self.member(I, x)


def visitor(I, cls, log, has_children=None, child_list=None, parent_of=None):
    ri = alg.sym("root_idx", "Int")
    v = Obj(cls)
    v.fields.update({"node_indices_rev": Rev(ri), "root_node_name": ROOT, "final_string": None,
                     "child_parent_mapping": Recorder("child_parent_mapping", log, value=parent_of),
                     "parents": Recorder("parents", log, member=has_children),
                     "dict_of_lists": Recorder("dict_of_lists", log, value=child_list)})
    return v, ri


def h_tree_edge(I, fi):
    P = I.P
    log = []
    v, ri = visitor(I, fi.cls, log)
    from_root = P.decide(2) == 1
    p = ri if from_root else alg.sym("p", "Int")
    c = alg.sym("c", "Int")
    if not from_root:
        P.assume(P.z(p) != P.z(ri))
    P.assume(P.z(c) != P.z(ri))
    I.call_function(fi, [v, (p, c, None)], {}, force_inline=True)
    dsl.cover(I, "edge.from-root" if from_root else "edge.from-clone")
    pn = ROOT if from_root else alg.raw_app("name_of", p, sort="Int")
    cn = alg.raw_app("name_of", c, sort="Int")

    def same(a, b):
        return a == b if isinstance(a, str) or isinstance(b, str) else (I.to_num(a) - I.to_num(b)).is_zero()

    ok = len(log) == 2 and log[0][:2] == ("set", "child_parent_mapping") and same(log[0][2], cn) and same(log[0][3], pn) and log[1][:2] == ("add", "parents") and same(log[1][2], pn)
    P.check("newick.edge-recorded", ok, "the edge records parent(child) by name and marks the parent as having children; nothing else", kind="post")


class ChildList(Model):
    def __init__(self, owner, log, strings=None):
        self.owner, self.log, self.strings = owner, log, strings

    def m_append(self, I, s):
        self.log.append(("append", self.owner, s))


def h_finish_vertex(I, fi):
    P = I.P
    I.registry.structured_strings = True
    log = []
    is_root = P.decide(2) == 1
    inner = P.decide(2) == 1
    dsl.cover(I, "finish.%s-%s" % ("root" if is_root else "clone", "inner" if inner else "leaf"))
    lists = {}

    def child_list(I_, k):
        key = k if isinstance(k, str) else I_.to_num(k).key()
        return lists.setdefault(key, ChildList(k, log))

    v, ri = visitor(I, fi.cls, log, has_children=lambda I_, x: inner, child_list=child_list,
                    parent_of=lambda I_, k: alg.raw_app("parent_name", I_.to_num(k), sort="Int"))
    vx = ri if is_root else alg.sym("v", "Int")
    if not is_root:
        P.assume(P.z(vx) != P.z(ri))
    I.call_function(fi, [v, vx, alg.sym("time", "Int")], {}, force_inline=True)
    name = ROOT if is_root else alg.raw_app("name_of", vx, sort="Int")
    own_key = name if is_root else name.key()
    own_list = lists.get(own_key)
    if inner:
        want = StrExpr(("format", "({child_strings}){node_idx}", (), (("child_strings", StrExpr(("join", ",", own_list))), ("node_idx", name))))
    else:
        want = StrExpr(("format", "{node_idx}", (), (("node_idx", name),)))
    if is_root:
        fs = v.fields["final_string"]
        P.check("newick.root-string-is-the-result", isinstance(fs, StrExpr) and _term_eq(fs.term, ("concat", want, ";")) and not log, "the root's string followed by ';' is the result; nothing is appended anywhere", kind="post")
    else:
        pn = alg.raw_app("parent_name", name, sort="Int")
        ok = len(log) == 1 and log[0][0] == "append" and isinstance(log[0][1], Num) and (log[0][1] - pn).is_zero() and isinstance(log[0][2], StrExpr) and _term_eq(log[0][2].term, want.term) \
            and v.fields["final_string"] is None
        P.check("newick.clone-string-goes-to-its-parent", ok, "a clone's string - its name, preceded by the parenthesised, comma-joined strings of its children when it has any - is appended exactly once, to its parent's list", kind="post")


FINISH_COVERS = ["finish.root-inner", "finish.root-leaf", "finish.clone-inner", "finish.clone-leaf"]


def h_to_newick(I, fi):
    P = I.P
    t = Obj(fi.cls)
    ri = alg.sym("root_idx", "Int")

    class Idx(Model):
        def getitem(self, I_, k):
            if k != ROOT:
                raise Unsupported("index of %r" % (k,))
            return ri

    g = ("graph",)
    t.fields.update({"_graph": g, "_node_indices": Idx()})
    made, searched = [], []

    class V(Model):
        def __init__(self, tree):
            self.tree = tree

        def a_final_string(self, I_):
            return ("final-string-of", self)

    I.registry.class_models["GraphToNewickVisitor"] = lambda I_, tree: (made.append(V(tree)), made[-1])[1]

    class Rx(Model):
        def m_dfs_search(self, I_, graph, sources, vis):
            searched.append((graph, sources, vis))

    I.registry.globals_override["rx"] = Rx()
    out = I.call_function(fi, [t], {}, force_inline=True)
    dsl.cover(I, "to_newick")
    ok = len(made) == 1 and made[0].tree is t and len(searched) == 1 and searched[0][0] is g and isinstance(searched[0][1], list) and len(searched[0][1]) == 1 and (I.to_num(searched[0][1][0]) - ri).is_zero() \
        and searched[0][2] is made[0] and out == ("final-string-of", made[0])
    P.check("newick.one-search-from-the-root", ok, "one depth-first search of the tree's graph from the dummy root with a fresh Newick visitor; its final string is returned", kind="post")


def verify_all(ctx, repo, prop="C12"):
    dsl.verify(ctx, repo, dsl.Registry(), prop, VIS + ".tree_edge", h_tree_edge, expect_covers=["edge.from-root", "edge.from-clone"])
    dsl.verify(ctx, repo, dsl.Registry(), prop, VIS + ".finish_vertex", h_finish_vertex, expect_covers=FINISH_COVERS)
    dsl.verify(ctx, repo, dsl.Registry(), prop, TR + ".to_newick_string", h_to_newick, expect_covers=["to_newick"])
    ctx.trust("rustworkx dfs_search: tree_edge once per non-root vertex of a forest (from its parent), finish_vertex after all descendants (library)",
              "Python str.format / str.join (kept as terms); the induction from the per-vertex contract to the whole string is pen and paper (bounded stand-in parses the written trees back)")
