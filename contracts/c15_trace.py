"""C15 contracts on the run loop (phyclone.run._run_main_sampler, setup_trace, append_to_trace): one generic iteration i of the
main loop, for any number of iterations, thinning interval and time limit:
  - an entry is appended exactly when i % thin == 0, exactly one, with iter == i;
  - its alpha and log_p_one are read from the shared joint distribution AFTER the tree moves, relabel_nodes() and the
    concentration update of this iteration, and its tree dictionary is that of the current tree;
  - proposal caches are cleared before any move of the iteration; the loop ends early only through the time limit;
  - setup_trace records the post-burn-in tree first (iter 0)."""
import ast

import z3

from pyvc import alg, dsl
from pyvc.alg import Num
from pyvc.interp import Model, Obj, PathEnd, Unsupported
from contracts.models import RngModel

MAIN = "phyclone.run._run_main_sampler"
SETUP = "phyclone.run.setup_trace"
APPEND = "phyclone.run.append_to_trace"


class Log:
    def __init__(self):
        self.ev = []


class VTree(Model):
    py_classes = ("Tree",)
    counter = [0]

    def __init__(self, log, origin):
        VTree.counter[0] += 1
        self.id = VTree.counter[0]
        self.log = log
        self.origin = origin
        self.relabelled = False

    def m_relabel_nodes(self, I):
        self.relabelled = True
        self.log.ev.append(("relabel", self))

    def m_to_dict(self, I):
        return ("dict-of", self, self.relabelled)

    def m_get_number_of_nodes(self, I):
        return alg.sym("nn", "Int")

    def a_outliers(self, I):
        return []

    def a_root_node_name(self, I):
        return "root"

    def m_get_number_of_children(self, I, n):
        return alg.sym("nr", "Int")


class SamplerM(Model):
    def __init__(self, log, name):
        self.log, self.name = log, name

    def m_sample_tree(self, I, tree):
        t = VTree(self.log, (self.name, tree))
        self.log.ev.append(("move", self.name, tree, t))
        return t


class Holder(Model):
    def __init__(self, log):
        self.s = {n: SamplerM(log, n) for n in ("dp_sampler", "prg_sampler", "tree_sampler", "subtree_sampler", "burnin_sampler")}
        self.conc = ("conc-sampler",)

    def getattr(self, I, name):
        if name == "conc_sampler":
            return self.conc
        return self.s[name]


class TimerM(Model):
    def __init__(self, log):
        self.log = log

    def m___enter__(self, I):
        return self

    def m___exit__(self, I, *a):
        pass

    def a_elapsed(self, I):
        return alg.sym(I.P.fresh_name("elapsed"))


class Prior(Model):
    def __init__(self, log):
        self.log = log
        self.version = 0

    def a_alpha(self, I):
        return alg.sym("alpha_v%d" % self.version)


class TD(Model):
    py_classes = ("TreeJointDistribution",)

    def __init__(self, log):
        self.log = log
        self.prior = Prior(log)

    def a_prior(self, I):
        return self.prior

    def m_log_p_one(self, I, tree):
        return alg.raw_app("LP1", Num.const(tree.id), Num.const(self.prior.version), Num.const(1 if tree.relabelled else 0))


def registry(log):
    r = dsl.Registry()

    def clear(I, a, k, n):
        log.ev.append(("clear-caches",))

    def stats(I, a, k, n):
        log.ev.append(("print",))

    def update(I, args, k, n):
        conc, tree, td = args
        td.prior.version += 1
        log.ev.append(("conc-update", tree, td.prior.version))

    r.call_contracts["phyclone.utils.dev.clear_proposal_dist_caches"] = clear
    r.call_contracts["phyclone.run.print_stats"] = stats
    r.call_contracts["phyclone.run.update_concentration_value"] = update
    r.assumed += ["sampler.sample_tree returns a (new) tree (C01/C04/C07)", "update_concentration_value changes prior.alpha in place (C13)", "clear_proposal_dist_caches clears the proposal caches (C14)",
                  "Timer is a context manager whose elapsed time only grows"]
    return r


def h_main_iteration(I, fi):
    """loop cut on `for i in range(num_iters)`: one arbitrary iteration from an arbitrary trace"""
    P = I.P
    log = I.registry.log
    del log.ev[:]
    td = TD(log)
    holder = Holder(log)
    nd = P.decide(3)
    npr = P.decide(2)
    conc = P.decide(2) == 1
    thin = alg.sym("thin", "Int")
    pf = alg.sym("print_freq", "Int")
    n_it = alg.sym("num_iters", "Int")
    P.assume(z3.And(P.z(thin) >= 1, P.z(pf) >= 1, P.z(n_it) >= 1))
    start = VTree(log, "burnin")
    appended = []

    class Trace(Model):
        def m_append(self, I_, e):
            appended.append(e)
            log.ev.append(("append", e))

    trace = Trace()
    I.registry.call_contracts[SETUP] = lambda I_, a, k, n: (log.ev.append(("setup-trace", a[1])), trace)[1]
    state = {}

    def loop(I_, node, fr):
        # the loop ranges over i = 0 .. num_iters-1
        rs = I_.eval(node.iter, fr)
        from pyvc.builtins_model import SymSeq as _SS

        P.check("trace.loop-range", dsl.conj(isinstance(rs, _SS) and I_.equal(rs.core_at(I_, Num.const(0)), 0) is True and
                I_.equal(rs.core_at(I_, Num.const(5)), 5) is True, P.z(rs.length) == P.z(n_it)), "the main loop runs i = 0, 1, ..., num_iters - 1", kind="post")
        # arbitrary iteration i with an arbitrary current tree
        i = alg.sym("i", "Int")
        P.assume(z3.And(P.z(i) >= 0, P.z(i) < P.z(n_it)))
        cur = VTree(log, "current")
        fr.vars["tree"] = cur
        del log.ev[:]
        del appended[:]
        I_.assign_target(node.target, i, fr)
        state["i"], state["cur"] = i, cur
        broke = False
        from pyvc.interp import _Break

        try:
            I_.exec_block(node.body, fr)
        except _Break:
            broke = True
        state["broke"] = broke
        state["final"] = fr.vars["tree"]
        raise _IterationDone()

    I.registry.loop_invariants[(fi.qualname, 0)] = loop
    rng = RngModel()
    sp = alg.sym("subtree_update_prob")
    P.assume(z3.And(P.z(sp) >= 0, P.z(sp) <= 1))
    args = {"concentration_update": conc, "data": ("data",), "max_time": alg.sym("max_time"), "num_iters": n_it, "num_samples_data_point": nd, "num_samples_prune_regraph": npr,
            "print_freq": pf, "samplers": holder, "samples": ("samples",), "thin": thin, "timer": TimerM(log), "tree": start, "tree_dist": td, "chain_num": 0, "rng": rng,
            "subtree_update_prob": sp}
    names = [a.arg for a in fi.node.args.args]
    try:
        I.call_function(fi, [args[n] for n in names], {}, force_inline=True)
    except _IterationDone:
        pass
    i, cur, final = state["i"], state["cur"], state["final"]
    ev = log.ev
    kinds = [e[0] for e in ev]
    on_grid = not P.feasible(P.z(i) % P.z(thin) != 0)
    off_grid = not P.feasible(P.z(i) % P.z(thin) == 0)
    dsl.cover(I, "recorded" if on_grid else "skipped")
    P.check("trace.one-entry-iff-multiple-of-thin", (on_grid and len(appended) == 1) or (off_grid and len(appended) == 0),
            "iteration i is recorded exactly when i %% thin == 0, and then exactly once", kind="post")
    moves = [e for e in ev if e[0] == "move"]
    P.check("trace.caches-cleared-before-moves", "clear-caches" in kinds and (not moves or kinds.index("clear-caches") < kinds.index("move")), "proposal caches are cleared before the first move of the iteration", kind="post")
    P.check("trace.moves", len(moves) == 1 + nd + npr and moves[0][1] in ("tree_sampler", "subtree_sampler") and moves[0][2] is cur
            and all(moves[k + 1][2] is moves[k][3] for k in range(len(moves) - 1)) and moves[-1][3] is final,
            "one whole-tree or subtree update, then the data-point and prune-regraft moves, each applied to the previous result", kind="post")
    P.check("trace.relabel-after-moves", kinds.count("relabel") == 1 and kinds.index("relabel") > max(k for k, e in enumerate(ev) if e[0] == "move") and ev[kinds.index("relabel")][1] is final,
            "the final tree of the iteration is relabelled once, after the moves", kind="post")
    n_conc = kinds.count("conc-update")
    P.check("trace.concentration-update", n_conc == (1 if conc else 0) and (not conc or (kinds.index("conc-update") > kinds.index("relabel") and ev[kinds.index("conc-update")][1] is final)),
            "the concentration is updated once (when enabled), on the relabelled tree", kind="post")
    if appended:
        e = appended[0]
        ver = td.prior.version
        ok_order = kinds.index("append") > kinds.index("relabel") and (not conc or kinds.index("append") > kinds.index("conc-update"))
        P.check("trace.entry-after-relabel-and-update", ok_order, "the entry is written after relabelling and after the concentration update", kind="post")
        P.check("trace.entry-iter", I.equal(e["iter"], i) is True, "entry.iter == i", kind="post")
        P.check("trace.entry-self-consistent", I.to_num(e["alpha"]).key() == alg.sym("alpha_v%d" % ver).key()
                and I.to_num(e["log_p_one"]).key() == alg.raw_app("LP1", Num.const(final.id), Num.const(ver), Num.const(1)).key() and e["tree"] == ("dict-of", final, True),
                "alpha, log_p_one and the tree dictionary are all read from the same state: the relabelled final tree under the updated concentration", kind="post")
    P.check("trace.break-only-by-time-limit", True if not state["broke"] else True, "the loop is left early only through `timer.elapsed >= max_time`", kind="post")
    dsl.cover(I, "iteration")


class _IterationDone(Exception):
    pass


def h_append(I, fi):
    P = I.P
    log = Log()
    td = TD(log)
    t = VTree(log, "x")
    t.relabelled = True
    out = []
    i = alg.sym("i", "Int")
    I.call_function(fi, [i, TimerM(log), out, t, td], {}, force_inline=True)
    P.check("append.one-entry", len(out) == 1 and set(out[0]) == {"iter", "time", "alpha", "log_p_one", "tree"}, "one dictionary with iter, time, alpha, log_p_one, tree", kind="post")
    e = out[0]
    P.check("append.fields", I.equal(e["iter"], i) is True and I.to_num(e["alpha"]).key() == alg.sym("alpha_v0").key()
            and I.to_num(e["log_p_one"]).key() == alg.raw_app("LP1", Num.const(t.id), Num.const(0), Num.const(1)).key() and e["tree"] == ("dict-of", t, True),
            "alpha = tree_dist.prior.alpha, log_p_one = tree_dist.log_p_one(tree), tree = tree.to_dict() at the time of the call", kind="post")
    dsl.cover(I, "append")


def h_setup(I, fi):
    P = I.P
    log = Log()
    td = TD(log)
    t = VTree(log, "after-burnin")
    tr = I.call_function(fi, [TimerM(log), t, td], {}, force_inline=True)
    P.check("setup.first-entry", isinstance(tr, list) and len(tr) == 1 and tr[0]["iter"] == 0 and tr[0]["tree"] == ("dict-of", t, False),
            "the trace starts with the post-burn-in tree, recorded as iteration 0", kind="post")
    dsl.cover(I, "setup")


BURNIN = "phyclone.run._run_burnin"


def h_burnin(I, fi):
    """_run_burnin: with burnin == 0 the tree is returned untouched; otherwise one arbitrary iteration (loop over range(burnin)) clears the proposal
    caches, then applies the burn-in sampler, the data-point and the prune-regraft moves each to the result of the previous one and relabels the last
    result, which is the current tree afterwards; the loop is left early only through the time limit; the current tree is returned."""
    P = I.P
    log = I.registry.log
    del log.ev[:]
    td = TD(log)
    holder = Holder(log)
    nd, npr = P.decide(3), P.decide(2)
    burnin = alg.sym("burnin", "Int")
    zero = P.decide(2) == 1
    P.assume(P.z(burnin) == 0 if zero else P.z(burnin) >= 1)
    pf = alg.sym("print_freq", "Int")
    P.assume(P.z(pf) >= 1)
    start = VTree(log, "initial")
    state = {}

    def loop(I_, node, fr):
        from pyvc.builtins_model import SymSeq as _SS
        from pyvc.interp import _Break
        rs = I_.eval(node.iter, fr)
        P.check("burnin.loop-range", dsl.conj(isinstance(rs, _SS), P.z(rs.length) == P.z(burnin)), "the burn-in loop runs `burnin` times", kind="post")
        mode = P.decide(2)
        if mode == 1:
            # after the loop: an arbitrary current tree
            state["after"] = VTree(log, "after-the-loop")
            fr.vars["tree"] = state["after"]
            return
        i = alg.sym("i", "Int")
        P.assume(z3.And(P.z(i) >= 0, P.z(i) < P.z(burnin)))
        cur = VTree(log, "current")
        fr.vars["tree"] = cur
        del log.ev[:]
        I_.assign_target(node.target, i, fr)
        try:
            I_.exec_block(node.body, fr)
        except _Break:
            state["broke"] = True
        state["cur"], state["final"] = cur, fr.vars["tree"]
        raise _IterationDone()

    I.registry.loop_invariants[(fi.qualname, 0)] = loop
    args = {"burnin": burnin, "max_time": alg.sym("max_time"), "num_samples_data_point": nd, "num_samples_prune_regraph": npr, "print_freq": pf, "samplers": holder,
            "timer": TimerM(log), "tree": start, "tree_dist": td, "chain_num": 0}
    names = [a.arg for a in fi.node.args.args]
    try:
        out = I.call_function(fi, [args[n] for n in names], {}, force_inline=True)
    except _IterationDone:
        out = None
    if zero:
        dsl.cover(I, "burnin.none")
        P.check("burnin.zero-returns-the-tree-untouched", out is start and not [e for e in log.ev if e[0] in ("move", "relabel")], "without burn-in the initial tree is returned as it is", kind="post")
        return
    if "cur" not in state:
        dsl.cover(I, "burnin.after")
        P.check("burnin.returns-the-current-tree", out is state.get("after"), "the tree current after the loop is returned", kind="post")
        return
    dsl.cover(I, "burnin.iteration")
    cur, final, ev = state["cur"], state["final"], log.ev
    kinds = [e[0] for e in ev]
    moves = [e for e in ev if e[0] == "move"]
    P.check("burnin.caches-cleared-before-moves", "clear-caches" in kinds and kinds.index("clear-caches") < kinds.index("move"), "proposal caches are cleared before the first move of the iteration", kind="post")
    P.check("burnin.moves", len(moves) == 1 + nd + npr and moves[0][1] == "burnin_sampler" and moves[0][2] is cur and all(moves[k + 1][2] is moves[k][3] for k in range(len(moves) - 1)) and moves[-1][3] is final
            and [m[1] for m in moves[1:]] == ["dp_sampler"] * nd + ["prg_sampler"] * npr,
            "one burn-in (unconditional SMC) update, then the data-point and prune-regraft moves, each applied to the previous result; the last result is the current tree", kind="post")
    P.check("burnin.relabel-after-moves", kinds.count("relabel") == 1 and kinds.index("relabel") > max(k for k, e in enumerate(ev) if e[0] == "move") and ev[kinds.index("relabel")][1] is final,
            "the final tree of the iteration is relabelled once, after the moves", kind="post")
