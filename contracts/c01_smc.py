"""Contracts on the SMC machinery (C01 L3/L5/L6/L7/L8, C08 weights, C19 index safety):
Kernel.create_particle (+ the real Particle / TreeHolder constructors and setters), AbstractSMCSampler._get_log_w and
.sample, ConditionalSMCSampler._init_swarm/_update_swarm/_resample_swarm, SMCSampler.*, ParticleSwarm.*.
Particle counts N and numbers of data points T are symbolic (unbounded)."""
import ast

import z3

from pyvc import alg, dsl
from pyvc.alg import Num
from pyvc.builtins_model import NpArr, SymSeq
from pyvc.interp import Model, Obj, Unsupported, VC
from contracts.models import DataPointModel, RngModel

K_BASE = "phyclone.smc.kernels.base.Kernel"
CREATE = K_BASE + ".create_particle"
GETLOGW = "phyclone.smc.samplers.base.AbstractSMCSampler._get_log_w"
SAMPLE = "phyclone.smc.samplers.base.AbstractSMCSampler.sample"
PROPOSE = "phyclone.smc.samplers.base.AbstractSMCSampler._propose_particle"
CSMC = "phyclone.smc.samplers.conditional.ConditionalSMCSampler"
SMC = "phyclone.smc.samplers.standard.SMCSampler"
SWARM = "phyclone.smc.swarm.swarm.ParticleSwarm"


# ----------------------------------------------------------------------------------------------------------- models


class OpaqueTree(Model):
    """A tree value known only through uninterpreted observers of its identity (assumed Layer-1 contracts:
    to_dict/from_dict round trip is the identity on the abstract value; observers are functions of the value)."""

    py_classes = ("Tree",)

    def __init__(self, name):
        self.name = name
        self.tid = alg.sym("tree_" + name, "Int")

    def f(self, fn, sort="Real"):
        return alg.raw_app(fn, self.tid, sort=sort)

    def a_outlier_node_name(self, I):
        return -1

    def a_roots(self, I):
        n = self.f("nroots", "Int")
        I.P.assume(I.P.z(n) >= 0)
        return SymSeq("roots(%s)" % self.name, n, lambda i: alg.raw_app("root", self.tid, i, sort="Int"))

    def a_nodes(self, I):
        n = self.f("nnodes", "Int")
        I.P.assume(I.P.z(n) >= 0)
        return SymSeq("nodes(%s)" % self.name, n, lambda i: alg.raw_app("node", self.tid, i, sort="Int"))

    def a_labels(self, I):
        return ("labels-of", self.name)

    def a_node_last_added_to(self, I):
        return self.f("last", "Int")

    def m_get_number_of_children(self, I, node):
        return alg.raw_app("nch", self.tid, I.to_num(node), sort="Int")

    def m_to_dict(self, I):
        return TreeDict(self)

    def hash(self, I):
        return self.f("treehash", "Int")

    def eq(self, I, other):
        if isinstance(other, OpaqueTree):
            return I.equal(self.tid, other.tid)
        return False


class TreeDict(Model):
    def __init__(self, tree):
        self.tree = tree

    def eq(self, I, other):
        return isinstance(other, TreeDict) and I.equal(self.tree.tid, other.tree.tid)


class TreeDist(Model):
    """TreeJointDistribution by its contract (C03): both densities are functions of the tree value."""

    py_classes = ("TreeJointDistribution",)

    def m_compute_both_log_p_and_log_p_one(self, I, tree):
        return (tree.f("LP"), tree.f("LP1"))

    def m_log_p(self, I, tree):
        return tree.f("LP")

    def m_log_p_one(self, I, tree):
        return tree.f("LP1")


class PermDist(Model):
    py_classes = ("RootPermutationDistribution",)

    def m_log_pdf(self, I, tree):
        return tree.f("LPDF")


def base_registry():
    r = dsl.Registry()
    r.call_contracts["phyclone.tree.tree.Tree.from_dict"] = lambda I, args, kwargs, node: args[-1].tree
    r.assumed += ["Tree.to_dict / Tree.from_dict round trip (C15 Layer 1)", "TreeJointDistribution densities are functions of the tree value (C03)",
                  "RootPermutationDistribution.log_pdf is a function of the tree value (C09)"]
    return r


# ----------------------------------------------------------------------------------------------------------- L3 create_particle


def h_create_particle(I, create_fi):
    P = I.P
    td = TreeDist()
    with_perm = P.decide(2) == 1
    pd = PermDist() if with_perm else None
    dsl.cover(I, "perm" if with_perm else "no-perm")
    kernel = Obj(create_fi.cls)
    kernel.fields.update({"tree_dist": td, "perm_dist": pd, "_rng": RngModel()})
    particle_cls = create_fi.module.resolve("Particle")
    holder_cls = particle_cls.module.resolve("TreeHolder")
    has_parent = P.decide(2) == 1
    dsl.cover(I, "parent" if has_parent else "first")
    parent = None
    t_prev = None
    if has_parent:
        t_prev = OpaqueTree("prev")
        # the parent particle is built by the real constructor as well (its fields are what the real setters store)
        parent = I.instantiate(particle_cls, [alg.sym("w_prev"), None, t_prev, td, pd], {})
    t = OpaqueTree("cur")
    as_holder = P.decide(2) == 1
    dsl.cover(I, "holder-arg" if as_holder else "tree-arg")
    arg = I.instantiate(holder_cls, [t, td, pd], {}) if as_holder else t
    log_q = alg.sym("log_q")
    p = I.call_function(create_fi, [kernel, log_q, parent, arg], {}, force_inline=True)
    gamma = t.f("LP") + (t.f("LPDF") if with_perm else 0)
    gamma_prev = (t_prev.f("LP") + (t_prev.f("LPDF") if with_perm else 0)) if has_parent else Num.const(0)
    tag = "%s,%s" % ("perm" if with_perm else "noperm", "parent" if has_parent else "first")
    P.check("L3.incremental-weight[%s]" % tag, P.z(I.to_num(I.getattr(p, "log_w"))) == P.z(gamma - gamma_prev - log_q),
            "log_w = (log_p+log_pdf)(x_t) - (log_p+log_pdf)(x_{t-1}) - log_q", kind="post")
    P.check("L3.particle-holds-densities[%s]" % tag,
            z3.And(P.z(I.to_num(I.getattr(p, "log_p"))) == P.z(t.f("LP")), P.z(I.to_num(I.getattr(p, "log_p_one"))) == P.z(t.f("LP1")),
                   P.z(I.to_num(I.getattr(p, "log_pdf"))) == P.z(t.f("LPDF") if with_perm else Num.const(0))),
            "particle.log_p / log_p_one / log_pdf are those of the very tree it holds", kind="post")
    P.check("L3.parent-link[%s]" % tag, I.getattr(p, "parent_particle") is parent, "particle.parent_particle is the given parent", kind="post")
    back = I.getattr(p, "tree")
    P.check("L8.tree-roundtrip[%s]" % tag, I.equal(back, t), "particle.tree returns the tree it was given (dict round trip)", kind="post")
    roots = I.getattr(p, "tree_roots")
    P.check("L3.roots-of-held-tree[%s]" % tag, P.z(roots.length) == P.z(t.f("nroots", "Int")), "particle.tree_roots lists the roots of the held tree", kind="post")


CREATE_COVERS = ["perm", "no-perm", "parent", "first", "holder-arg", "tree-arg"]


# ----------------------------------------------------------------------------------------------------------- L7 _get_log_w


class PModel(Model):
    """a particle by its stored numbers"""

    py_classes = ("Particle",)

    def __init__(self, name, parent=None):
        self.name = name
        self.parent = parent

    def _s(self, f):
        return alg.sym("%s_%s" % (f, self.name))

    def a_log_w(self, I):
        return self._s("log_w")

    def a_log_p(self, I):
        return self._s("log_p")

    def a_log_p_one(self, I):
        return self._s("log_p_one")

    def a_parent_particle(self, I):
        return self.parent

    def a_tree(self, I):
        return OpaqueTree("of_" + self.name)


def sampler_obj(I, fi, T=None, it=None, N=None):
    s = Obj(fi.cls)
    T = T if T is not None else alg.sym("T", "Int")
    it = it if it is not None else alg.sym("it", "Int")
    N = N if N is not None else alg.sym("N", "Int")
    s.fields.update({"num_iterations": T, "iteration": it, "num_particles": N, "resample_threshold": alg.sym("thr"),
                     "_rng": RngModel()})
    return s, T, it, N


def h_get_log_w(I, fi):
    P = I.P
    s, T, it, N = sampler_obj(I, fi)
    P.assume(z3.And(P.z(T) >= 1, P.z(it) >= 0, P.z(it) < P.z(T)))
    p = PModel("p")
    last = P.decide(2) == 1
    P.assume(P.z(it) == P.z(T) - 1 if last else P.z(it) < P.z(T) - 1)
    dsl.cover(I, "last" if last else "not-last")
    r = I.call_function(fi, [s, p], {}, force_inline=True)
    want = p.a_log_w(I) - p.a_log_p(I) + p.a_log_p_one(I) if last else p.a_log_w(I)
    P.check("L7.final-correction[%s]" % ("last" if last else "before-last"), P.z(I.to_num(r)) == P.z(want),
            "log_p_one - log_p is added exactly at iteration == num_iterations - 1", kind="post")


# ----------------------------------------------------------------------------------------------------------- ParticleSwarm


def swarm_obj(I, repo, name, N):
    cls = repo.lookup(SWARM)
    sw = Obj(cls)
    uw = SymSeq("uw(%s)" % name, N, lambda i: alg.raw_app("uw_" + name, i))
    parts = SymSeq("particles(%s)" % name, N, lambda i: IndexedParticle(name, i))
    sw.fields.update({"particles": parts, "_unnormalized_log_weights": uw, "_log_norm_const": None})
    return sw


class IndexedParticle(Model):
    py_classes = ("Particle",)

    def __init__(self, swarm, i):
        self.swarm = swarm
        self.i = i

    def a_parent_particle(self, I):
        return ("parent-of", self.swarm, self.i)

    def a_log_w(self, I):
        return alg.raw_app("plogw_" + self.swarm, self.i)

    def eq(self, I, other):
        return isinstance(other, IndexedParticle) and other.swarm == self.swarm and I.equal(self.i, other.i)


def h_swarm(I, cls):
    P = I.P
    N = alg.sym("N", "Int")
    P.assume(P.z(N) >= 1)
    sw = swarm_obj(I, I.repo, "s", N)
    lw = I.getattr(sw, "log_weights")
    i = alg.sym("i", "Int")
    P.assume(z3.And(P.z(i) >= 0, P.z(i) < P.z(N)))
    b = alg.bound_index()
    Z = alg.bigsum("uw(s)", N, alg.sexp(alg.raw_app("uw_s", b)))
    P.assume(P.z(Z) > 0, "a sum of exponentials over a non-empty swarm is positive")
    P.check("swarm.log_weights", P.z(I.to_num(lw.at(I, i))) == P.z(alg.raw_app("uw_s", i) - alg.slog(Z)),
            "log_weights[i] = unnormalised[i] - log sum_j exp(unnormalised[j])", kind="post")
    w = I.getattr(sw, "weights")
    P.check("swarm.weights", P.z(I.to_num(w.at(I, i))) == P.z(alg.sexp(alg.raw_app("uw_s", i)) / Z),
            "weights[i] = exp(unnormalised[i]) / sum_j exp(unnormalised[j])", kind="post")
    tot = w.m_sum(I)
    P.check("swarm.weights-normalised", P.z(I.to_num(tot)) == 1, "sum of weights == 1", kind="post")
    n = I.getattr(sw, "num_particles")
    P.check("swarm.num_particles", P.z(I.to_num(n)) == P.z(N), "num_particles = len(particles)", kind="post")


# ----------------------------------------------------------------------------------------------------------- L6 _update_swarm


class KernelModel(Model):
    """Kernel.propose_particle by contract: a fresh particle whose parent is the given particle (C08 gives its weight)."""

    py_classes = ("Kernel",)

    def __init__(self):
        self.calls = []
        self.rng = RngModel()

    def a_rng(self, I):
        return self.rng

    def m_propose_particle(self, I, data_point, parent_particle):
        p = PModel("prop%d" % len(self.calls), parent=parent_particle)
        self.calls.append((data_point, parent_particle, p))
        return p


class Recorder(Model):
    """write-only stand-in for the ParticleSwarm under construction: records add_particle(weight, particle)"""

    py_classes = ("ParticleSwarm",)

    def __init__(self):
        self.adds = []

    def m_add_particle(self, I, w, p):
        self.adds.append((w, p, list(I.P.ghost.get("generic_indices", []))))

    def a_particles(self, I):
        return [p for _, p, _ in self.adds]


def csmc_obj(I, repo, swarm_name="old"):
    cls = repo.lookup(CSMC)
    s, T, it, N = sampler_obj(I, repo.lookup(CSMC + "._update_swarm"))
    P = I.P
    P.assume(z3.And(P.z(N) >= 1, P.z(T) >= 1))
    kern = KernelModel()
    s.fields["kernel"] = kern
    s.fields["data_points"] = SymSeq("sigma", T, lambda i: DataPointModel("dp") if False else ("data-point", i))
    s.fields["constrained_path"] = SymSeq("cpath", T + 1, lambda i: PModel("cp") if False else CPathParticle(i))
    s.fields["swarm"] = swarm_obj(I, repo, swarm_name, N)
    return s, T, it, N, kern


class CPathParticle(PModel):
    def __init__(self, i):
        self.i = i
        self.name = "cp"
        self.parent = None

    def _s(self, f):
        return alg.raw_app("cp_" + f, self.i)

    def eq(self, I, other):
        return isinstance(other, CPathParticle) and I.equal(self.i, other.i)


def update_registry():
    r = base_registry()
    r.class_models["ParticleSwarm"] = lambda I: Recorder()
    r.generic_loops.add(CSMC + "._update_swarm")
    r.generic_loops.add(SMC + "._update_swarm")
    r.assumed += ["Kernel.propose_particle returns a particle whose parent is the given particle (KernelModel; weights: C08 contracts)",
                  "independent-iterations rule for the propagation loop: the body writes only to the new swarm (write-only recorder)"]
    return r


def h_update_swarm(I, fi):
    P = I.P
    s, T, it, N, kern = csmc_obj(I, I.repo)
    P.assume(z3.And(P.z(it) >= 1, P.z(it) < P.z(T)), "called from sample(): 1 <= iteration < num_iterations")
    last = P.decide(2) == 1
    P.assume(P.z(it) == P.z(T) - 1 if last else P.z(it) < P.z(T) - 1)
    dsl.cover(I, "update-last" if last else "update-not-last")
    I.call_function(fi, [s], {}, force_inline=True)
    new = I.getattr(s, "swarm")
    if not isinstance(new, Recorder):
        raise Unsupported("_update_swarm did not install a freshly built swarm")
    b = alg.bound_index()
    Z = alg.bigsum("uw(old)", N, alg.sexp(alg.raw_app("uw_old", b)))

    def corr(p):
        return (p.a_log_w(I) - p.a_log_p(I) + p.a_log_p_one(I)) if last else p.a_log_w(I)

    single = len(new.adds) == 1 and not P.feasible(P.z(N) != 1)  # N == 1: no propagated slot at all
    P.check("L6.adds", len(new.adds) == 2 or single, "one retained-slot add and one add per propagated slot (generic iteration; none when N == 1)", kind="post")
    if not (len(new.adds) == 2 or single):
        return
    (w0, p0, g0) = new.adds[0]
    (w1, p1, g1) = new.adds[1] if not single else (None, None, None)
    cp = CPathParticle(it + 1)
    P.check("L6.slot0-particle", I.equal(p0, cp), "slot 0 is constrained_path[iteration + 1]", kind="post")
    P.check("L6.slot0-weight", P.z(I.to_num(w0)) == P.z(alg.raw_app("uw_old", Num.const(0)) - alg.slog(Z) + corr(cp)),
            "slot 0 weight = normalised old log-weight of slot 0 + _get_log_w(retained particle)", kind="post")
    if single:
        P.check("L6.no-proposal-when-N-is-1", len(kern.calls) == 0 and len(g0) == 0, "with a single particle nothing is proposed", kind="post")
        return
    P.check("L6.generic-slot", len(g1) == 1 and len(g0) == 0, "the propagated add happens inside the loop, the retained add outside", kind="post")
    j = g1[0]
    data_point, parent, prop = kern.calls[0]
    P.check("L6.parent-is-old-slot", z3.And(isinstance(parent, IndexedParticle), P.z(parent.i) == P.z(j) + 1) if isinstance(parent, IndexedParticle) else False,
            "slot j+1 is proposed from old particle j+1 (never from slot 0)", kind="post")
    P.check("L6.data-point", isinstance(data_point, tuple) and I.equal(data_point[1], it) is True, "the proposal places data_points[iteration]", kind="post")
    P.check("L6.slot-weight", P.z(I.to_num(w1)) == P.z(alg.raw_app("uw_old", j + 1) - alg.slog(Z) + corr(prop)),
            "slot j+1 weight = normalised old log-weight of slot j+1 + _get_log_w(new particle)", kind="post")
    P.check("L6.proposals-per-slot", len(kern.calls) == 1 and p1 is prop, "exactly one proposal per propagated slot and that particle is stored", kind="post")


# ----------------------------------------------------------------------------------------------------------- L5 _init_swarm


def h_init_swarm(I, fi):
    P = I.P
    s, T, it, N, kern = csmc_obj(I, I.repo)
    s.fields["iteration"] = 0
    s.fields["swarm"] = None
    last = P.decide(2) == 1
    P.assume(P.z(T) == 1 if last else P.z(T) > 1)
    dsl.cover(I, "init-T1" if last else "init-T>1")
    I.call_function(fi, [s], {}, force_inline=True)
    new = I.getattr(s, "swarm")

    def corr(p):
        return (p.a_log_w(I) - p.a_log_p(I) + p.a_log_p_one(I)) if last else p.a_log_w(I)

    P.check("L5.iteration", I.equal(I.getattr(s, "iteration"), 1), "the first data point is consumed: iteration == 1", kind="post")
    single = isinstance(new, Recorder) and len(new.adds) == 1 and not P.feasible(P.z(N) != 1)  # N == 1: only the retained particle
    P.check("L5.adds", isinstance(new, Recorder) and (len(new.adds) == 2 or single), "retained add + one add per other slot (none when N == 1)", kind="post")
    if not (isinstance(new, Recorder) and (len(new.adds) == 2 or single)):
        return
    (w0, p0, g0) = new.adds[0]
    (w1, p1, g1) = new.adds[1] if not single else (None, None, None)
    P.check("L5.slot0", I.equal(p0, CPathParticle(Num.const(1))), "slot 0 is constrained_path[1]", kind="post")
    cp = CPathParticle(Num.const(1))
    P.check("L5.slot0-weight", P.z(I.to_num(w0)) == P.z(-alg.slog(N) + corr(cp)), "first weight = -log N + _get_log_w (not discarded)", kind="post")
    if single:
        P.check("L5.no-proposal-when-N-is-1", len(kern.calls) == 0, "with a single particle nothing is proposed", kind="post")
        return
    dp, parent, prop = kern.calls[0]
    P.check("L5.first-parent-none", parent is None, "first-generation particles are proposed from no parent", kind="post")
    P.check("L5.slot-weight", P.z(I.to_num(w1)) == P.z(-alg.slog(N) + corr(prop)), "first weight = -log N + _get_log_w(particle)", kind="post")
    P.check("L5.count", len(g1) == 1 and len(kern.calls) == 1, "N - 1 proposed particles (loop over range(N-1), generic iteration)", kind="post")


def init_registry():
    r = update_registry()
    r.generic_loops.add(CSMC + "._init_swarm")
    return r


class RangeSeqHook:
    pass


# ----------------------------------------------------------------------------------------------------------- resampling


def h_resample(I, fi):
    P = I.P
    s, T, it, N, kern = csmc_obj(I, I.repo)
    P.assume(z3.And(P.z(it) >= 1, P.z(it) < P.z(T)), "callers: after _init_swarm with iteration < T; in the loop with iteration < T - 1")
    before = I.getattr(s, "swarm")
    I.call_function(fi, [s], {}, force_inline=True)
    after = I.getattr(s, "swarm")
    if after is before:
        dsl.cover(I, "resample-not-triggered")
        P.check("L6.resample.unchanged", True, "swarm object untouched when relative ESS > threshold", kind="post")
        return
    dsl.cover(I, "resample-triggered")
    (w0, p0, g0) = after.adds[0]
    P.check("L6.resample.slot0", I.equal(p0, CPathParticle(it + 1)), "slot 0 keeps the retained lineage", kind="post")
    P.check("L6.resample.uniform", all(P.z(I.to_num(w)) is not None and (I.to_num(w) + alg.slog(N)).is_zero() for w, _, _ in after.adds),
            "every resampled particle has weight -log N", kind="post")


def resample_registry():
    r = update_registry()
    r.generic_loops.add(CSMC + "._resample_swarm")
    return r


def h_swarm_add(I, init_fi, add_fi):
    """ParticleSwarm.__init__ / add_particle: an empty swarm; adding (w, p) appends p and w at the same position of the two parallel lists and
    invalidates the cached normalisation constant (so weights are always those of the particles present: the Recorder abstraction used by the
    sampler contracts is the view (w_i, p_i)_i of these two lists)."""
    P = I.P
    sw0 = Obj(init_fi.cls)
    I.call_function(init_fi, [sw0], {}, force_inline=True)
    P.check("swarm.init-empty", sw0.fields.get("particles") == [] and sw0.fields.get("_unnormalized_log_weights") == [] and sw0.fields.get("_log_norm_const") is None
            and sw0.fields["particles"] is not sw0.fields["_unnormalized_log_weights"], "a new swarm has no particle, no weight and no cached constant", kind="post")
    N = alg.sym("N", "Int")
    P.assume(P.z(N) >= 0)
    sw = swarm_obj(I, I.repo, "s", N)
    sw.fields["_log_norm_const"] = alg.sym("stale_Z")
    w, p = alg.sym("w_new"), IndexedParticle("new", Num.const(0))
    I.call_function(add_fi, [sw, w, p], {}, force_inline=True)
    dsl.cover(I, "swarm.add")
    parts, uw = sw.fields["particles"], sw.fields["_unnormalized_log_weights"]
    ok = isinstance(parts, SymSeq) and isinstance(uw, SymSeq) and parts.tail == [p] and len(uw.tail) == 1 and (I.to_num(uw.tail[0]) - w).is_zero() \
        and parts.core_len.key() == N.key() and uw.core_len.key() == N.key()
    P.check("swarm.add-appends-in-parallel", ok, "the particle and its weight are appended at the same (last) position; earlier entries are untouched", kind="post")
    P.check("swarm.add-invalidates-the-constant", sw.fields["_log_norm_const"] is None, "the cached normalisation constant is dropped", kind="post")
