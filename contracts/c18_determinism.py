"""C18 contracts (repository-side conditions for seeded reproducibility):

 (a) run.run: for EVERY completion order of the worker futures, results[c] is the result of
     run_phyclone_chain(..., rng = rng_main.spawn(num_chains)[c], ..., chain_num = c, ...)  (symbolic execution, z3);
 (b) RNG threading / no ambient randomness: structural obligations discharged by AST analysis of every module on the run path
     (no numpy global RNG, no stdlib random, no unseeded default_rng except the documented seed=None branch, every scipy
     .rvs() call passes random_state, no wall-clock reads outside utils.Timer);
 (c) no iteration over a hash-ordered collection (set / frozenset / set algebra) on the run path.

What no contract here can decide: the interpreter's behaviour under different PYTHONHASHSEED values, OS scheduling, process
spawning, BLAS threading, determinism of numpy / scipy / rustworkx given equal inputs - listed as unchecked assumptions."""
import ast
import os

import z3

from pyvc import alg, dsl
from pyvc.alg import Num
from pyvc.builtins_model import SymSeq
from pyvc.interp import Model, Obj, PyRaise, Unsupported
from pyvc.source import _dotted

RUN = "phyclone.run.run"
RUN_PATH_EXCLUDE = ("phyclone/tests/", "phyclone/process_trace/consensus.py", "phyclone/process_trace/map.py", "phyclone/cli.py", "phyclone/utils/dev.py")


# ----------------------------------------------------------------------------------------------------------- (a) chain keying


class ChildRng(Model):
    py_classes = ("Generator",)

    def __init__(self, k):
        self.k = k


class MainRng(Model):
    py_classes = ("Generator",)

    def __init__(self, seed):
        self.seed = seed
        self.spawned = None

    def m_spawn(self, I, n):
        self.spawned = n
        return SymSeq("spawn", I.to_num(n), lambda k: ChildRng(k))


class Future(Model):
    def __init__(self, fn, args):
        self.fn, self.args = fn, args

    def m_exception(self, I):
        return None

    def m_result(self, I):
        return ChainResult(self)


class ChainResult(Model):
    def __init__(self, fut):
        self.fut = fut

    def getitem(self, I, key):
        if key == "chain_num":
            # contract of run_phyclone_chain / _run_main_sampler: the result carries the chain number it was given
            return self.fut.args[16]
        raise Unsupported("result[%r]" % (key,))


class Pool(Model):
    def __init__(self, log):
        self.log = log

    def m___enter__(self, I):
        return self

    def m___exit__(self, I, *a):
        self.log.append(("pool-closed",))

    def m_submit(self, I, fn, *args):
        return Future(fn, args)


def run_registry(log):
    r = dsl.Registry()
    r.globals_override["ProcessPoolExecutor"] = lambda I, **k: Pool(log)
    r.globals_override["get_context"] = lambda I, m: ("mp-context", m)
    r.globals_override["as_completed"] = lambda I, futs: SymSeq("as_completed", futs.length, lambda j: futs.at(I, alg.raw_app("completion_order", j, sort="Int")),
                                                                 lambda I_, j: [I_.P.z(alg.raw_app("completion_order", j, sort="Int")) >= 0,
                                                                                I_.P.z(alg.raw_app("completion_order", j, sort="Int")) < I_.P.z(futs.length)])
    r.call_contracts["phyclone.run.print_welcome_message"] = lambda I, a, k, n: None
    r.call_contracts["phyclone.data.pyclone.load_data"] = lambda I, a, k, n: (("data",), ("samples",))
    r.call_contracts["phyclone.run.instantiate_and_seed_RNG"] = lambda I, a, k, n: MainRng(a[0])

    def writer(I, args, kwargs, node):
        log.append(("write", args[1], args[2]))

    r.call_contracts["phyclone.process_trace.process_trace.create_main_run_output"] = writer

    def chain(I, args, kwargs, node):
        log.append(("chain-in-process", args))
        return ("single-chain-result", args)

    r.call_contracts["phyclone.run.run_phyclone_chain"] = chain
    r.generic_loops.add(RUN)
    r.generic_store_ok = {"results"}
    r.assumed += ["as_completed(fs) yields each future exactly once in an arbitrary order (concurrent.futures axiom)", "Generator.spawn(k)[c] is a function of (seed, c) only (numpy axiom)",
                  "run_phyclone_chain returns a result whose chain_num is its chain_num argument (C13/C15 contracts)",
                  "a future's result is the function applied to pickled copies of the submitted arguments in a fresh interpreter (spawn context)"]
    return r


def h_run(I, fi):
    P = I.P
    log = I.registry.log
    del log[:]
    multi = P.decide(2) == 1
    n_chains = alg.sym("num_chains", "Int") if multi else 1
    if multi:
        P.assume(P.z(n_chains) >= 2)
    dsl.cover(I, "multi-chain" if multi else "single-chain")
    seed = alg.sym("seed", "Int")
    out = I.call_function(fi, [("in-file",), ("out-file",)], {"num_chains": n_chains, "seed": seed}, force_inline=True)
    w = [e for e in log if e[0] == "write"]
    P.check("run.results-written-once", len(w) == 1 and w[0][1] == ("out-file",), "the result mapping is written once, to the requested file", kind="post")
    results = w[0][2]
    if not multi:
        c = [e for e in log if e[0] == "chain-in-process"]
        ok = len(c) == 1 and isinstance(c[0][1][13], MainRng) and c[0][1][16] == 0 and I.dict_get(results, 0) == ("single-chain-result", c[0][1])
        P.check("run.single-chain", ok, "one chain runs in-process with the seeded generator as chain 0 and is stored under key 0", kind="post")
        return
    keys = list(results.keys())
    P.check("run.stored-once-per-completed-future", len(keys) == 1, "each completed future stores exactly one result (generic iteration over the completion order)", kind="post")
    k = keys[0]
    res = results[k]
    fut = res.fut
    args = fut.args
    P.check("run.keyed-by-own-chain-number", I.equal(k, args[16]) is True, "a result is stored under the chain number of the chain that produced it, whatever the completion order", kind="post")
    rng = args[13]
    P.check("run.chain-uses-its-own-spawned-generator", isinstance(rng, ChildRng) and I.equal(rng.k, args[16]) is True,
            "chain c is submitted with generator spawn(num_chains)[c] and chain_num = c", kind="post")
    P.check("run.worker-function", getattr(fut.fn, "qualname", None) == "phyclone.run.run_phyclone_chain", "workers run run_phyclone_chain", kind="post")


# ----------------------------------------------------------------------------------------------------------- (b), (c) structural scans


def run_path_files(root):
    out = []
    for dp, dn, fn in os.walk(os.path.join(root, "phyclone")):
        for f in fn:
            if f.endswith(".py"):
                rel = os.path.relpath(os.path.join(dp, f), root)
                if not any(rel.startswith(x) for x in RUN_PATH_EXCLUDE):
                    out.append(rel)
    return sorted(out)


SET_BUILDERS = {"set", "frozenset"}
SET_METHODS = {"difference", "union", "intersection", "symmetric_difference"}
NP_RANDOM_OK = {"default_rng", "Generator", "SeedSequence", "PCG64", "BitGenerator"}


# library calls that return a Python set filled in an order that depends on the library's per-process hash state (rustworkx: Rust HashSet):
# the content is deterministic, the iteration order is not - not even under a fixed PYTHONHASHSEED (finding F13)
LIB_SET_CALLS = {"rx.descendants", "rx.ancestors", "rustworkx.descendants", "rustworkx.ancestors"}
ORDER_EXPOSING = {"list", "tuple", "enumerate", "iter", "next", "reversed", "zip", "map", "np.array", "np.asarray", "np.fromiter"}


def _is_set_expr(e, set_vars):
    if isinstance(e, (ast.Set, ast.SetComp)):
        return True
    if isinstance(e, ast.Name) and e.id in set_vars:
        return True
    if isinstance(e, ast.Call):
        d = _dotted(e.func)
        if d in SET_BUILDERS or d in LIB_SET_CALLS:
            return True
        if isinstance(e.func, ast.Attribute) and e.func.attr in SET_METHODS:
            return True
    if isinstance(e, ast.BinOp) and isinstance(e.op, (ast.BitOr, ast.BitAnd, ast.Sub, ast.BitXor)) and (_is_set_expr(e.left, set_vars) or _is_set_expr(e.right, set_vars)):
        return True
    return False


def scan_file(root, rel):
    """returns list of (obligation, ok, detail)"""
    src = open(os.path.join(root, rel)).read()
    tree = ast.parse(src)
    bad_rng, bad_rvs, bad_set, bad_clock, unseeded = [], [], [], [], []
    imports_random = any(isinstance(n, ast.Import) and any(a.name == "random" for a in n.names) or isinstance(n, ast.ImportFrom) and n.module == "random" for n in ast.walk(tree))
    for fn in [n for n in ast.walk(tree) if isinstance(n, (ast.FunctionDef, ast.Module))]:
        set_vars = set()
        body_nodes = list(ast.walk(fn)) if isinstance(fn, ast.FunctionDef) else []
        for n in body_nodes:
            if isinstance(n, ast.Assign) and len(n.targets) == 1 and isinstance(n.targets[0], ast.Name) and _is_set_expr(n.value, set()):
                set_vars.add(n.targets[0].id)
        for n in body_nodes:
            its = []
            if isinstance(n, ast.For):
                its.append(n.iter)
            if isinstance(n, (ast.ListComp, ast.GeneratorExp, ast.DictComp)):
                its += [g.iter for g in n.generators]
            for it in its:
                if _is_set_expr(it, set_vars):
                    bad_set.append("%s:%d `%s`" % (rel, it.lineno, ast.unparse(it)[:60]))
            # conversions that turn the iteration order of a set into a sequence order
            if isinstance(n, ast.Call) and _dotted(n.func) in ORDER_EXPOSING and any(_is_set_expr(a, set_vars) for a in n.args):
                bad_set.append("%s:%d `%s`" % (rel, n.lineno, ast.unparse(n)[:60]))
            if isinstance(n, (ast.List, ast.Tuple)) and any(isinstance(e, ast.Starred) and _is_set_expr(e.value, set_vars) for e in n.elts):
                bad_set.append("%s:%d `%s`" % (rel, n.lineno, ast.unparse(n)[:60]))
    for n in ast.walk(tree):
        if isinstance(n, ast.Call):
            d = _dotted(n.func)
            parts = d.split(".")
            if len(parts) >= 3 and parts[-3:-1] == ["np", "random"] or len(parts) >= 3 and parts[-3:-1] == ["numpy", "random"]:
                if parts[-1] not in NP_RANDOM_OK:
                    bad_rng.append("%s:%d %s" % (rel, n.lineno, d))
                elif parts[-1] == "default_rng" and not n.args and not n.keywords:
                    unseeded.append((n.lineno, d))
            if parts[-1] == "rvs" and not any(k.arg == "random_state" for k in n.keywords):
                bad_rvs.append("%s:%d %s" % (rel, n.lineno, ast.unparse(n)[:60]))
            if d in ("time.time", "time.perf_counter", "datetime.now", "datetime.datetime.now", "os.urandom", "uuid.uuid4", "os.getpid") or d.startswith("random."):
                bad_clock.append("%s:%d %s" % (rel, n.lineno, d))
    out = [("no-global-numpy-rng[%s]" % rel, not bad_rng, "no call of a numpy global-state random function (%s)" % (bad_rng or "none")),
           ("scipy-rvs-pass-random_state[%s]" % rel, not bad_rvs, "every .rvs() call passes random_state (%s)" % (bad_rvs or "none")),
           ("no-iteration-over-hash-ordered-collections[%s]" % rel, not bad_set, "no loop / comprehension / list() conversion exposes the iteration order of a set, frozenset, set-algebra result or set-valued library call such as rx.descendants (%s)" % (bad_set or "none")),
           ("no-ambient-entropy-or-clock[%s]" % rel, not bad_clock and not imports_random, "no stdlib random, wall clock, pid or urandom call (%s)" % (bad_clock or "none"))]
    # the one allowed unseeded generator: run.instantiate_and_seed_RNG, else-branch of `seed is not None`
    if unseeded:
        ok = False
        if rel == "phyclone/run.py" and len(unseeded) == 1:
            for f in ast.walk(tree):
                if isinstance(f, ast.FunctionDef) and f.name == "instantiate_and_seed_RNG":
                    for st in f.body:
                        if isinstance(st, ast.If) and ast.unparse(st.test) == "seed is not None":
                            ok = any(isinstance(x, ast.Call) and _dotted(x.func).endswith("default_rng") and not x.args for s2 in st.orelse for x in ast.walk(s2)) and \
                                not any(isinstance(x, ast.Call) and _dotted(x.func).endswith("default_rng") and not x.args for s2 in st.body for x in ast.walk(s2))
        out.append(("unseeded-generator-only-when-no-seed-given[%s]" % rel, ok, "default_rng() without a seed appears only in the seed=None branch of instantiate_and_seed_RNG"))
    return out



def h_chain_isolation(I, fi):
    """run_phyclone_chain: before anything else the chain empties every process-global content-keyed cache (the two recursion caches, whose keys ignore the order of
    the children while their values depend on it in the last bits, and the proposal caches): what the process computed before - another chain handed to the same pool
    worker, an earlier run - cannot reach this chain's trace (finding F15)."""
    P = I.P
    log = []

    def rec(name, ret=None):
        def f(I_, a, k, n):
            log.append(name)
            return ret
        return f

    I.registry.call_contracts["phyclone.utils.dev.clear_proposal_dist_caches"] = rec("clear-proposal-caches")
    I.registry.call_contracts["phyclone.utils.dev.clear_convolution_caches"] = rec("clear-convolution-caches")
    I.registry.call_contracts["phyclone.run.clear_proposal_dist_caches"] = rec("clear-proposal-caches")
    I.registry.call_contracts["phyclone.run.clear_convolution_caches"] = rec("clear-convolution-caches")
    I.registry.call_contracts["phyclone.run.setup_kernel"] = rec("setup_kernel", ("kernel",))
    I.registry.call_contracts["phyclone.run.setup_samplers"] = rec("setup_samplers", ("samplers",))
    I.registry.call_contracts["phyclone.tree.tree.Tree.get_single_node_tree"] = rec("first-tree", ("tree",))
    I.registry.call_contracts["phyclone.run._run_burnin"] = rec("burnin", ("tree",))
    I.registry.call_contracts["phyclone.run._run_main_sampler"] = rec("main", ("results",))
    I.registry.class_models["Timer"] = lambda I_, *a, **k: ("timer",)
    I.registry.class_models["TreeJointDistribution"] = lambda I_, *a, **k: (log.append("tree_dist"), ("tree_dist",))[1]
    I.registry.class_models["FSCRPDistribution"] = lambda I_, *a, **k: ("prior",)
    names = [a.arg for a in fi.node.args.args]
    I.call_function(fi, [("arg", n_) for n_ in names], {}, force_inline=True)
    dsl.cover(I, "chain-isolation")
    first_other = min([i for i, e in enumerate(log) if not e.startswith("clear-")] or [len(log)])
    head = set(log[:first_other])
    P.check("run.chain-starts-from-empty-caches", head == {"clear-proposal-caches", "clear-convolution-caches"} and "main" in log,
            "the chain clears the proposal caches and the recursion caches before it builds its distributions, kernel, samplers or first tree", kind="post")


def h_seed_rng(I, fi):
    """instantiate_and_seed_RNG: with a seed (0 included) the generator is numpy's default_rng seeded with exactly that value; only seed=None gives an unseeded one;
    the generator created is the one returned"""
    P = I.P
    given = P.decide(2) == 1
    seed = alg.sym("seed", "Int") if given else None
    if given:
        P.assume(P.z(seed) >= 0)
    made = []

    class RandomMod(Model):
        def m_default_rng(self, I_, *a, **k):
            made.append((list(a), dict(k)))
            return ("generator", len(made))

    class NP(Model):
        def a_random(self, I_):
            return RandomMod()

    I.registry.globals_override["np"] = NP()
    out = I.call_function(fi, [seed], {}, force_inline=True)
    dsl.cover(I, "seed-given" if given else "seed-none")
    if given:
        ok = len(made) == 1 and len(made[0][0]) + len(made[0][1]) == 1 and isinstance((made[0][0] or list(made[0][1].values()))[0], Num) and ((made[0][0] or list(made[0][1].values()))[0] - seed).is_zero()
        P.check("seed.generator-seeded-with-the-given-value", ok and out == ("generator", 1), "a given seed - any value, zero included - seeds the generator that is returned", kind="post")
    else:
        P.check("seed.unseeded-only-without-a-seed", made == [([], {})] and out == ("generator", 1), "without a seed one unseeded generator is created and returned", kind="post")
