"""Layer 1, graph level: contracts on the methods of phyclone.tree.tree.Tree that maintain the rustworkx forest, for any
number of clones / children / path length.  The PyDiGraph is represented by its contract as used by Tree: a forest over
integer indices with a dummy root, one TreeNode payload per index; name <-> index maps are mutually inverse.  Library
operations are recorded (add_node / add_edge / remove_edge / item assignment) and the postconditions are stated over the record.

  _update_node(i)            the node at i is updated from the log_r vectors of exactly its current children
  _update_path_to_root(s)    _update_node is called on every node of the unique root path of s, bottom-up (s first, root last)
  create_root_node(C, data)  new name = num_nodes-1; the new node hangs under the root, every c in C is moved from the root to
                             the new node, nothing else is rewired, data go to the new node, then the path update starts at it
  copy()                     no container, payload or data list is shared with the source
  get_parent / get_children / roots / get_number_of_children   read the forest through the name <-> index maps
  __init__ / _add_node       a tree with only the dummy root
  update()                   post-order (children before parents) _update_node over the whole forest (rustworkx dfs_search contract)

Library contracts assumed (rustworkx): in a forest all_simple_paths(root, v) is the single root path of v (none for v = root);
successors / predecessors list the children / the parent; node_indices() are pairwise distinct; PyDiGraph.copy() is a new graph
sharing the payload objects; dfs_search calls finish_vertex on a vertex after all its descendants."""
import ast

import z3

from pyvc import alg, dsl
from pyvc.alg import Num
from pyvc.builtins_model import SymSeq
from pyvc.interp import Model, Obj, PathEnd, SBool, Unsupported

TR = "phyclone.tree.tree.Tree"
ROOT = "root"


class Pay(Model):
    py_classes = ("TreeNode",)

    def __init__(self, key, log, name=None):
        self.key, self.log, self.name = key, log, name

    def a_node_id(self, I):
        if self.name is not None:
            return self.name
        return alg.raw_app("name_of", self.key, sort="Int")

    def a_log_r(self, I):
        return ("log_r", self.key if not isinstance(self.key, Num) else self.key.key())

    def m_update_node_from_child_r_vals(self, I, vals):
        self.log.append(("node-update", self, vals))

    def m_add_data_point_list(self, I, data):
        self.log.append(("node-add-list", self, data))

    def m_copy(self, I):
        return Pay(("copy-of", self.key if not isinstance(self.key, Num) else self.key.key()), self.log, self.name)


class Forest:
    def __init__(self, I):
        self.ri = alg.sym("root_idx", "Int")
        self.log = []
        self.pay = {}

    def payload(self, I, idx):
        idx = I.to_num(idx)
        k = idx.key()
        if k not in self.pay:
            is_root = (idx - self.ri).is_zero() or not I.P.feasible(I.P.z(idx) != I.P.z(self.ri))
            self.pay[k] = Pay(idx, self.log, ROOT if is_root else None)
        return self.pay[k]


class NodeIdx(Model):
    """_node_indices: name -> index (inverse of _node_indices_rev)"""

    def __init__(self, F):
        self.F, self.stores = F, []

    def getitem(self, I, key):
        if key == ROOT:
            return self.F.ri
        kn = I.to_num(key)
        for a, b in reversed(self.stores):
            if not isinstance(a, str) and (a - kn).is_zero():
                return b
        v = alg.raw_app("idx_of", kn, sort="Int")
        I.P.assume(z3.And(I.P.z(v) != I.P.z(self.F.ri), I.P.z(alg.raw_app("name_of", v, sort="Int")) == I.P.z(kn)), "wf: the name <-> index maps are mutually inverse; a clone is not the dummy root")
        return v

    def setitem(self, I, key, v):
        self.stores.append((key if isinstance(key, str) else I.to_num(key), v))

    def m_copy(self, I):
        return ("copy-of", self)


class NodeRev(Model):
    def __init__(self, F):
        self.F, self.stores = F, []

    def getitem(self, I, idx):
        idx = I.to_num(idx)
        if (idx - self.F.ri).is_zero():
            return ROOT
        return alg.raw_app("name_of", idx, sort="Int")

    def setitem(self, I, idx, v):
        self.stores.append((I.to_num(idx), v))

    def m_copy(self, I):
        return ("copy-of", self)


class Graph(Model):
    def __init__(self, F, name="g"):
        self.F, self.name = F, name
        self.items = []

    def getitem(self, I, idx):
        for a, b in reversed(self.items):
            if (a - I.to_num(idx)).is_zero():
                return b
        return self.F.payload(I, idx)

    def setitem(self, I, idx, v):
        self.items.append((I.to_num(idx), v))
        self.F.log.append(("set-payload", self, I.to_num(idx), v))

    def m_successors(self, I, idx):
        idx = I.to_num(idx)
        n = alg.raw_app("n_children", idx, sort="Int")
        I.P.assume(I.P.z(n) >= 0)
        return SymSeq("succ(%s)" % idx.key(), n, lambda k: self.F.payload(I, alg.raw_app("child", idx, I.to_num(k), sort="Int")))

    def m_predecessors(self, I, idx):
        idx = I.to_num(idx)
        # forest: every clone has exactly one parent
        return [self.F.payload(I, alg.raw_app("parent", idx, sort="Int"))]

    def m_num_nodes(self, I):
        v = alg.sym("num_nodes", "Int")
        I.P.assume(I.P.z(v) >= 1)
        return v

    def m_add_node(self, I, obj):
        n = alg.sym(I.P.fresh_name("new_idx"), "Int")
        I.P.assume(I.P.z(n) != I.P.z(self.F.ri))
        self.F.log.append(("add-node", self, obj, n))
        self.F.pay[n.key()] = obj
        return n

    def m_add_edge(self, I, a, b, w=None):
        self.F.log.append(("add-edge", self, I.to_num(a), I.to_num(b)))

    def m_remove_edge(self, I, a, b):
        a, b = I.to_num(a), I.to_num(b)
        I.P.check("edge-present[%s]" % I.site(None), I.P.z(alg.raw_app("parent", b, sort="Int")) == I.P.z(a), "remove_edge(a, b) raises NoEdgeBetweenNodes unless a is the parent of b")
        self.F.log.append(("remove-edge", self, a, b))

    def m_copy(self, I):
        g = Graph(self.F, "copy-of-" + self.name)
        self.F.log.append(("graph-copy", self, g))
        return g

    def m_node_indices(self, I):
        n = alg.sym("n_indices", "Int")
        I.P.assume(I.P.z(n) >= 1)
        return SymSeq("node_indices(%s)" % self.name, n, lambda k: alg.raw_app("index_at", I.to_num(k), sort="Int"))


def tree_obj(I, cls):
    F = Forest(I)
    t = Obj(cls) if cls is not None else Obj.__new__(Obj)
    if cls is None:
        t.cls, t.fields = None, {}
    t.fields.update({"_graph": Graph(F), "_node_indices": NodeIdx(F), "_node_indices_rev": NodeRev(F), "grid_size": ("grid",), "_log_prior": alg.sym("log_prior"),
                     "_last_node_added_to": None})
    return t, F


# ----------------------------------------------------------------------------------------------------------- _update_node


def h_update_node(I, fi):
    P = I.P
    t, F = tree_obj(I, fi.cls)
    i = alg.sym("i", "Int")
    I.call_function(fi, [t, i], {}, force_inline=True)
    dsl.cover(I, "update_node")
    ups = [e for e in F.log if e[0] == "node-update"]
    ok = len(ups) == 1 and len(F.log) == 1 and ups[0][1] is F.payload(I, i)
    P.check("update_node.updates-that-node-only", ok, "exactly the node at index i is updated; the graph is not changed", kind="post")
    if not ok:
        return
    vals = ups[0][2]
    n = alg.raw_app("n_children", i, sort="Int")
    okv = isinstance(vals, SymSeq) and not vals.tail and not P.feasible(P.z(vals.core_len) != P.z(n))
    P.check("update_node.one-vector-per-child", okv, "one log_r vector per current child of i", kind="post")
    if okv and P.feasible(P.z(n) > 0):
        k = alg.sym("k", "Int")
        P.assume(z3.And(P.z(k) >= 0, P.z(k) < P.z(n)))
        P.check("update_node.child-vectors", vals.core_at(I, k) == ("log_r", alg.raw_app("child", i, k, sort="Int").key()), "the k-th vector is the log_r of the k-th child of i", kind="post")


# ----------------------------------------------------------------------------------------------------------- _update_path_to_root


def h_update_path(I, fi):
    P = I.P
    t, F = tree_obj(I, fi.cls)
    at_root = P.decide(2) == 1
    dsl.cover(I, "path.from-root" if at_root else "path.from-clone")
    calls = []
    L = alg.sym("path_len", "Int")
    P.assume(P.z(L) >= 2)
    src = ROOT if at_root else alg.sym("source", "Int")
    src_idx = F.ri if at_root else t.fields["_node_indices"].getitem(I, src)
    path = SymSeq("root-path", L, lambda k: alg.raw_app("path", I.to_num(k), sort="Int"))
    asked = []

    class Rx(Model):
        def m_all_simple_paths(self, I_, g, a, b):
            asked.append((g, I_.to_num(a), I_.to_num(b)))
            if at_root:
                return []
            # forest contract: the single path root = path[0], ..., path[L-1] = source
            I_.P.assume(z3.And(I_.P.z(alg.raw_app("path", Num.const(0), sort="Int")) == I_.P.z(F.ri), I_.P.z(alg.raw_app("path", L - 1, sort="Int")) == I_.P.z(src_idx)))
            return [path]

    I.registry.globals_override["rx"] = Rx()
    I.registry.call_contracts[TR + "._update_node"] = lambda I_, a, k, n: calls.append(I_.to_num(a[1]))
    I.registry.generic_loops.add(fi.qualname)

    # name_of(path[k]) facts needed by the function's own asserts
    class Rev(Model):
        def getitem(self, I_, idx):
            idx = I_.to_num(idx)
            if not I_.P.feasible(I_.P.z(idx) != I_.P.z(F.ri)):
                return ROOT
            if not I_.P.feasible(I_.P.z(idx) != I_.P.z(src_idx)) and not at_root:
                return src
            return alg.raw_app("name_of", idx, sort="Int")

    t.fields["_node_indices_rev"] = Rev()
    I.call_function(fi, [t, src], {}, force_inline=True)
    P.check("path.asks-for-the-root-path", len(asked) == 1 and asked[0][0] is t.fields["_graph"] and (asked[0][1] - F.ri).is_zero() and (asked[0][2] - src_idx).is_zero(),
            "the path is the one from the dummy root to the source", kind="post")
    if at_root:
        P.check("path.root-only", len(calls) == 1 and (calls[0] - F.ri).is_zero(), "from the root: only the root is updated", kind="post")
        return
    gens = P.ghost.get("generic_indices", [])
    ok = len(gens) == 1 and len(calls) == 1
    P.check("path.one-update-per-path-node", ok, "one _update_node per node of the path (arbitrary position j of the call order)", kind="post")
    if ok:
        j = gens[0]
        P.check("path.bottom-up", P.z(calls[0]) == P.z(alg.raw_app("path", L - 1 - j, sort="Int")),
                "the j-th call updates path[L-1-j]: the source first, then its ancestors in order, the root last", kind="post")


# ----------------------------------------------------------------------------------------------------------- create_root_node


def h_create_root_node(I, fi, add_node_fi, add_idx_fi, add_list_fi):
    from pyvc.builtins_model import DefaultDictVal, PyBuiltin
    P = I.P
    t, F = tree_obj(I, fi.cls)
    with_data = P.decide(2) == 1
    dsl.cover(I, "create.with-data" if with_data else "create.without-data")
    data = DefaultDictVal(PyBuiltin("list", lambda I_: []))
    t.fields["_data"] = data
    C = alg.sym("n_new_children", "Int")
    P.assume(P.z(C) >= 0)
    idx_map = t.fields["_node_indices"]

    def child_name(k):
        return alg.raw_app("new_child", I.to_num(k), sort="Int")

    def facts(I_, k):
        # requires: the children handed in are top-level clones (children of the dummy root)
        c_idx = idx_map.getitem(I_, child_name(k))
        return [I_.P.z(alg.raw_app("parent", c_idx, sort="Int")) == I_.P.z(F.ri)]

    children = SymSeq("children", C, child_name, facts)
    dp = ("dp",)
    made = []
    I.registry.class_models["TreeNode"] = lambda I_, grid, prior, name: (made.append((grid, prior, name)), Pay(("new-node",), F.log, name))[1]
    path_calls = []
    I.registry.call_contracts[TR + "._update_path_to_root"] = lambda I_, a, k, n: path_calls.append((a[1], len(F.log)))
    I.registry.generic_loops.add(fi.qualname)
    out = I.call_function(fi, [t], {"children": children, "data": [dp] if with_data else None}, force_inline=True)
    K = alg.sym("num_nodes", "Int") - 1
    P.check("create.name", isinstance(out, Num) and (out - K).is_zero() and len(made) == 1 and isinstance(made[0][2], Num) and (made[0][2] - K).is_zero() and made[0][0] == ("grid",),
            "the new clone is named num_nodes - 1 (fresh when the clone names in use are 0 .. K-1) and its TreeNode is built on the tree's grid and prior", kind="post")
    x = alg.sym("existing_name", "Int")
    P.assume(z3.And(P.z(x) >= 0, P.z(x) < P.z(K)), "requires: clone names in use are 0 .. K-1 (trees built by create_root_node / relabel_nodes)")
    P.check("create.name-is-fresh", P.z(x) != P.z(K), "no existing clone has the new name", kind="post")
    adds = [e for e in F.log if e[0] == "add-node"]
    if len(adds) != 1:
        P.check("create.one-node-added", False, "exactly one node is added to the graph", kind="post")
        return
    n = adds[0][3]
    P.check("create.index-maps", [(a, b) for a, b in idx_map.stores] and (idx_map.stores[-1][0] - K).is_zero() and idx_map.stores[-1][1] is n and len(idx_map.stores) == 1
            and len(t.fields["_node_indices_rev"].stores) == 1 and (t.fields["_node_indices_rev"].stores[0][0] - n).is_zero() and (I.to_num(t.fields["_node_indices_rev"].stores[0][1]) - K).is_zero(),
            "both index maps get exactly the entry (new name <-> new index)", kind="post")
    edges = [e for e in F.log if e[0] in ("add-edge", "remove-edge")]
    gens = P.ghost.get("generic_indices", [])
    has_child = len(gens) == 1
    dsl.cover(I, "create.some-child" if has_child else "create.no-child")
    P.check("create.under-the-root", len(edges) >= 1 and edges[0][0] == "add-edge" and (edges[0][2] - F.ri).is_zero() and edges[0][3] is n, "the new clone is attached under the dummy root first", kind="post")
    if has_child:
        c_idx = idx_map.getitem(I, child_name(gens[0]))
        ok = len(edges) == 3 and edges[1][0] == "remove-edge" and (edges[1][2] - F.ri).is_zero() and (edges[1][3] - c_idx).is_zero() \
            and edges[2][0] == "add-edge" and edges[2][2] is n and (edges[2][3] - c_idx).is_zero()
        P.check("create.child-moved", ok, "an arbitrary listed child c is detached from the root and attached under the new clone; nothing else is rewired for it", kind="post")
    else:
        P.check("create.no-rewiring", len(edges) == 1, "without children nothing else is rewired", kind="post")
    lst = data.getitem(I, out)
    node_adds = [e for e in F.log if e[0] == "node-add-list"]
    if with_data:
        P.check("create.data", lst == [dp] and len(node_adds) == 1 and node_adds[0][1] is adds[0][2] and node_adds[0][2] == [dp], "the data go to the new clone's data list and to its TreeNode", kind="post")
    else:
        P.check("create.no-data", lst == [] and not node_adds, "without data the new clone is empty", kind="post")
    P.check("create.last-node", t.fields["_last_node_added_to"] is out or (isinstance(t.fields["_last_node_added_to"], Num) and (t.fields["_last_node_added_to"] - K).is_zero()), "node_last_added_to is the new clone", kind="post")
    P.check("create.path-update-last", len(path_calls) == 1 and isinstance(path_calls[0][0], Num) and (path_calls[0][0] - K).is_zero() and path_calls[0][1] == len(F.log),
            "the recursion values are recomputed from the new clone upwards, after all rewiring and data insertion", kind="post")


CREATE_COVERS = ["create.with-data", "create.without-data", "create.some-child", "create.no-child"]


# ----------------------------------------------------------------------------------------------------------- readers


def h_readers(I, parent_fi, children_fi, nch_fi, roots_fi):
    P = I.P
    t, F = tree_obj(I, parent_fi.cls)
    which = P.decide(5)
    v = alg.sym("v", "Int")
    vi = t.fields["_node_indices"].getitem(I, v) if which != 4 else None
    if which == 0:
        out = I.call_function(parent_fi, [t, v], {}, force_inline=True)
        dsl.cover(I, "read.parent")
        P.check("read.parent", isinstance(out, (Num, str)) and (out == ROOT or (I.to_num(out) - alg.raw_app("name_of", alg.raw_app("parent", vi, sort="Int"), sort="Int")).is_zero()
                                                                    or not P.feasible(P.z(alg.raw_app("parent", vi, sort="Int")) != P.z(F.ri))),
                "get_parent(v) is the name of the node v hangs under", kind="post")
    elif which == 1:
        out = I.call_function(parent_fi, [t, ROOT], {}, force_inline=True)
        dsl.cover(I, "read.parent-of-root")
        P.check("read.parent-of-root", out is None, "the dummy root has no parent", kind="post")
    elif which == 2:
        out = I.call_function(children_fi, [t, v], {}, force_inline=True)
        dsl.cover(I, "read.children")
        n = alg.raw_app("n_children", vi, sort="Int")
        ok = isinstance(out, SymSeq) and not out.tail and not P.feasible(P.z(out.core_len) != P.z(n))
        if ok and P.feasible(P.z(n) > 0):
            k = alg.sym("k", "Int")
            P.assume(z3.And(P.z(k) >= 0, P.z(k) < P.z(n)))
            ok = (I.to_num(out.core_at(I, k)) - alg.raw_app("name_of", alg.raw_app("child", vi, k, sort="Int"), sort="Int")).is_zero()
        P.check("read.children", ok, "get_children(v) lists the names of the successors of v", kind="post")
    elif which == 3:
        out = I.call_function(nch_fi, [t, v], {}, force_inline=True)
        dsl.cover(I, "read.number-of-children")
        P.check("read.number-of-children", P.z(I.to_num(out)) == P.z(alg.raw_app("n_children", vi, sort="Int")), "get_number_of_children(v) counts the successors of v", kind="post")
    else:
        out = I.getattr(t, "roots")
        dsl.cover(I, "read.roots")
        n = alg.raw_app("n_children", F.ri, sort="Int")
        ok = isinstance(out, SymSeq) and not out.tail and not P.feasible(P.z(out.core_len) != P.z(n))
        if ok and P.feasible(P.z(n) > 0):
            k = alg.sym("k", "Int")
            P.assume(z3.And(P.z(k) >= 0, P.z(k) < P.z(n)))
            ok = (I.to_num(out.core_at(I, k)) - alg.raw_app("name_of", alg.raw_app("child", F.ri, k, sort="Int"), sort="Int")).is_zero()
        P.check("read.roots", ok, "roots lists the names of the successors of the dummy root (the top-level clones)", kind="post")


READ_COVERS = ["read.parent", "read.parent-of-root", "read.children", "read.number-of-children", "read.roots"]


# ----------------------------------------------------------------------------------------------------------- copy


def h_copy(I, fi):
    P = I.P
    t, F = tree_obj(I, fi.cls)
    t.cls = fi.cls
    n_places = alg.sym("n_places", "Int")
    P.assume(P.z(n_places) >= 0)
    log = F.log

    class DataList(Model):
        def __init__(self, k):
            self.k = k

        def m_copy(self, I_):
            return ("copy-of-list", self.k.key())

    class SrcData(Model):
        def m_items(self, I_):
            return Items()

    class Items(Model):
        def dict_comprehension(self, I_, node, gen, fr):
            from pyvc.interp import Frame
            k = alg.sym(I_.P.fresh_name("place"), "Int")
            sub = Frame(fr.module, fr.func, fr.cls)
            sub.vars = dict(fr.vars)
            I_.assign_target(gen.target, (k, DataList(k)), sub)
            if gen.ifs:
                raise Unsupported("filtered dict comprehension")
            return ("mapped-dict", k, I_.eval(node.key, sub), I_.eval(node.value, sub))

    class NewData(Model):
        def __init__(self):
            self.updates = []

        def m_update(self, I_, x):
            self.updates.append(x)

    src_data = SrcData()
    t.fields["_data"] = src_data
    newdata = []
    I.registry.globals_override["defaultdict"] = lambda I_, f=None: (newdata.append(NewData()), newdata[-1])[1]
    I.registry.generic_loops.add(fi.qualname)
    I.registry.distinct_iterables = {"node_indices"}
    new = I.call_function(fi, [t], {}, force_inline=True)
    dsl.cover(I, "copy")
    ok = isinstance(new, Obj) and new is not t and new.cls is t.cls
    P.check("copy.new-object", ok, "copy() returns a new Tree object", kind="post")
    if not ok:
        return
    f, g = new.fields, t.fields
    P.check("copy.scalars", f.get("grid_size") is g["grid_size"] and f.get("_log_prior") is g["_log_prior"] and f.get("_last_node_added_to") is g["_last_node_added_to"], "grid, prior and node_last_added_to are carried over", kind="post")
    P.check("copy.index-maps-copied", f.get("_node_indices") == ("copy-of", g["_node_indices"]) and f.get("_node_indices_rev") == ("copy-of", g["_node_indices_rev"]), "both index maps are copies, not the source's dictionaries", kind="post")
    d = f.get("_data")
    okd = isinstance(d, NewData) and len(d.updates) == 1 and isinstance(d.updates[0], tuple) and d.updates[0][0] == "mapped-dict"
    if okd:
        _, k, key_e, val_e = d.updates[0]
        okd = isinstance(key_e, Num) and (key_e - k).is_zero() and val_e == ("copy-of-list", k.key())
    P.check("copy.data-lists-copied", okd, "every place keeps its name and gets a copy of its data list (no list shared)", kind="post")
    g2 = f.get("_graph")
    copies = [e for e in log if e[0] == "graph-copy"]
    sets = [e for e in log if e[0] == "set-payload"]
    gens = P.ghost.get("generic_indices", [])
    okg = isinstance(g2, Graph) and len(copies) == 1 and copies[0][1] is g["_graph"] and copies[0][2] is g2 and len(gens) == 1 and len(sets) == 1
    P.check("copy.graph-copied", okg, "the graph is a copy of the source graph; one pass over its node indices", kind="post")
    if okg:
        i = alg.raw_app("index_at", gens[0], sort="Int")
        src_pay = F.payload(I, i)
        newp = sets[0][3]
        P.check("copy.payload-copied", sets[0][1] is g2 and (sets[0][2] - i).is_zero() and isinstance(newp, Pay) and newp is not src_pay and newp.key == ("copy-of", i.key()),
                "at every index the shared payload is replaced, in the new graph only, by a copy of it (no TreeNode shared; the source graph is not written)", kind="post")


# ----------------------------------------------------------------------------------------------------------- __init__ / update


def h_init(I, fi, add_node_fi, add_idx_fi):
    P = I.P
    t = Obj(fi.cls)
    F = Forest(I)
    graphs = []

    class RxM(Model):
        def m_PyDiGraph(self, I_):
            g = Graph(F, "fresh")
            graphs.append(g)
            return g

    made = []
    I.registry.globals_override["rx"] = RxM()
    I.registry.class_models["TreeNode"] = lambda I_, grid, prior, name: (made.append((grid, prior, name)), Pay(("node", len(made)), F.log, name))[1]
    G = alg.sym("G", "Int")
    P.assume(P.z(G) >= 1)
    grid = (alg.sym("D", "Int"), G)
    I.call_function(fi, [t, grid], {}, force_inline=True)
    dsl.cover(I, "init")
    f = t.fields
    adds = [e for e in F.log if e[0] == "add-node"]
    P.check("init.only-the-dummy-root", len(graphs) == 1 and f.get("_graph") is graphs[0] and len(adds) == 1 and len(F.log) == 1 and len(made) == 1 and made[0][2] == ROOT,
            "a new tree's graph holds exactly the dummy root", kind="post")
    P.check("init.prior", dsl.conj(isinstance(f.get("_log_prior"), Num) and len(made) == 1 and made[0][1] is f["_log_prior"] and made[0][0] is grid,
                                 True if alg.is_identically_zero(f["_log_prior"] + alg.slog(G)) else P.z(f["_log_prior"]) == P.z(-alg.slog(G))),
            "the grid prior is -log(grid size) and the root's TreeNode is built with it", kind="post")
    ni, nr = f.get("_node_indices"), f.get("_node_indices_rev")
    ok = isinstance(ni, dict) and isinstance(nr, dict) and len(adds) == 1 and list(ni.items()) == [(ROOT, adds[0][3])] and len(nr) == 1 and list(nr.values()) == [ROOT]
    P.check("init.index-maps", ok, "the index maps hold exactly root <-> its index", kind="post")
    P.check("init.rest", f.get("_last_node_added_to") is None and f.get("grid_size") is grid, "no node added to yet; grid recorded", kind="post")


def h_update(I, fi, vis_init_fi, vis_finish_fi):
    P = I.P
    t, F = tree_obj(I, fi.cls)
    calls = []
    searched = []
    I.registry.call_contracts[TR + "._update_node"] = lambda I_, a, k, n: calls.append(I_.to_num(a[1]))

    class RxM(Model):
        def m_dfs_search(self, I_, g, sources, vis):
            searched.append((g, sources, vis))
            # library contract: finish_vertex(v, t) is called for every vertex reachable from the sources, after all its descendants
            v = alg.sym("v_finished", "Int")
            I_.call_function(vis_finish_fi, [vis, v, alg.sym("time", "Int")], {})
            searched.append(("finished", v))

    I.registry.globals_override["rx"] = RxM()
    I.call_function(fi, [t], {}, force_inline=True)
    dsl.cover(I, "update")
    ok = len(searched) == 2 and searched[0][0] is t.fields["_graph"] and isinstance(searched[0][1], list) and len(searched[0][1]) == 1 and (I.to_num(searched[0][1][0]) - F.ri).is_zero()
    P.check("update.depth-first-from-the-root", ok, "one depth-first search of the tree's graph from the dummy root", kind="post")
    P.check("update.post-order-update", len(calls) == 1 and len(searched) == 2 and (calls[0] - searched[1][1]).is_zero(),
            "finishing a vertex (after all its descendants) updates exactly that vertex: children are recomputed before their parents", kind="post")


def verify_roundtrip(ctx, repo, prop):
    """the serialisation half (C15): to_dict / from_dict / copy"""
    R = dsl.Registry
    dsl.verify(ctx, repo, R(), prop + ".graph", TR + ".to_dict", h_to_dict, expect_covers=["to_dict"])
    dsl.verify(ctx, repo, R(), prop + ".graph", TR + ".from_dict", h_from_dict, expect_covers=FROM_DICT_COVERS)
    dsl.verify(ctx, repo, R(), prop + ".graph", TR + ".copy", h_copy, expect_covers=["copy"])
    ctx.trust("rustworkx edge_list / extend_from_edge_list / remove_nodes_from / copy by their documented contracts; that the restored graph equals the source graph is "
              "the library's round trip (bounded stand-in)")


def verify_all(ctx, repo, prop):
    R = dsl.Registry
    dsl.verify(ctx, repo, R(), prop + ".graph", TR + "._update_node", h_update_node, expect_covers=["update_node"])
    dsl.verify(ctx, repo, R(), prop + ".graph", TR + "._update_path_to_root", h_update_path, expect_covers=["path.from-root", "path.from-clone"])
    dsl.verify(ctx, repo, R(), prop + ".graph", [TR + ".create_root_node", TR + "._add_node", TR + "._add_node_to_indices", TR + "._add_list_of_data_points_to_node"], h_create_root_node, expect_covers=CREATE_COVERS)
    dsl.verify(ctx, repo, R(), prop + ".graph", [TR + ".get_parent", TR + ".get_children", TR + ".get_number_of_children", TR + ".roots"], h_readers, expect_covers=READ_COVERS)
    dsl.verify(ctx, repo, R(), prop + ".graph", TR + ".copy", h_copy, expect_covers=["copy"])
    dsl.verify(ctx, repo, R(), prop + ".graph", [TR + ".__init__", TR + "._add_node", TR + "._add_node_to_indices"], h_init, expect_covers=["init"])
    dsl.verify(ctx, repo, R(), prop + ".graph", [TR + ".update", "phyclone.tree.visitors.PostOrderNodeUpdater.__init__", "phyclone.tree.visitors.PostOrderNodeUpdater.finish_vertex"], h_update, expect_covers=["update"])
    dsl.verify(ctx, repo, R(), prop + ".graph", [TR + ".remove_subtree", TR + ".get_parent"], h_remove_subtree, expect_covers=REMOVE_COVERS)
    dsl.verify(ctx, repo, R(), prop + ".graph", TR + ".add_subtree", h_add_subtree, expect_covers=["graft.under-root", "graft.under-clone"])
    dsl.verify(ctx, repo, R(), prop + ".graph", [TR + "._relabel_grafted_subtree_nodes", TR + "._add_node_to_indices"], h_relabel_grafted, expect_covers=RELABEL_COVERS)
    dsl.verify(ctx, repo, R(), prop + ".graph", [VIS + ".__init__", VIS + ".discover_vertex"], h_discover_vertex, expect_covers=["relabeller.root", "relabeller.clone"])
    dsl.verify(ctx, repo, R(), prop + ".graph", TR + ".relabel_nodes", h_relabel_nodes, expect_covers=["relabel_nodes"])
    dsl.verify(ctx, repo, R(), prop + ".graph", [TR + "." + m for m in ("nodes", "get_number_of_nodes", "data_log_likelihood", "outliers", "get_data", "get_data_len", "get_descendants", "get_number_of_descendants",
                                                                       "get_subtree_data_len", "add_data_point_to_outliers", "remove_data_point_from_outliers", "add_data_point_to_node", "_is_data_point_in_tree")],
               h_small, expect_covers=SMALL_COVERS)
    dsl.verify(ctx, repo, R(), prop + ".graph", TR + ".to_dict", h_to_dict, expect_covers=["to_dict"])
    dsl.verify(ctx, repo, R(), prop + ".graph", TR + ".from_dict", h_from_dict, expect_covers=FROM_DICT_COVERS)
    dsl.verify(ctx, repo, R(), prop + ".graph", [TR + ".get_subtree", TR + "._add_node_to_indices"], h_get_subtree, expect_covers=SUBTREE_COVERS)
    dsl.verify(ctx, repo, R(), prop + ".graph", TR + "._is_data_point_in_tree", h_is_in_tree, expect_covers=["is-in-tree.with-outlier-list", "is-in-tree.no-outlier-list"])
    ctx.trust("rustworkx PyDiGraph by its contract as used by Tree (forest: unique root path, successors / predecessors, distinct node indices, shallow copy(), dfs_search finish order)",
              "rustworkx compose / remove_node_retain_edges / remove_nodes_from / descendants / dfs_search (discover_vertex once per reachable vertex, parents first) by their documented contracts",
              "rustworkx subgraph(preserve_attrs) = induced subgraph sharing payloads (library)")


def h_is_in_tree(I, fi):
    """Tree._is_data_point_in_tree(dp) = number of graph payloads whose data-point index set contains dp.idx, plus one when the tree has an outlier list that holds dp:
    zero exactly when the point is nowhere in the tree (the precondition add_data_point_to_node asserts, so that no move can duplicate a point)"""
    P = I.P
    t, F = tree_obj(I, fi.cls)
    has_key = P.decide(2) == 1
    n = alg.sym("n_nodes_all", "Int")
    P.assume(P.z(n) >= 1)
    inn = z3.Function("idx_in_node", z3.IntSort(), z3.BoolSort())
    in_out = z3.Bool("dp_in_outlier_list")
    asked = []

    class DPs(Model):
        def __init__(self, k):
            self.k = k

        def contains(self, I_, x):
            asked.append(x)
            return SBool(inn(I_.P.z(self.k)))

    class Pay2(Model):
        def __init__(self, k):
            self.k = k

        def a_data_points(self, I_):
            return DPs(self.k)

    class G2(Model):
        def m_nodes(self, I_):
            return SymSeq("graph-nodes", n, lambda k: Pay2(I_.to_num(k)))

    class DP(Model):
        def a_idx(self, I_):
            return alg.sym("dp_idx", "Int")

    dp = DP()

    class OutList(Model):
        def contains(self, I_, x):
            asked.append(("outliers", x))
            return SBool(in_out)

    class Data(Model):
        def contains(self, I_, k):
            return has_key if I_.equal(k, -1) is True else False

        def getitem(self, I_, k):
            if I_.equal(k, -1) is not True:
                raise Unsupported("data list of a clone")
            return OutList()

    t.fields["_graph"] = G2()
    t.fields["_data"] = Data()
    out = I.to_num(I.call_function(fi, [t, dp], {}, force_inline=True))
    dsl.cover(I, "is-in-tree.with-outlier-list" if has_key else "is-in-tree.no-outlier-list")
    b = alg.fresh_bound()
    count = alg.bigsum("", n, I.to_num(SBool(inn(P.z(b)))), bound=b)
    want = count + (I.to_num(SBool(in_out)) if has_key else 0)
    P.check("present.counts-every-clone-and-the-outlier-list", bool(alg.is_identically_zero(out - want)) or not P.feasible(P.z(out) != P.z(want)),
            "the result counts the payloads holding the point's index and, when there is an outlier list, whether it holds the point", kind="post")
    idx_asked = [a for a in asked if not isinstance(a, tuple)]
    P.check("present.asks-for-the-points-own-index", len(idx_asked) >= 1 and all(isinstance(a, alg.Num) and (a - alg.sym("dp_idx", "Int")).is_zero() for a in idx_asked)
            and all(a[1] is dp for a in asked if isinstance(a, tuple)), "membership is asked for this data point (its idx in the clones, the point itself in the outlier list)", kind="post")


def verify_readers_for(ctx, repo, prop, keep):
    """the contracts of the small readers, claimed by another property: only the obligations whose name contains one of `keep` are that property's"""
    prev = getattr(ctx, "vc_filter", None)
    ctx.vc_filter = lambda name, kind: any(k in name for k in keep)
    try:
        dsl.verify(ctx, repo, dsl.Registry(), prop + ".graph", [TR + "." + m for m in ("nodes", "get_number_of_nodes", "data_log_likelihood", "outliers", "get_data", "get_data_len", "get_descendants",
                                                                                         "get_number_of_descendants", "get_subtree_data_len", "add_data_point_to_outliers", "remove_data_point_from_outliers",
                                                                                         "add_data_point_to_node", "_is_data_point_in_tree")],
                   h_small, expect_covers=SMALL_COVERS)
    finally:
        ctx.vc_filter = prev


# ----------------------------------------------------------------------------------------------------------- remove_subtree


class KeyLog(Model):
    """a dictionary of the tree abstracted to the record of its deletions / stores / membership questions"""

    def __init__(self, name, log, member=None):
        self.name, self.log, self.member = name, log, member

    def delitem(self, I, key):
        self.log.append(("del", self.name, key if isinstance(key, str) else I.to_num(key)))

    def setitem(self, I, key, v):
        self.log.append(("set", self.name, key if isinstance(key, str) else I.to_num(key), v))

    def getitem(self, I, key):
        return ("value-of", self.name, key if isinstance(key, str) else I.to_num(key).key())

    def contains(self, I, key):
        if self.member is None:
            raise Unsupported("membership in %s" % self.name)
        return self.member(I, key)


def _with_deletes(cls):
    def delitem(self, I, key):
        self.F.log.append(("del", type(self).__name__, key if isinstance(key, str) else I.to_num(key)))
    cls.delitem = delitem


_with_deletes(NodeIdx)
_with_deletes(NodeRev)


def h_remove_subtree(I, fi, get_parent_fi):
    P = I.P
    t, F = tree_obj(I, fi.cls)
    whole = P.decide(2) == 1
    log = F.log
    t.fields["_data"] = KeyLog("_data", log)
    sr = alg.sym("sub_root", "Int")
    m = alg.sym("n_sub_clones", "Int")
    P.assume(P.z(m) >= 1)
    idx_map = t.fields["_node_indices"]

    class SubGraph(Model):
        def m_nodes(self, I_):
            return SymSeq("subtree-nodes", m, lambda k: Pay(("sub", I_.to_num(k).key()), log, alg.raw_app("sub_name", I_.to_num(k), sort="Int")),
                          tail=[Pay(("sub-root",), log, ROOT)])

    class Sub(Model):
        py_classes = ("Tree",)

        def eq(self, I_, other):
            return whole and other is t

        def m_get_number_of_nodes(self, I_):
            return m  # the subtree's clones; equal counts do NOT make the subtree the whole tree (the tree may hold outliers the subtree does not)

        def a_roots(self, I_):
            return [sr]

        def a__graph(self, I_):
            return SubGraph()

    sub = Sub()
    sri0 = alg.raw_app("idx_of", sr, sort="Int")
    top_level = P.decide(2) == 1
    P.assume(P.z(alg.raw_app("parent", sri0, sort="Int")) == P.z(F.ri) if top_level else P.z(alg.raw_app("parent", sri0, sort="Int")) != P.z(F.ri))
    inits = []
    I.registry.call_contracts[TR + ".__init__"] = lambda I_, a, k, n: inits.append(a)
    ups = []
    I.registry.call_contracts[TR + "._update_path_to_root"] = lambda I_, a, k, n: ups.append((a[1], len(log)))

    class Rx(Model):
        def m_descendants(self, I_, g, idx):
            nd = alg.raw_app("n_desc", I_.to_num(idx), sort="Int")
            I_.P.assume(I_.P.z(nd) >= 0)
            return SymSeq("descendants(%s)" % I_.to_num(idx).key(), nd, lambda k: alg.raw_app("desc", I_.to_num(idx), I_.to_num(k), sort="Int"))

    I.registry.globals_override["rx"] = Rx()

    def remove_nodes_from(self, I_, xs):
        log.append(("remove-nodes", self, xs))

    Graph.m_remove_nodes_from = remove_nodes_from
    I.registry.generic_loops.add(fi.qualname)
    I.call_function(fi, [t, sub], {}, force_inline=True)
    if whole:
        dsl.cover(I, "remove.whole-tree")
        P.check("remove.whole-tree-resets", len(inits) == 1 and inits[0][0] is t and inits[0][1] == ("grid",) and not log, "removing the whole tree re-initialises it on the same grid", kind="post")
        return
    gens = P.ghost.get("generic_indices", [])
    P.check("remove.one-pass-over-the-subtree's-nodes", len(gens) == 1, "one pass over the nodes of the subtree being removed", kind="post")
    if len(gens) != 1:
        return
    dels = [e for e in log if e[0] == "del"]
    g = gens[0]
    is_dummy = not P.feasible(P.z(g) != P.z(m))  # the appended element: the subtree's own dummy root
    if is_dummy:
        dsl.cover(I, "remove.dummy-root-skipped")
        P.check("remove.dummy-root-skipped", not dels, "the subtree's dummy root removes nothing from the tree", kind="post")
    else:
        dsl.cover(I, "remove.clone")
        s = alg.raw_app("sub_name", g, sort="Int")
        si = alg.raw_app("idx_of", s, sort="Int")
        ok = len(dels) == 3 and dels[0][1] == "_data" and (dels[0][2] - s).is_zero() and dels[1][1] == "NodeIdx" and (dels[1][2] - s).is_zero() \
            and dels[2][1] == "NodeRev" and (dels[2][2] - si).is_zero()
        P.check("remove.clone-forgotten-consistently", ok, "for every clone s of the subtree exactly _data[s], _node_indices[s] and _node_indices_rev[index of s] are deleted (the two maps stay mutually inverse)", kind="post")
    sri = alg.raw_app("idx_of", sr, sort="Int")
    rem = [e for e in log if e[0] == "remove-nodes"]
    okr = len(rem) == 1 and rem[0][1] is t.fields["_graph"] and isinstance(rem[0][2], SymSeq) and rem[0][2].key.replace("sorted(", "").startswith("descendants(%s)" % sri.key()) \
        and len(rem[0][2].tail) == 1 and (I.to_num(rem[0][2].tail[0]) - sri).is_zero()
    P.check("remove.graph-nodes", okr, "the graph loses exactly the subtree root and its descendants", kind="post")
    par_idx = alg.raw_app("parent", sri, sort="Int")
    okp = len(ups) == 1 and ups[0][1] == len(log)
    if okp:
        dsl.cover(I, "remove.top-level-subtree" if top_level else "remove.nested-subtree")
        okp = (ups[0][0] == ROOT) if top_level else (isinstance(ups[0][0], Num) and P.z(ups[0][0]) == P.z(alg.raw_app("name_of", par_idx, sort="Int")))
    P.check("remove.path-update-from-the-former-parent", okp, "after the removal the recursion values are recomputed from the former parent of the subtree root upwards", kind="post")
    P.check("remove.nothing-else", not [e for e in log if e[0] in ("add-edge", "remove-edge", "add-node", "set-payload", "set")], "no other change to the graph or the dictionaries", kind="post")


REMOVE_COVERS = ["remove.whole-tree", "remove.dummy-root-skipped", "remove.clone", "remove.top-level-subtree", "remove.nested-subtree"]


# ----------------------------------------------------------------------------------------------------------- add_subtree


def h_add_subtree(I, fi):
    P = I.P
    t, F = tree_obj(I, fi.cls)
    log = F.log
    under_root = P.decide(2) == 1
    dsl.cover(I, "graft.under-root" if under_root else "graft.under-clone")
    parent = None if under_root else alg.sym("parent_name", "Int")
    dummy = alg.sym("sub_dummy_root_idx", "Int")

    class SubIdx(Model):
        def getitem(self, I_, key):
            if key != ROOT:
                raise Unsupported("subtree index of %r" % (key,))
            return dummy

    class SubCopy(Model):
        py_classes = ("Tree",)

        def a__node_indices(self, I_):
            return SubIdx()

        def a__ROOT_NODE_NAME(self, I_):
            return ROOT

        def a__graph(self, I_):
            return ("graph-of-subtree-copy",)

        def a__last_node_added_to(self, I_):
            return ("last-of-subtree",)

    copies = []

    class Sub(SubCopy):
        """the subtree as handed in: same observers, so that code which forgets to copy it still runs and is refuted by the postcondition"""

        def m_copy(self, I_):
            c = SubCopy()
            copies.append(c)
            return c

    class MapIdx(Model):
        def getitem(self, I_, k):
            return alg.raw_app("new_index", I_.to_num(k), sort="Int")

    mapidx = MapIdx()

    def compose(self, I_, other, edges):
        log.append(("compose", self, other, edges))
        return mapidx

    def rnre(self, I_, idx):
        log.append(("remove-retain", self, I_.to_num(idx)))

    Graph.m_compose = compose
    Graph.m_remove_node_retain_edges = rnre
    rel, ups = [], []
    I.registry.call_contracts[TR + "._relabel_grafted_subtree_nodes"] = lambda I_, a, k, n: rel.append((a, len(log)))
    I.registry.call_contracts[TR + "._update_path_to_root"] = lambda I_, a, k, n: ups.append((a[1], len(log), len(rel)))
    I.call_function(fi, [t, Sub()], {} if under_root else {"parent": parent}, force_inline=True)
    p_idx = F.ri if under_root else alg.raw_app("idx_of", parent, sort="Int")
    P.check("graft.works-on-a-copy-of-the-subtree", len(copies) == 1, "the grafted nodes are those of a copy: the subtree handed in is not shared with the tree", kind="post")
    if len(copies) != 1:
        return
    ok = len(log) == 2 and log[0][0] == "compose" and log[0][1] is t.fields["_graph"] and log[0][2] == ("graph-of-subtree-copy",) and isinstance(log[0][3], dict) and len(log[0][3]) == 1
    if ok:
        (k, v), = log[0][3].items()
        ok = (I.to_num(k) - p_idx).is_zero() and isinstance(v, tuple) and (I.to_num(v[0]) - dummy).is_zero() and v[1] is None
    P.check("graft.compose-under-the-parent", ok, "the copy's graph is merged in with one edge: parent -> the copy's dummy root", kind="post")
    ok2 = len(log) == 2 and log[1][0] == "remove-retain" and (log[1][2] - alg.raw_app("new_index", dummy, sort="Int")).is_zero()
    P.check("graft.dummy-root-spliced-out", ok2, "the merged dummy root is removed with its edges retained: its children hang under the parent", kind="post")
    ok3 = len(rel) == 1 and rel[0][0][1] is mapidx and rel[0][0][2] is copies[0] and type(rel[0][0][2]) is SubCopy and (I.to_num(rel[0][0][3]) - dummy).is_zero() and rel[0][1] == 2
    P.check("graft.names-and-maps-registered", ok3, "then every grafted node is (re)named and registered (contract of _relabel_grafted_subtree_nodes)", kind="post")
    P.check("graft.last-node", t.fields["_last_node_added_to"] == ("last-of-subtree",), "node_last_added_to is the subtree's", kind="post")
    okp = len(ups) == 1 and ups[0][1] == 2 and ups[0][2] == 1 and (ups[0][0] == ROOT if under_root else (isinstance(ups[0][0], Num) and (ups[0][0] - alg.raw_app("name_of", p_idx, sort="Int")).is_zero()))
    P.check("graft.path-update-from-the-parent", okp, "last, the recursion values are recomputed from the attachment point upwards", kind="post")


def h_relabel_grafted(I, fi, add_idx_fi):
    """_relabel_grafted_subtree_nodes: inductive step on an arbitrary grafted node from an arbitrary counter value >= the largest
    name in use: the node keeps its name iff that name is not in use, otherwise gets counter + 1 (larger than every name in use
    and every name of the subtree, hence fresh and different from every other grafted node's name); data list and both index maps
    are registered under the final name; the counter never decreases."""
    P = I.P
    t, F = tree_obj(I, fi.cls)
    log = F.log
    in_use = z3.Function("name_in_use", z3.IntSort(), z3.BoolSort())
    M = alg.sym("max_name", "Int")
    P.assume(P.z(M) >= -1)
    t.fields["_data"] = KeyLog("_data", log, member=lambda I_, k: SBool(in_use(I_.P.z(I_.to_num(k)))))
    dummy = alg.sym("sub_dummy_root_idx", "Int")
    npairs = alg.sym("n_grafted", "Int")
    P.assume(P.z(npairs) >= 0)

    class SubData(Model):
        def getitem(self, I_, k):
            return ("subtree-data", I_.to_num(k).key())

    class SubT(Model):
        py_classes = ("Tree",)

        def a__data(self, I_):
            return SubData()

        def a_nodes(self, I_):
            return [alg.sym("a_subtree_name", "Int")]

    class MapIdx(Model):
        def m_items(self, I_):
            def facts(I2, k):
                return [I2.P.z(alg.raw_app("old_index", I2.to_num(k), sort="Int")) != I2.P.z(dummy)]
            return SymSeq("grafted", npairs, lambda k: (alg.raw_app("old_index", I_.to_num(k), sort="Int"), alg.raw_app("new_index", alg.raw_app("old_index", I_.to_num(k), sort="Int"), sort="Int")),
                          facts, tail=[(dummy, alg.raw_app("new_index", dummy, sort="Int"))])

    # first_label = max(self.nodes + subtree.nodes + [-1]) by contract: an upper bound M of every name in use and every subtree name
    max_args = []
    I.registry.globals_override["max"] = lambda I_, *a: (max_args.append(a), M)[1]

    def g_nodes(self, I_):
        return SymSeq("graph-nodes", alg.sym("n_graph_nodes", "Int"), lambda k: Pay(("own", I_.to_num(k).key()), log, alg.raw_app("own_name", I_.to_num(k), sort="Int")))

    Graph.m_nodes = g_nodes
    renamed = []

    class GPay(Pay):
        def setattr(self, I_, name, value):
            if name != "node_id":
                raise Unsupported("store to TreeNode.%s" % name)
            renamed.append((self, value))
            self.name = value

    def loop(I_, node, fr):
        from pyvc.interp import _Continue
        seq = I_.eval(node.iter, fr)
        P.check("relabel.over-the-index-map", isinstance(seq, SymSeq) and seq.key == "grafted", "the loop ranges over the (old index, new index) pairs of the merge", kind="post")
        fl0 = fr.vars.get("first_label")
        a0 = max_args[0][0] if len(max_args) == 1 and len(max_args[0]) == 1 else None
        okmax = isinstance(a0, SymSeq) and a0.key.startswith("[node.node_id for") and len(a0.tail) == 2 and isinstance(a0.tail[0], Num) and a0.tail[0].key() == alg.sym("a_subtree_name", "Int").key() \
            and I_.to_num(a0.tail[1]).is_const() and I_.to_num(a0.tail[1]).const_value() == -1
        P.check("relabel.counter-starts-at-the-maximum", isinstance(fl0, Num) and (fl0 - M).is_zero() and okmax, "the counter starts at max(names of the tree ++ names of the subtree ++ [-1])", kind="post")
        fl = alg.sym(P.fresh_name("counter"), "Int")
        P.assume(P.z(fl) >= P.z(M), "invariant: the counter is at least the initial maximum")
        fr.vars["first_label"] = fl
        k = seq.fresh_index(I_, "pair")
        old, new = seq.at(I_, k)
        payload = GPay(I_.to_num(new), log, alg.raw_app("grafted_name", I_.to_num(old), sort="Int"))
        F.pay[I_.to_num(new).key()] = payload
        nm0 = payload.name
        P.assume(P.z(nm0) <= P.z(M), "M bounds the names of the subtree")
        x = alg.sym("some_name_in_use", "Int")
        P.assume(z3.Implies(in_use(P.z(x)), P.z(x) <= P.z(M)), "wf: every key of _data is a clone name of the tree or -1, so the maximum bounds the names in use (instance)")
        I_.assign_target(node.target, (old, new), fr)
        is_dummy = not P.feasible(P.z(I_.to_num(old)) != P.z(dummy))
        try:
            I_.exec_block(node.body, fr)
        except _Continue:
            dsl.cover(I_, "relabel.dummy-skipped")
            P.check("relabel.dummy-skipped", is_dummy and not log and not renamed, "the dummy root of the subtree is skipped", kind="post")
            raise PathEnd()
        P.check("relabel.only-the-dummy-is-skipped", not is_dummy, "every other pair is processed", kind="post")
        fl1 = fr.vars["first_label"]
        sets = [e for e in log if e[0] == "set"]
        idx_s, rev_s = t.fields["_node_indices"].stores, t.fields["_node_indices_rev"].stores
        if renamed:
            dsl.cover(I_, "relabel.renamed")
            final = I_.to_num(renamed[0][1])
            P.check("relabel.renamed-iff-in-use", z3.And(in_use(P.z(nm0)), P.z(final) == P.z(fl) + 1, P.z(I_.to_num(fl1)) == P.z(fl) + 1) if (len(renamed) == 1 and renamed[0][0] is payload) else False,
                    "a grafted node whose name is in use gets counter + 1 and the counter advances", kind="post")
            P.check("relabel.new-name-is-fresh", z3.And(P.z(final) > P.z(M), z3.Implies(in_use(P.z(x)), P.z(x) != P.z(final))), "the new name exceeds every name in use and every name of the subtree", kind="post")
        else:
            dsl.cover(I_, "relabel.kept")
            final = nm0
            P.check("relabel.kept-iff-not-in-use", z3.And(z3.Not(in_use(P.z(nm0))), P.z(I_.to_num(fl1)) == P.z(fl)), "a grafted node whose name is not in use keeps it; the counter is unchanged", kind="post")
        P.check("relabel.counter-invariant", P.z(I_.to_num(fl1)) >= P.z(M), "the counter stays at least the initial maximum", kind="post")
        ok = dsl.conj(len(sets) == 1 and sets[0][1] == "_data" and sets[0][3] == ("subtree-data", nm0.key()), P.z(sets[0][2]) == P.z(final)) if sets else False
        P.check("relabel.data-list-moved", ok, "the node's data list (the subtree's list under the old name) is stored under the final name", kind="post")
        okm = len(idx_s) == 1 and len(rev_s) == 1 and (idx_s[0][1] - I_.to_num(new)).is_zero() and (rev_s[0][0] - I_.to_num(new)).is_zero()
        P.check("relabel.index-maps", z3.And(P.z(idx_s[0][0]) == P.z(final), P.z(I_.to_num(rev_s[0][1])) == P.z(final)) if okm else False,
                "both index maps get (final name <-> new index)", kind="post")
        raise PathEnd()

    I.registry.loop_invariants[(fi.qualname, 0)] = loop

    I.call_function(fi, [t, MapIdx(), SubT(), dummy], {}, force_inline=True)


RELABEL_COVERS = ["relabel.dummy-skipped", "relabel.renamed", "relabel.kept"]


# ----------------------------------------------------------------------------------------------------------- relabel_nodes


VIS = "phyclone.tree.visitors.PreOrderNodeRelabeller"


def h_discover_vertex(I, init_fi, disc_fi):
    """PreOrderNodeRelabeller: constructed from (tree, data) it starts the counter at 0 with empty maps; discovering a clone with the
    counter at c renames it c, advances the counter, carries its data list over under the new name and registers (c <-> v) in both new
    maps; discovering the dummy root registers (root <-> v) and leaves the counter alone."""
    P = I.P
    t, F = tree_obj(I, None)
    log = F.log
    orig = KeyLog("orig_data", log)
    t.fields["_data"] = orig
    t.py_root = ROOT

    class TreeView(Model):
        py_classes = ("Tree",)

        def a__data(self, I_):
            return orig

        def a__graph(self, I_):
            return t.fields["_graph"]

        def a_root_node_name(self, I_):
            return ROOT

    vis = Obj(init_fi.cls)
    newdata = KeyLog("new_data", log)
    I.call_function(init_fi, [vis, TreeView(), newdata], {}, force_inline=True)
    f = vis.fields
    P.check("relabeller.initial-state", f.get("data") is newdata and f.get("orig_data") is orig and f.get("node_indices") == {} and f.get("node_indices_rev") == {} and f.get("graph") is t.fields["_graph"]
            and I.equal(f.get("curr_idx"), 0) is True and f.get("root_node_name") == ROOT, "a new relabeller counts from 0 with empty maps, on the tree's graph and data", kind="post")
    c = alg.sym("counter", "Int")
    P.assume(P.z(c) >= 0)
    f["curr_idx"] = c
    ni, nr = KeyLog("node_indices", log), KeyLog("node_indices_rev", log)
    f["node_indices"], f["node_indices_rev"] = ni, nr
    at_root = P.decide(2) == 1
    v = F.ri if at_root else alg.sym("v", "Int")
    if not at_root:
        P.assume(P.z(v) != P.z(F.ri))
    renamed = []

    class RPay(Pay):
        def setattr(self, I_, name, value):
            if name != "node_id":
                raise Unsupported("store to TreeNode.%s" % name)
            renamed.append((self, value))
            self.name = value

    old_name = alg.raw_app("name_of", v, sort="Int")
    F.pay[I.to_num(v).key()] = RPay(I.to_num(v), log, ROOT if at_root else old_name)
    I.call_function(disc_fi, [vis, v, alg.sym("time", "Int")], {}, force_inline=True)
    sets = [e for e in log if e[0] == "set"]
    if at_root:
        dsl.cover(I, "relabeller.root")
        ok = not renamed and len(sets) == 2 and sets[0][1] == "node_indices" and sets[0][2] == ROOT and (I.to_num(sets[0][3]) - v).is_zero() \
            and sets[1][1] == "node_indices_rev" and (sets[1][2] - v).is_zero() and sets[1][3] == ROOT and (I.to_num(f["curr_idx"]) - c).is_zero()
        P.check("relabeller.root", ok, "the dummy root keeps its name, is registered in both maps, the counter is unchanged", kind="post")
        return
    dsl.cover(I, "relabeller.clone")
    ok = len(renamed) == 1 and (I.to_num(renamed[0][1]) - c).is_zero() and (I.to_num(f["curr_idx"]) - c - 1).is_zero()
    P.check("relabeller.clone-renamed-to-the-counter", ok, "a clone discovered with the counter at c is renamed c and the counter becomes c + 1 (names are 0, 1, 2, ... in discovery order)", kind="post")
    ok2 = len(sets) == 3 and sets[0][1] == "new_data" and (sets[0][2] - c).is_zero() and sets[0][3] == ("value-of", "orig_data", old_name.key()) \
        and sets[1][1] == "node_indices" and (sets[1][2] - c).is_zero() and (I.to_num(sets[1][3]) - v).is_zero() \
        and sets[2][1] == "node_indices_rev" and (sets[2][2] - v).is_zero() and (I.to_num(sets[2][3]) - c).is_zero()
    P.check("relabeller.clone-registered", ok2, "its data list is carried over from the old name to the new one, and (new name <-> index) enters both new maps", kind="post")


def h_relabel_nodes(I, fi):
    P = I.P
    t, F = tree_obj(I, fi.cls)
    log = F.log
    outl = ("outlier-list",)

    class OldData(Model):
        def getitem(self, I_, k):
            if I_.equal(k, -1) is not True:
                raise Unsupported("relabel_nodes reads _data[%r]" % (k,))
            return outl

    old = OldData()
    t.fields["_data"] = old
    made, vis_made, searched = [], [], []
    newdata = KeyLog("new_data", log)
    I.registry.globals_override["defaultdict"] = lambda I_, f=None: (made.append(f), newdata)[1]
    I.registry.globals_override["list"] = lambda I_, x=(): ("copy-of", x)

    class Vis(Model):
        def __init__(self, tree, data):
            self.tree, self.data = tree, data

        def a_node_indices(self, I_):
            return ("visitor.node_indices", self)

        def a_node_indices_rev(self, I_):
            return ("visitor.node_indices_rev", self)

    I.registry.class_models["PreOrderNodeRelabeller"] = lambda I_, tree, data, start_idx=0: (vis_made.append(Vis(tree, data)), vis_made[-1])[1]

    class Rx(Model):
        def m_dfs_search(self, I_, g, sources, vis):
            searched.append((g, sources, vis, len(log)))

    I.registry.globals_override["rx"] = Rx()
    I.call_function(fi, [t], {}, force_inline=True)
    dsl.cover(I, "relabel_nodes")
    sets = [e for e in log if e[0] == "set"]
    P.check("relabel_nodes.outliers-kept", len(sets) == 1 and sets[0][1] == "new_data" and I.equal(sets[0][2], -1) is True and sets[0][3] == ("copy-of", outl), "the new data dictionary starts with a copy of the outlier list", kind="post")
    ok = len(vis_made) == 1 and vis_made[0].tree is t and vis_made[0].data is newdata and len(searched) == 1 and searched[0][0] is t.fields["_graph"] \
        and isinstance(searched[0][1], list) and len(searched[0][1]) == 1 and (I.to_num(searched[0][1][0]) - F.ri).is_zero() and searched[0][2] is vis_made[0] and searched[0][3] == 1
    P.check("relabel_nodes.pre-order-search-from-the-root", ok, "one depth-first search from the dummy root with a fresh relabeller over (tree, new data)", kind="post")
    if ok:
        v0 = vis_made[0]
        P.check("relabel_nodes.state-replaced", t.fields["_data"] is newdata and t.fields["_node_indices"] == ("visitor.node_indices", v0) and t.fields["_node_indices_rev"] == ("visitor.node_indices_rev", v0),
                "afterwards the tree's data dictionary and both index maps are the relabeller's", kind="post")


# ----------------------------------------------------------------------------------------------------------- to_dict / from_dict


class DictModel(Model):
    """a dictionary with symbolic content: copy() is recorded, items() is a symbolic sequence of (key, list) pairs"""

    def __init__(self, name, n=None):
        self.name, self.n = name, n

    def m_copy(self, I):
        return ("copy-of", self.name)

    def m_items(self, I):
        return ItemsModel(self)

    def getitem(self, I, key):
        return alg.raw_app("%s_at" % self.name, I.to_num(key), sort="Int")

    def contains(self, I, key):
        return SBool(z3.Function("in_%s" % self.name, z3.IntSort(), z3.BoolSort())(I.P.z(I.to_num(key))))


class ListTok(Model):
    def __init__(self, k):
        self.k = k

    def m_copy(self, I):
        return ("copy-of-list", self.k.key())


class ItemsModel(Model):
    def __init__(self, d):
        self.d = d

    def dict_comprehension(self, I, node, gen, fr):
        from pyvc.interp import Frame
        k = alg.sym(I.P.fresh_name("key"), "Int")
        sub = Frame(fr.module, fr.func, fr.cls)
        sub.vars = dict(fr.vars)
        I.assign_target(gen.target, (k, ListTok(k)), sub)
        if gen.ifs:
            raise Unsupported("filtered dict comprehension")
        return ("mapped-dict", self.d.name, k, I.eval(node.key, sub), I.eval(node.value, sub))


def _is_copied_data(x, name):
    return isinstance(x, tuple) and len(x) == 5 and x[0] == "mapped-dict" and x[1] == name and isinstance(x[3], Num) and (x[3] - x[2]).is_zero() and x[4] == ("copy-of-list", x[2].key())


def h_to_dict(I, fi):
    P = I.P
    t, F = tree_obj(I, fi.cls)
    t.fields["_data"] = DictModel("_data")
    t.fields["_node_indices"] = DictModel("_node_indices")
    t.fields["_node_indices_rev"] = DictModel("_node_indices_rev")
    t.fields["_last_node_added_to"] = alg.sym("last", "Int")
    Graph.m_edge_list = lambda self, I_: ("edge-list-of", self)
    d = I.call_function(fi, [t], {}, force_inline=True)
    dsl.cover(I, "to_dict")
    ok = isinstance(d, dict) and set(d) == {"graph", "node_idx", "node_idx_rev", "node_data", "grid_size", "node_last_added_to", "log_prior"}
    P.check("to_dict.keys", ok, "the dictionary has the seven documented entries", kind="post")
    if not ok:
        return
    P.check("to_dict.snapshot-shares-nothing", d["graph"] == ("edge-list-of", t.fields["_graph"]) and d["node_idx"] == ("copy-of", "_node_indices") and d["node_idx_rev"] == ("copy-of", "_node_indices_rev")
            and _is_copied_data(d["node_data"], "_data"), "edge list, both index maps and every data list are copies: later edits of the tree cannot reach the snapshot", kind="post")
    P.check("to_dict.scalars", d["grid_size"] is t.fields["grid_size"] and d["node_last_added_to"] is t.fields["_last_node_added_to"] and d["log_prior"] is t.fields["_log_prior"], "grid, prior and node_last_added_to are recorded", kind="post")


def h_from_dict(I, fi):
    P = I.P
    F = Forest(I)
    log = F.log
    has_edges = P.decide(2) == 1
    dsl.cover(I, "from_dict.with-clones" if has_edges else "from_dict.no-clone")
    n_items = alg.sym("n_places", "Int")
    P.assume(P.z(n_items) >= 0)

    class NodeData(DictModel):
        def m_items(self, I_):
            return NDItems(self)

    class NDItems(ItemsModel):
        def for_loop(self, I_, node, fr):
            # the second use: the loop that builds the TreeNodes - an arbitrary entry: a clone name, the outlier name or "root"
            kind = I_.P.decide(3)
            key = [alg.sym("clone_name", "Int"), Num.const(-1), ROOT][kind]
            if kind == 0:
                I_.P.assume(I_.P.z(key) >= 0)
            st["kind"] = kind
            st["key"] = key
            from pyvc.interp import _Continue
            I_.assign_target(node.target, (key, ("data-list-of", kind)), fr)
            n0 = len(log)
            try:
                I_.exec_block(node.body, fr)
            except _Continue:
                st["skipped"] = True
            st["body_log"] = log[n0:]

    st = {}
    edges = ("edge-list",) if has_edges else []
    node_idx, node_rev, node_data = DictModel("node_idx"), DictModel("node_idx_rev"), NodeData("node_data")
    G = alg.sym("G", "Int")
    P.assume(P.z(G) >= 1)
    grid = (alg.sym("D", "Int"), G)
    prior = alg.sym("stored_prior")
    stored_prior = P.decide(2) == 1
    dsl.cover(I, "from_dict.stored-prior" if stored_prior else "from_dict.legacy-no-prior")
    td = {"grid_size": grid, "log_prior": prior, "graph": edges, "node_idx": node_idx, "node_idx_rev": node_rev, "node_data": node_data, "node_last_added_to": alg.sym("last", "Int")}
    if not stored_prior:
        del td["log_prior"]
    graphs, made = [], []

    class NewGraph(Graph):
        def m_extend_from_edge_list(self, I_, e):
            log.append(("extend-from-edge-list", e))

        def m_remove_nodes_from(self, I_, xs):
            log.append(("remove-nodes", xs))

        def m_node_indices(self, I_):
            return HoleScan()

    class HoleScan(Model):
        def comprehension(self, I_, node, gen, fr):
            # [idx for idx in node_indices() if idx not in node_idx_rev]: recorded with its filter
            import ast as _ast
            return HoleList(_ast.unparse(node.elt), [_ast.unparse(c) for c in gen.ifs])

    class HoleList(Model):
        def __init__(self, elt, ifs):
            self.elt, self.ifs = elt, ifs

        def m___len__(self, I_):
            v = alg.sym("n_holes", "Int")
            I_.P.assume(I_.P.z(v) >= 0)
            return v

    class RxM(Model):
        def m_PyDiGraph(self, I_):
            g = NewGraph(F, "restored")
            graphs.append(g)
            return g

    class TN(Pay):
        def m_add_data_point_list(self, I_, data):
            log.append(("node-add-list", self, data))

    I.registry.globals_override["rx"] = RxM()
    I.registry.class_models["TreeNode"] = lambda I_, grid_, prior_, name: (made.append((grid_, prior_, name)), TN(("restored", len(made)), log, name))[1]
    newdata = []

    class NewData(Model):
        def __init__(self):
            self.updates = []

        def m_update(self, I_, x):
            self.updates.append(x)

    I.registry.globals_override["defaultdict"] = lambda I_, f=None: (newdata.append(NewData()), newdata[-1])[1]
    ups = []
    I.registry.call_contracts[TR + ".update"] = lambda I_, a, k, n: ups.append(len(log))
    cls_obj = I.repo.lookup_class(TR) if hasattr(I.repo, "lookup_class") else fi.cls
    new = I.call_function(fi, [cls_obj, td], {}, force_inline=True)
    ok = isinstance(new, Obj) and len(graphs) == 1 and new.fields.get("_graph") is graphs[0]
    P.check("from_dict.new-tree", ok, "a new Tree over a new graph", kind="post")
    if not ok:
        return
    f = new.fields
    P.check("from_dict.maps-and-data-copied", f.get("_node_indices") == ("copy-of", "node_idx") and f.get("_node_indices_rev") == ("copy-of", "node_idx_rev") and len(newdata) == 1 and f.get("_data") is newdata[0]
            and len(newdata[0].updates) == 1 and _is_copied_data(newdata[0].updates[0], "node_data"), "index maps and every data list are copies of the dictionary's: the restored tree shares nothing with it", kind="post")
    if stored_prior:
        okp = f.get("_log_prior") is prior
    else:
        prior = f.get("_log_prior")
        okp = isinstance(prior, Num) and (alg.is_identically_zero(prior + alg.slog(G)) or not P.feasible(P.z(prior) != P.z(-alg.slog(G))))
    P.check("from_dict.scalars", f.get("grid_size") is grid and okp and f.get("_last_node_added_to") is td["node_last_added_to"], "grid, prior (stored, or -log G for dictionaries written before it was stored) and node_last_added_to are restored", kind="post")
    adds = [e for e in log if e[0] == "add-node"]
    P.check("from_dict.root-first", len(adds) == 1 and log[0][0] == "add-node" and made and made[0] == (grid, prior, ROOT), "the dummy root is the first node of the new graph (index 0, as in every Tree)", kind="post")
    P.check("from_dict.update-last", len(ups) == 1 and ups[0] == len(log), "the recursion values are recomputed for the whole tree at the end", kind="post")
    if not has_edges:
        P.check("from_dict.no-clone-no-rebuild", len(log) == 1 and len(made) == 1, "without edges nothing else is built", kind="post")
        return
    P.check("from_dict.edges-restored", len(log) >= 2 and log[1] == ("extend-from-edge-list", edges), "the edge list is restored as a whole", kind="post")
    body = st.get("body_log")
    if body is None:
        P.check("from_dict.one-pass-over-the-places", False, "one pass over the stored data lists", kind="post")
        return
    if st["kind"] == 0:
        dsl.cover(I, "from_dict.clone-entry")
        key = st["key"]
        okb = not st.get("skipped") and len(made) == 2 and made[1][0] is grid and made[1][1] is prior and isinstance(made[1][2], Num) and (made[1][2] - key).is_zero() \
            and len(body) == 2 and body[0][0] == "node-add-list" and body[0][2] == ("data-list-of", 0) and body[1][0] == "set-payload" and body[1][1] is graphs[0] \
            and (body[1][2] - alg.raw_app("node_idx_at", key, sort="Int")).is_zero() and body[1][3] is body[0][1]
        P.check("from_dict.clone-node-rebuilt", okb, "for every clone a TreeNode on the stored grid and prior is filled with the clone's stored data list and placed at the clone's stored index", kind="post")
    else:
        dsl.cover(I, "from_dict.outlier-or-root-entry")
        P.check("from_dict.outliers-and-root-have-no-node", st.get("skipped") and not body and len(made) == 1, "the outlier list and a root entry build no TreeNode", kind="post")
    holes = [e for e in log if e[0] == "remove-nodes"]
    if holes:
        dsl.cover(I, "from_dict.holes-removed")
        h = holes[0][1]
        P.check("from_dict.only-unregistered-indices-removed", len(holes) == 1 and isinstance(h, HoleList) and h.elt == "idx" and h.ifs == ["idx not in tree_dict['node_idx_rev']"],
                "the indices removed are exactly those not registered in the stored reverse map (gaps left by earlier removals)", kind="post")
    else:
        dsl.cover(I, "from_dict.no-holes")


FROM_DICT_COVERS = ["from_dict.stored-prior", "from_dict.legacy-no-prior", "from_dict.with-clones", "from_dict.no-clone", "from_dict.clone-entry", "from_dict.outlier-or-root-entry", "from_dict.holes-removed", "from_dict.no-holes"]


# ----------------------------------------------------------------------------------------------------------- small readers / thin wrappers


def h_small(I, nodes_fi, nn_fi, dll_fi, outl_fi, gdata_fi, glen_fi, desc_fi, ndesc_fi, sublen_fi, addout_fi, remout_fi, addnode_fi, present_fi):
    P = I.P
    t, F = tree_obj(I, nodes_fi.cls)
    log = F.log
    which = P.decide(10)  # (adding a point twice trips the assertion of add_data_point_to_node: callers must exclude it - C07)
    v = alg.sym("v", "Int")

    class Lst(Model):
        def __init__(self, key):
            self.key = key

        def m___len__(self, I_):
            n_ = alg.raw_app("n_data_at", I_.to_num(self.key), sort="Int")
            I_.P.assume(I_.P.z(n_) >= 0)
            return n_

        def m_remove(self, I_, x):
            log.append(("list-remove", self.key, x))

        def contains(self, I_, x):
            return SBool(z3.Function("is_outlier_point", z3.IntSort(), z3.BoolSort())(I_.P.z(alg.sym("dp_idx", "Int"))))

    class Data(Model):
        def getitem(self, I_, k):
            return Lst(k)

        def contains(self, I_, k):
            return True

    t.fields["_data"] = Data()
    I.registry.globals_override["list"] = lambda I_, x=(): ("list-copy-of", x.key if isinstance(x, Lst) else x) if isinstance(x, (Lst, SymSeq)) and not isinstance(x, SymSeq) else (x if isinstance(x, SymSeq) else list(I_.iterate(x)))

    class Rx(Model):
        def m_descendants(self, I_, g, idx):
            nd = alg.raw_app("n_desc", I_.to_num(idx), sort="Int")
            I_.P.assume(I_.P.z(nd) >= 0)
            return SymSeq("descendants(%s)" % I_.to_num(idx).key(), nd, lambda k: alg.raw_app("desc", I_.to_num(idx), I_.to_num(k), sort="Int"))

    I.registry.globals_override["rx"] = Rx()
    if which == 0:
        Graph.m_nodes = lambda self, I_: SymSeq("graph-nodes", alg.sym("n_clones", "Int"), lambda k: Pay(("clone", I_.to_num(k).key()), log, alg.raw_app("clone_name", I_.to_num(k), sort="Int")), tail=[Pay(("root",), log, ROOT)])
        P.assume(P.z(alg.sym("n_clones", "Int")) >= 0)
        out = I.getattr(t, "nodes")
        dsl.cover(I, "small.nodes")
        ok = isinstance(out, SymSeq) and not out.tail and not P.feasible(P.z(out.core_len) != P.z(alg.sym("n_clones", "Int")))
        P.check("read.nodes", ok, "nodes lists the names of all graph nodes except the dummy root", kind="post")
    elif which == 1:
        out = I.call_function(nn_fi, [t], {}, force_inline=True)
        dsl.cover(I, "small.number-of-nodes")
        P.check("read.number-of-nodes", P.z(I.to_num(out)) == P.z(alg.sym("num_nodes", "Int") - 1), "the number of clones is the number of graph nodes minus the dummy root", kind="post")
    elif which == 2:
        out = I.getattr(t, "data_log_likelihood")
        dsl.cover(I, "small.data-log-likelihood")
        P.check("read.data-log-likelihood", out == ("log_r", F.ri.key()), "the tree's likelihood grid is the log_r vector of the dummy root", kind="post")
    elif which == 3:
        out = I.getattr(t, "outliers")
        dsl.cover(I, "small.outliers")
        P.check("read.outliers", isinstance(out, tuple) and out[0] == "list-copy-of" and I.equal(out[1], -1) is True, "outliers is a copy of the data list kept under -1", kind="post")
    elif which == 4:
        out = I.call_function(gdata_fi, [t, v], {}, force_inline=True)
        out2 = I.call_function(glen_fi, [t, v], {}, force_inline=True)
        dsl.cover(I, "small.get-data")
        P.check("read.get-data", isinstance(out, tuple) and out[0] == "list-copy-of" and (I.to_num(out[1]) - v).is_zero() and (I.to_num(out2) - alg.raw_app("n_data_at", v, sort="Int")).is_zero(),
                "get_data(v) is a copy of v's data list (callers may shuffle it), get_data_len(v) its length", kind="post")
    elif which == 5:
        out = I.call_function(desc_fi, [t, v], {}, force_inline=True)
        n2 = I.call_function(ndesc_fi, [t, v], {}, force_inline=True)
        dsl.cover(I, "small.descendants")
        vi = alg.raw_app("idx_of", v, sort="Int")
        nd = alg.raw_app("n_desc", vi, sort="Int")
        ok = isinstance(out, SymSeq) and not P.feasible(P.z(out.core_len) != P.z(nd)) and not P.feasible(P.z(I.to_num(n2)) != P.z(nd))
        P.check("read.descendants", ok, "get_descendants(v) names the rustworkx descendants of v's index; get_number_of_descendants counts them", kind="post")
    elif which == 6:
        out = I.call_function(sublen_fi, [t, v], {}, force_inline=True)
        dsl.cover(I, "small.subtree-data-len")
        vi = alg.raw_app("idx_of", v, sort="Int")
        nd = alg.raw_app("n_desc", vi, sort="Int")
        b = alg.fresh_bound()
        want = alg.raw_app("n_data_at", v, sort="Int") + alg.bigsum("", nd, alg.raw_app("n_data_at", alg.raw_app("name_of", alg.raw_app("desc", vi, b, sort="Int"), sort="Int"), sort="Int"), bound=b)
        P.check("read.subtree-data-len", bool(alg.is_identically_zero(I.to_num(out) - want)) or P.z(I.to_num(out)) == P.z(want), "get_subtree_data_len(v) = |data(v)| + sum over the descendants d of v of |data(d)|", kind="post")
    elif which == 7:
        calls = []
        I.registry.call_contracts[TR + ".add_data_point_to_node"] = lambda I_, a, k, n: calls.append((a[1], a[2]))
        I.call_function(addout_fi, [t, ("dp",)], {}, force_inline=True)
        dsl.cover(I, "small.add-outlier")
        P.check("edit.add-outlier", len(calls) == 1 and calls[0][0] == ("dp",) and I.equal(calls[0][1], -1) is True, "adding an outlier is adding the point to the place named -1", kind="post")
    elif which == 8:
        I.call_function(remout_fi, [t, ("dp",)], {}, force_inline=True)
        dsl.cover(I, "small.remove-outlier")
        P.check("edit.remove-outlier", len(log) == 1 and log[0][0] == "list-remove" and I.equal(log[0][1], -1) is True and log[0][2] == ("dp",), "removing an outlier removes the point from the list kept under -1 and touches nothing else", kind="post")
    elif which == 9:
        calls, pres = [], []
        I.registry.call_contracts[TR + "._is_data_point_in_tree"] = lambda I_, a, k, n: (pres.append(a[1]), 0)[1]
        I.registry.call_contracts[TR + "._internal_add_data_point_to_node"] = lambda I_, a, k, n: calls.append(tuple(a[1:]))
        I.call_function(addnode_fi, [t, ("dp",), v], {}, force_inline=True)
        dsl.cover(I, "small.add-to-node")
        P.check("edit.add-to-node", pres == [("dp",)] and len(calls) == 1 and calls[0][0] is False and calls[0][1] == ("dp",) and (I.to_num(calls[0][2]) - v).is_zero(),
                "add_data_point_to_node first checks the point is not in the tree, then adds it in update mode (path update on)", kind="post")


SMALL_COVERS = ["small.nodes", "small.number-of-nodes", "small.data-log-likelihood", "small.outliers", "small.get-data", "small.descendants", "small.subtree-data-len", "small.add-outlier",
                "small.remove-outlier", "small.add-to-node"]


# ----------------------------------------------------------------------------------------------------------- get_subtree


def h_get_subtree(I, fi, add_idx_fi):
    """get_subtree(r): the whole tree (a copy) for the dummy root; otherwise a NEW tree whose graph is the dummy root plus the induced subgraph on r and its
    descendants, attached under the root at r; every node of the new graph gets a copy of its payload (no TreeNode shared with the source), a copy of the
    source's data list under its name and its (name <-> index) entries; the recursion values are recomputed last; the source tree's graph is not written."""
    P = I.P
    t, F = tree_obj(I, fi.cls)
    log = F.log
    whole = P.decide(2) == 1
    copies = []
    I.registry.call_contracts[TR + ".copy"] = lambda I_, a, k, n: (copies.append(a[0]), ("copy-of-tree",))[1]
    if whole:
        out = I.call_function(fi, [t, ROOT], {}, force_inline=True)
        dsl.cover(I, "subtree.whole")
        P.check("subtree.whole-tree-is-a-copy", out == ("copy-of-tree",) and copies == [t] and not log, "the subtree at the dummy root is a copy of the tree", kind="post")
        return
    r = alg.sym("subtree_root", "Int")
    ri_new = alg.sym("new_root_idx", "Int")
    src_graph = t.fields["_graph"]

    class SrcData(Model):
        def getitem(self, I_, k):
            return ("src-data-list", k if isinstance(k, str) else I_.to_num(k).key())

    t.fields["_data"] = SrcData()
    I.registry.globals_override["list"] = lambda I_, x=(): ("list-copy-of", x) if isinstance(x, tuple) and x and x[0] == "src-data-list" else (x if isinstance(x, (SymSeq, Model)) else list(I_.iterate(x)))

    class DescList(Model):
        """list(rx.descendants(graph, idx)), possibly with a concrete prefix put in front of it"""

        def __init__(self, g, idx, head=()):
            self.g, self.idx, self.head = g, idx, list(head)

        def binop(self, I_, op, other, swapped):
            if not (isinstance(op, ast.Add) and swapped and isinstance(other, list)):
                raise Unsupported("operation on the list of descendants")
            return DescList(self.g, self.idx, list(other) + self.head)

        def as_sorted(self, I_, key=None, reverse=False):
            return self  # the same indices in another order (the subgraph is induced on a set of nodes)

    class Rx(Model):
        def m_descendants(self, I_, g, idx):
            return DescList(g, I_.to_num(idx))

    I.registry.globals_override["rx"] = Rx()
    sub_req = []

    class SubGraph(Model):
        def m_node_indices(self, I_):
            n_ = alg.sym("n_sub", "Int")
            I_.P.assume(I_.P.z(n_) >= 1)
            return SymSeq("sub.node_indices", n_, lambda k: alg.raw_app("sub_index", I_.to_num(k), sort="Int"))

        def getitem(self, I_, idx):
            return Pay(("sub", I_.to_num(idx).key()), log, alg.raw_app("sub_name", I_.to_num(idx), sort="Int"))

    sub = SubGraph()

    def subgraph(self, I_, idxs, preserve_attrs=False):
        sub_req.append((self, idxs, preserve_attrs))
        return sub

    Graph.m_subgraph = subgraph

    class NewPay(Pay):
        pass

    class NewGraph(Model):
        def __init__(self):
            self.items = {}

        def m_compose(self, I_, other, edges):
            log.append(("compose", other, edges))

        def m_node_indices(self, I_):
            n_ = alg.sym("n_new", "Int")
            I_.P.assume(I_.P.z(n_) >= 1)
            return SymSeq("new.node_indices", n_, lambda k: alg.raw_app("new_index", I_.to_num(k), sort="Int"))

        def getitem(self, I_, idx):
            k = I_.to_num(idx).key()
            if k in self.items:
                return self.items[k]
            return NewPay(("shared-payload", k), log, alg.raw_app("new_name", I_.to_num(idx), sort="Int"))

        def setitem(self, I_, idx, v):
            self.items[I_.to_num(idx).key()] = v
            log.append(("new-set-payload", I_.to_num(idx), v))

    class NewIdx(Model):
        def __init__(self):
            self.stores = []

        def getitem(self, I_, k):
            if k == ROOT:
                return ri_new
            raise Unsupported("new tree index of %r" % (k,))

        def setitem(self, I_, k, v):
            self.stores.append((k, v))

    class NewData(Model):
        def setitem(self, I_, k, v):
            log.append(("new-data", k, v))

    new = Obj(fi.cls)
    ng = NewGraph()
    new.fields.update({"_graph": ng, "_node_indices": NewIdx(), "_node_indices_rev": NewIdx(), "_data": NewData(), "grid_size": ("grid",)})
    made = []
    I.registry.class_models["Tree"] = lambda I_, grid=None: (made.append(grid), new)[1]
    ups = []
    I.registry.call_contracts[TR + ".update"] = lambda I_, a, k, n: ups.append((a[0], len(log)))
    st = {}

    def search(I_, node, fr):
        """the linear search for the subgraph index whose payload is named subtree_root: one arbitrary iteration in both outcomes; afterwards the index found"""
        from pyvc.interp import _Break
        seq = I_.eval(node.iter, fr)
        P.check("subtree.search-over-the-subgraph", isinstance(seq, SymSeq) and seq.key == "sub.node_indices", "the search ranges over the node indices of the induced subgraph", kind="post")
        mode = P.decide(3)
        if mode < 2:
            j = seq.fresh_index(I_, "probe")
            idx = seq.at(I_, j)
            nm = alg.raw_app("sub_name", I_.to_num(idx), sort="Int")
            P.assume(P.z(nm) == P.z(r) if mode == 0 else P.z(nm) != P.z(r))
            before = fr.vars.get("sub_root_idx")
            I_.assign_target(node.target, idx, fr)
            broke = False
            try:
                I_.exec_block(node.body, fr)
            except _Break:
                broke = True
            if mode == 0:
                dsl.cover(I_, "subtree.search-hit")
                P.check("subtree.search-hit", broke and (I_.to_num(fr.vars.get("sub_root_idx")) - I_.to_num(idx)).is_zero(), "a node named subtree_root ends the search with its index", kind="post")
            else:
                dsl.cover(I_, "subtree.search-miss")
                P.check("subtree.search-miss", not broke and fr.vars.get("sub_root_idx") is before, "any other node leaves the result untouched and the search goes on", kind="post")
            raise PathEnd()
        found = alg.sym("sub_root_found", "Int")
        P.assume(P.z(alg.raw_app("sub_name", found, sort="Int")) == P.z(r), "the induced subgraph contains the subtree root (it is the first index asked for)")
        fr.vars["sub_root_idx"] = found
        st["found"] = found

    I.registry.loop_invariants[(fi.qualname, 0)] = search
    I.registry.generic_loops.add(fi.qualname)
    I.registry.distinct_iterables = {"node_indices"}
    I.registry.generic_store_ok = {"new._data"}  # keyed by the node's name: names are pairwise distinct (wf)
    out = I.call_function(fi, [t, r], {}, force_inline=True)
    dsl.cover(I, "subtree.proper")
    ridx = alg.raw_app("idx_of", r, sort="Int")
    P.check("subtree.new-tree", out is new and made == [("grid",)], "a new Tree on the same grid is returned", kind="post")
    lst = sub_req[0][1] if sub_req else None
    ok_nodes = isinstance(lst, DescList) and lst.g is src_graph and (lst.idx - ridx).is_zero() and len(lst.head) == 1 and (I.to_num(lst.head[0]) - ridx).is_zero()
    P.check("subtree.induced-on-root-and-descendants", len(sub_req) == 1 and sub_req[0][0] is src_graph and sub_req[0][2] is True and ok_nodes, "the subgraph is induced (attributes preserved) on the subtree root and its descendants", kind="post")
    comp = [e for e in log if e[0] == "compose"]
    okc = len(comp) == 1 and comp[0][1] is sub and isinstance(comp[0][2], dict) and len(comp[0][2]) == 1
    if okc:
        (k_, v_), = comp[0][2].items()
        okc = (I.to_num(k_) - ri_new).is_zero() and isinstance(v_, tuple) and (I.to_num(v_[0]) - st["found"]).is_zero() and v_[1] is None
    P.check("subtree.attached-under-the-new-root", okc, "the subgraph is merged into the new tree with one edge: new dummy root -> the subtree root", kind="post")
    gens = P.ghost.get("generic_indices", [])
    sets = [e for e in log if e[0] == "new-set-payload"]
    datas = [e for e in log if e[0] == "new-data"]
    if len(gens) >= 1 and len(sets) == 1:
        idx = alg.raw_app("new_index", gens[-1], sort="Int")
        nm = alg.raw_app("new_name", idx, sort="Int")
        p = sets[0][2]
        P.check("subtree.payload-copied", (sets[0][1] - idx).is_zero() and isinstance(p, Pay) and p.key == ("copy-of", ("shared-payload", idx.key())), "every node of the new graph gets a copy of the payload it shares with the source after the merge", kind="post")
        P.check("subtree.data-list-copied", len(datas) == 1 and (I.to_num(datas[0][1]) - nm).is_zero() and datas[0][2] == ("list-copy-of", ("src-data-list", nm.key())), "its data list is a copy of the source's list under the same name", kind="post")
        i1, i2 = new.fields["_node_indices"].stores, new.fields["_node_indices_rev"].stores
        P.check("subtree.index-maps", len(i1) == 1 and len(i2) == 1 and (I.to_num(i1[0][0]) - nm).is_zero() and (I.to_num(i1[0][1]) - idx).is_zero() and (I.to_num(i2[0][0]) - idx).is_zero() and (I.to_num(i2[0][1]) - nm).is_zero(),
                "and its (name <-> index) entries are registered in the new tree", kind="post")
    else:
        P.check("subtree.payload-copied", False, "every node of the new graph gets a copy of its payload", kind="post")
    P.check("subtree.update-last", len(ups) == 1 and ups[0][0] is new and ups[0][1] == len(log), "the new tree's recursion values are recomputed last", kind="post")
    P.check("subtree.source-untouched", not [e for e in log if e[0] in ("set-payload", "add-edge", "remove-edge", "add-node", "del", "remove-nodes")] and not t.fields["_node_indices"].stores, "the source tree's graph and index maps are not written", kind="post")


SUBTREE_COVERS = ["subtree.whole", "subtree.proper", "subtree.search-hit", "subtree.search-miss"]
