"""Layer 1, graph level: contracts on the methods of phyclone.tree.tree.Tree that maintain the rustworkx forest, for any
number of clones / children / path length.  The PyDiGraph is represented by its contract as used by Tree: a forest over
integer indices with a dummy root, one TreeNode payload per index; name <-> index maps are mutually inverse.  Library
operations are recorded (add_node / add_edge / remove_edge / item assignment) and the postconditions are stated over the record.

  _update_node(i)            the node at i is updated from the log_r vectors of exactly its current children
  _update_path_to_root(s)    _update_node is called on every node of the unique root path of s, bottom-up (s first, root last)
  create_root_node(C, data)  new name = num_nodes-1; the new node hangs under the root, every c in C is moved from the root to
                             the new node, nothing else is rewired, data go to the new node, then the path update starts at it
  copy()                     no container, payload or data list is shared with the source
  get_parent / get_children / roots / get_number_of_children   read the forest through the name <-> index maps
  __init__ / _add_node       a tree with only the dummy root
  update()                   post-order (children before parents) _update_node over the whole forest (rustworkx dfs_search contract)

Library contracts assumed (rustworkx): in a forest all_simple_paths(root, v) is the single root path of v (none for v = root);
successors / predecessors list the children / the parent; node_indices() are pairwise distinct; PyDiGraph.copy() is a new graph
sharing the payload objects; dfs_search calls finish_vertex on a vertex after all its descendants."""
import z3

from pyvc import alg, dsl
from pyvc.alg import Num
from pyvc.builtins_model import SymSeq
from pyvc.interp import Model, Obj, PathEnd, SBool, Unsupported

TR = "phyclone.tree.tree.Tree"
ROOT = "root"


class Pay(Model):
    py_classes = ("TreeNode",)

    def __init__(self, key, log, name=None):
        self.key, self.log, self.name = key, log, name

    def a_node_id(self, I):
        if self.name is not None:
            return self.name
        return alg.raw_app("name_of", self.key, sort="Int")

    def a_log_r(self, I):
        return ("log_r", self.key if not isinstance(self.key, Num) else self.key.key())

    def m_update_node_from_child_r_vals(self, I, vals):
        self.log.append(("node-update", self, vals))

    def m_add_data_point_list(self, I, data):
        self.log.append(("node-add-list", self, data))

    def m_copy(self, I):
        return Pay(("copy-of", self.key if not isinstance(self.key, Num) else self.key.key()), self.log, self.name)


class Forest:
    def __init__(self, I):
        self.ri = alg.sym("root_idx", "Int")
        self.log = []
        self.pay = {}

    def payload(self, I, idx):
        idx = I.to_num(idx)
        k = idx.key()
        if k not in self.pay:
            self.pay[k] = Pay(idx, self.log, ROOT if (idx - self.ri).is_zero() else None)
        return self.pay[k]


class NodeIdx(Model):
    """_node_indices: name -> index (inverse of _node_indices_rev)"""

    def __init__(self, F):
        self.F, self.stores = F, []

    def getitem(self, I, key):
        if key == ROOT:
            return self.F.ri
        kn = I.to_num(key)
        for a, b in reversed(self.stores):
            if not isinstance(a, str) and (a - kn).is_zero():
                return b
        v = alg.raw_app("idx_of", kn, sort="Int")
        I.P.assume(z3.And(I.P.z(v) != I.P.z(self.F.ri), I.P.z(alg.raw_app("name_of", v, sort="Int")) == I.P.z(kn)), "wf: the name <-> index maps are mutually inverse; a clone is not the dummy root")
        return v

    def setitem(self, I, key, v):
        self.stores.append((key if isinstance(key, str) else I.to_num(key), v))

    def m_copy(self, I):
        return ("copy-of", self)


class NodeRev(Model):
    def __init__(self, F):
        self.F, self.stores = F, []

    def getitem(self, I, idx):
        idx = I.to_num(idx)
        if (idx - self.F.ri).is_zero():
            return ROOT
        return alg.raw_app("name_of", idx, sort="Int")

    def setitem(self, I, idx, v):
        self.stores.append((I.to_num(idx), v))

    def m_copy(self, I):
        return ("copy-of", self)


class Graph(Model):
    def __init__(self, F, name="g"):
        self.F, self.name = F, name
        self.items = []

    def getitem(self, I, idx):
        for a, b in reversed(self.items):
            if (a - I.to_num(idx)).is_zero():
                return b
        return self.F.payload(I, idx)

    def setitem(self, I, idx, v):
        self.items.append((I.to_num(idx), v))
        self.F.log.append(("set-payload", self, I.to_num(idx), v))

    def m_successors(self, I, idx):
        idx = I.to_num(idx)
        n = alg.raw_app("n_children", idx, sort="Int")
        I.P.assume(I.P.z(n) >= 0)
        return SymSeq("succ(%s)" % idx.key(), n, lambda k: self.F.payload(I, alg.raw_app("child", idx, I.to_num(k), sort="Int")))

    def m_predecessors(self, I, idx):
        idx = I.to_num(idx)
        # forest: every clone has exactly one parent
        return [self.F.payload(I, alg.raw_app("parent", idx, sort="Int"))]

    def m_num_nodes(self, I):
        v = alg.sym("num_nodes", "Int")
        I.P.assume(I.P.z(v) >= 1)
        return v

    def m_add_node(self, I, obj):
        n = alg.sym(I.P.fresh_name("new_idx"), "Int")
        I.P.assume(I.P.z(n) != I.P.z(self.F.ri))
        self.F.log.append(("add-node", self, obj, n))
        self.F.pay[n.key()] = obj
        return n

    def m_add_edge(self, I, a, b, w=None):
        self.F.log.append(("add-edge", self, I.to_num(a), I.to_num(b)))

    def m_remove_edge(self, I, a, b):
        a, b = I.to_num(a), I.to_num(b)
        I.P.check("edge-present[%s]" % I.site(None), I.P.z(alg.raw_app("parent", b, sort="Int")) == I.P.z(a), "remove_edge(a, b) raises NoEdgeBetweenNodes unless a is the parent of b")
        self.F.log.append(("remove-edge", self, a, b))

    def m_copy(self, I):
        g = Graph(self.F, "copy-of-" + self.name)
        self.F.log.append(("graph-copy", self, g))
        return g

    def m_node_indices(self, I):
        n = alg.sym("n_indices", "Int")
        I.P.assume(I.P.z(n) >= 1)
        return SymSeq("node_indices(%s)" % self.name, n, lambda k: alg.raw_app("index_at", I.to_num(k), sort="Int"))


def tree_obj(I, cls):
    F = Forest(I)
    t = Obj(cls)
    t.fields.update({"_graph": Graph(F), "_node_indices": NodeIdx(F), "_node_indices_rev": NodeRev(F), "grid_size": ("grid",), "_log_prior": alg.sym("log_prior"),
                     "_last_node_added_to": None})
    return t, F


# ----------------------------------------------------------------------------------------------------------- _update_node


def h_update_node(I, fi):
    P = I.P
    t, F = tree_obj(I, fi.cls)
    i = alg.sym("i", "Int")
    I.call_function(fi, [t, i], {}, force_inline=True)
    dsl.cover(I, "update_node")
    ups = [e for e in F.log if e[0] == "node-update"]
    ok = len(ups) == 1 and len(F.log) == 1 and ups[0][1] is F.payload(I, i)
    P.check("update_node.updates-that-node-only", ok, "exactly the node at index i is updated; the graph is not changed", kind="post")
    if not ok:
        return
    vals = ups[0][2]
    n = alg.raw_app("n_children", i, sort="Int")
    okv = isinstance(vals, SymSeq) and not vals.tail and not P.feasible(P.z(vals.core_len) != P.z(n))
    P.check("update_node.one-vector-per-child", okv, "one log_r vector per current child of i", kind="post")
    if okv and P.feasible(P.z(n) > 0):
        k = alg.sym("k", "Int")
        P.assume(z3.And(P.z(k) >= 0, P.z(k) < P.z(n)))
        P.check("update_node.child-vectors", vals.core_at(I, k) == ("log_r", alg.raw_app("child", i, k, sort="Int").key()), "the k-th vector is the log_r of the k-th child of i", kind="post")


# ----------------------------------------------------------------------------------------------------------- _update_path_to_root


def h_update_path(I, fi):
    P = I.P
    t, F = tree_obj(I, fi.cls)
    at_root = P.decide(2) == 1
    dsl.cover(I, "path.from-root" if at_root else "path.from-clone")
    calls = []
    L = alg.sym("path_len", "Int")
    P.assume(P.z(L) >= 2)
    src = ROOT if at_root else alg.sym("source", "Int")
    src_idx = F.ri if at_root else t.fields["_node_indices"].getitem(I, src)
    path = SymSeq("root-path", L, lambda k: alg.raw_app("path", I.to_num(k), sort="Int"))
    asked = []

    class Rx(Model):
        def m_all_simple_paths(self, I_, g, a, b):
            asked.append((g, I_.to_num(a), I_.to_num(b)))
            if at_root:
                return []
            # forest contract: the single path root = path[0], ..., path[L-1] = source
            I_.P.assume(z3.And(I_.P.z(alg.raw_app("path", Num.const(0), sort="Int")) == I_.P.z(F.ri), I_.P.z(alg.raw_app("path", L - 1, sort="Int")) == I_.P.z(src_idx)))
            return [path]

    I.registry.globals_override["rx"] = Rx()
    I.registry.call_contracts[TR + "._update_node"] = lambda I_, a, k, n: calls.append(I_.to_num(a[1]))
    I.registry.generic_loops.add(fi.qualname)

    # name_of(path[k]) facts needed by the function's own asserts
    class Rev(Model):
        def getitem(self, I_, idx):
            idx = I_.to_num(idx)
            if not I_.P.feasible(I_.P.z(idx) != I_.P.z(F.ri)):
                return ROOT
            if not I_.P.feasible(I_.P.z(idx) != I_.P.z(src_idx)) and not at_root:
                return src
            return alg.raw_app("name_of", idx, sort="Int")

    t.fields["_node_indices_rev"] = Rev()
    I.call_function(fi, [t, src], {}, force_inline=True)
    P.check("path.asks-for-the-root-path", len(asked) == 1 and asked[0][0] is t.fields["_graph"] and (asked[0][1] - F.ri).is_zero() and (asked[0][2] - src_idx).is_zero(),
            "the path is the one from the dummy root to the source", kind="post")
    if at_root:
        P.check("path.root-only", len(calls) == 1 and (calls[0] - F.ri).is_zero(), "from the root: only the root is updated", kind="post")
        return
    gens = P.ghost.get("generic_indices", [])
    ok = len(gens) == 1 and len(calls) == 1
    P.check("path.one-update-per-path-node", ok, "one _update_node per node of the path (arbitrary position j of the call order)", kind="post")
    if ok:
        j = gens[0]
        P.check("path.bottom-up", P.z(calls[0]) == P.z(alg.raw_app("path", L - 1 - j, sort="Int")),
                "the j-th call updates path[L-1-j]: the source first, then its ancestors in order, the root last", kind="post")


# ----------------------------------------------------------------------------------------------------------- create_root_node


def h_create_root_node(I, fi, add_node_fi, add_idx_fi, add_list_fi):
    from pyvc.builtins_model import DefaultDictVal, PyBuiltin
    P = I.P
    t, F = tree_obj(I, fi.cls)
    with_data = P.decide(2) == 1
    dsl.cover(I, "create.with-data" if with_data else "create.without-data")
    data = DefaultDictVal(PyBuiltin("list", lambda I_: []))
    t.fields["_data"] = data
    C = alg.sym("n_new_children", "Int")
    P.assume(P.z(C) >= 0)
    idx_map = t.fields["_node_indices"]

    def child_name(k):
        return alg.raw_app("new_child", I.to_num(k), sort="Int")

    def facts(I_, k):
        # requires: the children handed in are top-level clones (children of the dummy root)
        c_idx = idx_map.getitem(I_, child_name(k))
        return [I_.P.z(alg.raw_app("parent", c_idx, sort="Int")) == I_.P.z(F.ri)]

    children = SymSeq("children", C, child_name, facts)
    dp = ("dp",)
    made = []
    I.registry.class_models["TreeNode"] = lambda I_, grid, prior, name: (made.append((grid, prior, name)), Pay(("new-node",), F.log, name))[1]
    path_calls = []
    I.registry.call_contracts[TR + "._update_path_to_root"] = lambda I_, a, k, n: path_calls.append((a[1], len(F.log)))
    I.registry.generic_loops.add(fi.qualname)
    out = I.call_function(fi, [t], {"children": children, "data": [dp] if with_data else None}, force_inline=True)
    K = alg.sym("num_nodes", "Int") - 1
    P.check("create.name", isinstance(out, Num) and (out - K).is_zero() and len(made) == 1 and isinstance(made[0][2], Num) and (made[0][2] - K).is_zero() and made[0][0] == ("grid",),
            "the new clone is named num_nodes - 1 (fresh when the clone names in use are 0 .. K-1) and its TreeNode is built on the tree's grid and prior", kind="post")
    x = alg.sym("existing_name", "Int")
    P.assume(z3.And(P.z(x) >= 0, P.z(x) < P.z(K)), "requires: clone names in use are 0 .. K-1 (trees built by create_root_node / relabel_nodes)")
    P.check("create.name-is-fresh", P.z(x) != P.z(K), "no existing clone has the new name", kind="post")
    adds = [e for e in F.log if e[0] == "add-node"]
    if len(adds) != 1:
        P.check("create.one-node-added", False, "exactly one node is added to the graph", kind="post")
        return
    n = adds[0][3]
    P.check("create.index-maps", [(a, b) for a, b in idx_map.stores] and (idx_map.stores[-1][0] - K).is_zero() and idx_map.stores[-1][1] is n and len(idx_map.stores) == 1
            and len(t.fields["_node_indices_rev"].stores) == 1 and (t.fields["_node_indices_rev"].stores[0][0] - n).is_zero() and (I.to_num(t.fields["_node_indices_rev"].stores[0][1]) - K).is_zero(),
            "both index maps get exactly the entry (new name <-> new index)", kind="post")
    edges = [e for e in F.log if e[0] in ("add-edge", "remove-edge")]
    gens = P.ghost.get("generic_indices", [])
    has_child = len(gens) == 1
    dsl.cover(I, "create.some-child" if has_child else "create.no-child")
    P.check("create.under-the-root", len(edges) >= 1 and edges[0][0] == "add-edge" and (edges[0][2] - F.ri).is_zero() and edges[0][3] is n, "the new clone is attached under the dummy root first", kind="post")
    if has_child:
        c_idx = idx_map.getitem(I, child_name(gens[0]))
        ok = len(edges) == 3 and edges[1][0] == "remove-edge" and (edges[1][2] - F.ri).is_zero() and (edges[1][3] - c_idx).is_zero() \
            and edges[2][0] == "add-edge" and edges[2][2] is n and (edges[2][3] - c_idx).is_zero()
        P.check("create.child-moved", ok, "an arbitrary listed child c is detached from the root and attached under the new clone; nothing else is rewired for it", kind="post")
    else:
        P.check("create.no-rewiring", len(edges) == 1, "without children nothing else is rewired", kind="post")
    lst = data.getitem(I, out)
    node_adds = [e for e in F.log if e[0] == "node-add-list"]
    if with_data:
        P.check("create.data", lst == [dp] and len(node_adds) == 1 and node_adds[0][1] is adds[0][2] and node_adds[0][2] == [dp], "the data go to the new clone's data list and to its TreeNode", kind="post")
    else:
        P.check("create.no-data", lst == [] and not node_adds, "without data the new clone is empty", kind="post")
    P.check("create.last-node", t.fields["_last_node_added_to"] is out or (isinstance(t.fields["_last_node_added_to"], Num) and (t.fields["_last_node_added_to"] - K).is_zero()), "node_last_added_to is the new clone", kind="post")
    P.check("create.path-update-last", len(path_calls) == 1 and isinstance(path_calls[0][0], Num) and (path_calls[0][0] - K).is_zero() and path_calls[0][1] == len(F.log),
            "the recursion values are recomputed from the new clone upwards, after all rewiring and data insertion", kind="post")


CREATE_COVERS = ["create.with-data", "create.without-data", "create.some-child", "create.no-child"]


# ----------------------------------------------------------------------------------------------------------- readers


def h_readers(I, parent_fi, children_fi, nch_fi, roots_fi):
    P = I.P
    t, F = tree_obj(I, parent_fi.cls)
    which = P.decide(5)
    v = alg.sym("v", "Int")
    vi = t.fields["_node_indices"].getitem(I, v) if which != 4 else None
    if which == 0:
        out = I.call_function(parent_fi, [t, v], {}, force_inline=True)
        dsl.cover(I, "read.parent")
        P.check("read.parent", isinstance(out, (Num, str)) and (out == ROOT or (I.to_num(out) - alg.raw_app("name_of", alg.raw_app("parent", vi, sort="Int"), sort="Int")).is_zero()
                                                                    or not P.feasible(P.z(alg.raw_app("parent", vi, sort="Int")) != P.z(F.ri))),
                "get_parent(v) is the name of the node v hangs under", kind="post")
    elif which == 1:
        out = I.call_function(parent_fi, [t, ROOT], {}, force_inline=True)
        dsl.cover(I, "read.parent-of-root")
        P.check("read.parent-of-root", out is None, "the dummy root has no parent", kind="post")
    elif which == 2:
        out = I.call_function(children_fi, [t, v], {}, force_inline=True)
        dsl.cover(I, "read.children")
        n = alg.raw_app("n_children", vi, sort="Int")
        ok = isinstance(out, SymSeq) and not out.tail and not P.feasible(P.z(out.core_len) != P.z(n))
        if ok and P.feasible(P.z(n) > 0):
            k = alg.sym("k", "Int")
            P.assume(z3.And(P.z(k) >= 0, P.z(k) < P.z(n)))
            ok = (I.to_num(out.core_at(I, k)) - alg.raw_app("name_of", alg.raw_app("child", vi, k, sort="Int"), sort="Int")).is_zero()
        P.check("read.children", ok, "get_children(v) lists the names of the successors of v", kind="post")
    elif which == 3:
        out = I.call_function(nch_fi, [t, v], {}, force_inline=True)
        dsl.cover(I, "read.number-of-children")
        P.check("read.number-of-children", P.z(I.to_num(out)) == P.z(alg.raw_app("n_children", vi, sort="Int")), "get_number_of_children(v) counts the successors of v", kind="post")
    else:
        out = I.getattr(t, "roots")
        dsl.cover(I, "read.roots")
        n = alg.raw_app("n_children", F.ri, sort="Int")
        ok = isinstance(out, SymSeq) and not out.tail and not P.feasible(P.z(out.core_len) != P.z(n))
        if ok and P.feasible(P.z(n) > 0):
            k = alg.sym("k", "Int")
            P.assume(z3.And(P.z(k) >= 0, P.z(k) < P.z(n)))
            ok = (I.to_num(out.core_at(I, k)) - alg.raw_app("name_of", alg.raw_app("child", F.ri, k, sort="Int"), sort="Int")).is_zero()
        P.check("read.roots", ok, "roots lists the names of the successors of the dummy root (the top-level clones)", kind="post")


READ_COVERS = ["read.parent", "read.parent-of-root", "read.children", "read.number-of-children", "read.roots"]


# ----------------------------------------------------------------------------------------------------------- copy


def h_copy(I, fi):
    P = I.P
    t, F = tree_obj(I, fi.cls)
    t.cls = fi.cls
    n_places = alg.sym("n_places", "Int")
    P.assume(P.z(n_places) >= 0)
    log = F.log

    class DataList(Model):
        def __init__(self, k):
            self.k = k

        def m_copy(self, I_):
            return ("copy-of-list", self.k.key())

    class SrcData(Model):
        def m_items(self, I_):
            return Items()

    class Items(Model):
        def dict_comprehension(self, I_, node, gen, fr):
            from pyvc.interp import Frame
            k = alg.sym(I_.P.fresh_name("place"), "Int")
            sub = Frame(fr.module, fr.func, fr.cls)
            sub.vars = dict(fr.vars)
            I_.assign_target(gen.target, (k, DataList(k)), sub)
            if gen.ifs:
                raise Unsupported("filtered dict comprehension")
            return ("mapped-dict", k, I_.eval(node.key, sub), I_.eval(node.value, sub))

    class NewData(Model):
        def __init__(self):
            self.updates = []

        def m_update(self, I_, x):
            self.updates.append(x)

    src_data = SrcData()
    t.fields["_data"] = src_data
    newdata = []
    I.registry.globals_override["defaultdict"] = lambda I_, f=None: (newdata.append(NewData()), newdata[-1])[1]
    I.registry.generic_loops.add(fi.qualname)
    I.registry.distinct_iterables = {"node_indices"}
    new = I.call_function(fi, [t], {}, force_inline=True)
    dsl.cover(I, "copy")
    ok = isinstance(new, Obj) and new is not t and new.cls is t.cls
    P.check("copy.new-object", ok, "copy() returns a new Tree object", kind="post")
    if not ok:
        return
    f, g = new.fields, t.fields
    P.check("copy.scalars", f.get("grid_size") is g["grid_size"] and f.get("_log_prior") is g["_log_prior"] and f.get("_last_node_added_to") is g["_last_node_added_to"], "grid, prior and node_last_added_to are carried over", kind="post")
    P.check("copy.index-maps-copied", f.get("_node_indices") == ("copy-of", g["_node_indices"]) and f.get("_node_indices_rev") == ("copy-of", g["_node_indices_rev"]), "both index maps are copies, not the source's dictionaries", kind="post")
    d = f.get("_data")
    okd = isinstance(d, NewData) and len(d.updates) == 1 and isinstance(d.updates[0], tuple) and d.updates[0][0] == "mapped-dict"
    if okd:
        _, k, key_e, val_e = d.updates[0]
        okd = isinstance(key_e, Num) and (key_e - k).is_zero() and val_e == ("copy-of-list", k.key())
    P.check("copy.data-lists-copied", okd, "every place keeps its name and gets a copy of its data list (no list shared)", kind="post")
    g2 = f.get("_graph")
    copies = [e for e in log if e[0] == "graph-copy"]
    sets = [e for e in log if e[0] == "set-payload"]
    gens = P.ghost.get("generic_indices", [])
    okg = isinstance(g2, Graph) and len(copies) == 1 and copies[0][1] is g["_graph"] and copies[0][2] is g2 and len(gens) == 1 and len(sets) == 1
    P.check("copy.graph-copied", okg, "the graph is a copy of the source graph; one pass over its node indices", kind="post")
    if okg:
        i = alg.raw_app("index_at", gens[0], sort="Int")
        src_pay = F.payload(I, i)
        newp = sets[0][3]
        P.check("copy.payload-copied", sets[0][1] is g2 and (sets[0][2] - i).is_zero() and isinstance(newp, Pay) and newp is not src_pay and newp.key == ("copy-of", i.key()),
                "at every index the shared payload is replaced, in the new graph only, by a copy of it (no TreeNode shared; the source graph is not written)", kind="post")


# ----------------------------------------------------------------------------------------------------------- __init__ / update


def h_init(I, fi, add_node_fi, add_idx_fi):
    P = I.P
    t = Obj(fi.cls)
    F = Forest(I)
    graphs = []

    class RxM(Model):
        def m_PyDiGraph(self, I_):
            g = Graph(F, "fresh")
            graphs.append(g)
            return g

    made = []
    I.registry.globals_override["rx"] = RxM()
    I.registry.class_models["TreeNode"] = lambda I_, grid, prior, name: (made.append((grid, prior, name)), Pay(("node", len(made)), F.log, name))[1]
    G = alg.sym("G", "Int")
    P.assume(P.z(G) >= 1)
    grid = (alg.sym("D", "Int"), G)
    I.call_function(fi, [t, grid], {}, force_inline=True)
    dsl.cover(I, "init")
    f = t.fields
    adds = [e for e in F.log if e[0] == "add-node"]
    P.check("init.only-the-dummy-root", len(graphs) == 1 and f.get("_graph") is graphs[0] and len(adds) == 1 and len(F.log) == 1 and len(made) == 1 and made[0][2] == ROOT,
            "a new tree's graph holds exactly the dummy root", kind="post")
    P.check("init.prior", isinstance(f.get("_log_prior"), Num) and (alg.is_identically_zero(f["_log_prior"] + alg.slog(G)) or P.z(f["_log_prior"]) == P.z(-alg.slog(G))) and len(made) == 1 and made[0][1] is f["_log_prior"] and made[0][0] is grid,
            "the grid prior is -log(grid size) and the root's TreeNode is built with it", kind="post")
    ni, nr = f.get("_node_indices"), f.get("_node_indices_rev")
    ok = isinstance(ni, dict) and isinstance(nr, dict) and len(adds) == 1 and list(ni.items()) == [(ROOT, adds[0][3])] and len(nr) == 1 and list(nr.values()) == [ROOT]
    P.check("init.index-maps", ok, "the index maps hold exactly root <-> its index", kind="post")
    P.check("init.rest", f.get("_last_node_added_to") is None and f.get("grid_size") is grid, "no node added to yet; grid recorded", kind="post")


def h_update(I, fi, vis_init_fi, vis_finish_fi):
    P = I.P
    t, F = tree_obj(I, fi.cls)
    calls = []
    searched = []
    I.registry.call_contracts[TR + "._update_node"] = lambda I_, a, k, n: calls.append(I_.to_num(a[1]))

    class RxM(Model):
        def m_dfs_search(self, I_, g, sources, vis):
            searched.append((g, sources, vis))
            # library contract: finish_vertex(v, t) is called for every vertex reachable from the sources, after all its descendants
            v = alg.sym("v_finished", "Int")
            I_.call_function(vis_finish_fi, [vis, v, alg.sym("time", "Int")], {})
            searched.append(("finished", v))

    I.registry.globals_override["rx"] = RxM()
    I.call_function(fi, [t], {}, force_inline=True)
    dsl.cover(I, "update")
    ok = len(searched) == 2 and searched[0][0] is t.fields["_graph"] and isinstance(searched[0][1], list) and len(searched[0][1]) == 1 and (I.to_num(searched[0][1][0]) - F.ri).is_zero()
    P.check("update.depth-first-from-the-root", ok, "one depth-first search of the tree's graph from the dummy root", kind="post")
    P.check("update.post-order-update", len(calls) == 1 and len(searched) == 2 and (calls[0] - searched[1][1]).is_zero(),
            "finishing a vertex (after all its descendants) updates exactly that vertex: children are recomputed before their parents", kind="post")


def verify_all(ctx, repo, prop):
    R = dsl.Registry
    dsl.verify(ctx, repo, R(), prop + ".graph", TR + "._update_node", h_update_node, expect_covers=["update_node"])
    dsl.verify(ctx, repo, R(), prop + ".graph", TR + "._update_path_to_root", h_update_path, expect_covers=["path.from-root", "path.from-clone"])
    dsl.verify(ctx, repo, R(), prop + ".graph", [TR + ".create_root_node", TR + "._add_node", TR + "._add_node_to_indices", TR + "._add_list_of_data_points_to_node"], h_create_root_node, expect_covers=CREATE_COVERS)
    dsl.verify(ctx, repo, R(), prop + ".graph", [TR + ".get_parent", TR + ".get_children", TR + ".get_number_of_children", TR + ".roots"], h_readers, expect_covers=READ_COVERS)
    dsl.verify(ctx, repo, R(), prop + ".graph", TR + ".copy", h_copy, expect_covers=["copy"])
    dsl.verify(ctx, repo, R(), prop + ".graph", [TR + ".__init__", TR + "._add_node", TR + "._add_node_to_indices"], h_init, expect_covers=["init"])
    dsl.verify(ctx, repo, R(), prop + ".graph", [TR + ".update", "phyclone.tree.visitors.PostOrderNodeUpdater.__init__", "phyclone.tree.visitors.PostOrderNodeUpdater.finish_vertex"], h_update, expect_covers=["update"])
    ctx.trust("rustworkx PyDiGraph by its contract as used by Tree (forest: unique root path, successors / predecessors, distinct node indices, shallow copy(), dfs_search finish order)",
              "Tree.get_subtree / add_subtree / remove_subtree / relabel_nodes / from_dict (compose, subgraph, remove_nodes_from, visitors): not under contract (bounded edit-grammar enumeration)")
